"""C04 (round 4) — the statement TEXT inside the model.

Correspondence of `CSEPCatalog.filter` with Model/FilterText.lean (ops c04_text, c04_float, c04_strp): the characters of a
statement are handed to the Lean model, which splits at single spaces, looks the column and the operator up, reads the value with
its own `float()` (DecimalText + the non-finite words + overflow) or its own `strptime_to_utc_epoch` (format chosen from the text,
CPython's field grammar, the UTC offset parsed and discarded) and filters.  Direct oracle, independent of model and of
`float(str)`: the generator knows what every text it writes DENOTES (an exact Fraction, rounded to the nearest double through
integer division; an instant computed with integer calendar arithmetic) and keeps exactly the rows for which every statement is
true (IEEE comparison).

Texts that are NOT statements (doubled / leading / trailing space, unknown operator or column, a value `float()` rejects, an
impossible date) are outside the property; for them only the agreement "model raises <=> implementation raises" is recorded in
the evidence (`text_malformed`), never a verdict."""
import datetime
import math
import random
from fractions import Fraction

import numpy

from .core import frac
from .c04_mct import _guarded, _mk_dt, _enc_events_f, _fenc, DTYPES

# Input class on which the UNCHANGED code deviates from the property's wording and that waits for a decision (see notes/C04.md).
# While listed the class is not generated; delete the entry and the oracle reports it.
AWAITING_DECISION = [
    dict(id="W-C04-4", cls="datetime-nonzero-utc-offset",
         what="a datetime statement whose text carries a UTC offset other than +00:00 ('datetime >= 2010-01-01 00:00:00+05:30') "
              "selects by the wall-clock digits: strptime_to_utc_datetime parses the offset and then REPLACES tzinfo by UTC "
              "(time_utils.py:114) instead of converting, although its docstring promises conversion; the origin-time statement "
              "for the same instant (19 800 000 ms earlier) selects other events"),
]
_AWAIT = {w["cls"] for w in AWAITING_DECISION}

BLANKS = ["\t", "\n", "\r", "\x0b", "\x0c"]
MIN_MS, MAX_MS = -62135596800000, 253402300799999
EPOCH = datetime.datetime(1970, 1, 1)
ATTRS = [("origin_time", "t"), ("latitude", "lat"), ("longitude", "lon"), ("depth", "dep"), ("magnitude", "mag")]
OPS = [(">", "gt"), ("<", "lt"), (">=", "ge"), ("<=", "le"), ("==", "eq")]
COL = {"t": 1, "lat": 2, "lon": 3, "dep": 4, "mag": 5}


def hexs(text):
    return text.encode("ascii").hex() or "e"


# ----------------------------------------------------------------------------- what a value text denotes (oracle side)
def round_to_double(q):
    """nearest double of an exact rational (ties to even): Python's int / int true division is correctly rounded"""
    try:
        return q.numerator / q.denominator
    except OverflowError:
        return math.inf if q > 0 else -math.inf


def exact_decimal(x):
    """the exact decimal expansion of a dyadic rational (a double, or the midpoint of two neighbouring doubles)"""
    q = Fraction(x)
    sign = "-" if q < 0 else ""
    q = abs(q)
    k = 0
    while (q.denominator >> k) > 1:
        k += 1
    assert q.denominator == 1 << k
    num = q.numerator * 5 ** k                   # q = num / 10^k
    s = str(num).rjust(k + 1, "0")
    return sign + (s[:-k] + "." + s[-k:] if k else s)


def gen_value_text(rng, v):
    """a text for (about) the finite double v, and what it denotes: ("fin", double) / ("nan",) / ("inf", sign)"""
    k = rng.random()
    if k < 0.30:
        txt, q = repr(v), None
    elif k < 0.40:
        txt = rng.choice([format(v, ".17e"), format(v, ".17g"), format(v, ".16E"), format(v, ".20e")])
        q = None
    elif k < 0.47:
        txt, q = exact_decimal(v), Fraction(v)                       # all digits of the double
    elif k < 0.57:
        w = math.nextafter(v, rng.choice([-math.inf, math.inf]))
        mid = (Fraction(v) + Fraction(w)) / 2                           # a tie: must go to the even neighbour
        txt = exact_decimal(mid)
        kk = rng.random()
        if kk < 0.3:
            txt += "1"                                                  # just above the tie
        elif kk < 0.5 and txt[-1] != "0":
            txt = txt[:-1] + str(int(txt[-1]) - 1) + "9"              # just below the tie
        q = None
    elif k < 0.65:
        r = round(v, rng.choice([0, 1, 2, 3]))
        txt = repr(r)
        if txt.endswith(".0") and rng.random() < 0.7:
            txt = rng.choice([txt[:-2], txt[:-1]])                     # '5', '5.'
        if txt.startswith("0.") and len(txt) > 2 and rng.random() < 0.5:
            txt = txt[1:]                                               # '.5'
        if txt.startswith("-0.") and len(txt) > 3 and rng.random() < 0.5:
            txt = "-" + txt[2:]
        q = None
    elif k < 0.72:
        a = abs(v)
        ip = int(a)
        fp = repr(a - ip)[1:] if a != ip else rng.choice(["", ".0", "."])
        if "e" in fp:
            fp = ""
        txt = ("-" if v < 0 else "") + f"{ip:_}" + fp                 # digit groups: 1_246_406_400_000
        q = None
    elif k < 0.78:
        txt = rng.choice(["000", "0", "00000000"]) + repr(abs(v))
        txt = ("-" if v < 0 else rng.choice(["", "+"])) + txt
        q = None
    elif k < 0.84:
        m, e = f"{v:.17e}".split("e")
        ev = int(e)
        sg = "-" if ev < 0 else rng.choice(["", "+"])
        txt = m + rng.choice(["e", "E"]) + sg + rng.choice(["", "0", "00"]) + str(abs(ev))
        q = None
    elif k < 0.88:
        txt = rng.choice(["1e400", "-1e400", "1e309", "-2e308", "1.8e308", "1.7976931348623157e308", "1.7976931348623159e308",
                          "17976931348623158079372897140530341507993413271003782693617377898044496829276475094664901797758720"
                          "70997054790739361143428636740535144225280512774632286492576009481128721604460477965493305592627510"
                          "01703930913977995249516485164031672240409054322835324236480513906009985152960403860207648517578144"
                          "5648", "1e-400", "-1e-400", "5e-324", "2.4703282292062327e-324", "2.4703282292062328e-324",
                          "2.2250738585072011e-308", "4.9e-324", "0e999", "-0.0", "0", "1e-5000", "1e5000"])
        q = None
    else:
        w = rng.choice(["nan", "NaN", "NAN", "+nan", "-nan", "inf", "Inf", "INF", "-inf", "+inf", "infinity", "Infinity", "-INFINITY",
                        "+Infinity", "iNfInItY"])
        txt, q = w, None
        low = w.lower().lstrip("+-")
        den = ("nan",) if low == "nan" else ("inf", -1 if w.startswith("-") else 1)
        if rng.random() < 0.2:
            txt = rng.choice(BLANKS) + txt
        return txt, den
    # denotation of a finite numeral: exact value of the text, rounded once
    body = txt.replace("_", "")
    m, _, e = body.lower().partition("e")
    ip, _, fp = m.lstrip("+-").partition(".")
    exact = Fraction(int((ip or "0") + fp), 10 ** len(fp)) * (Fraction(10) ** int(e or "0"))
    if m.startswith("-"):
        exact = -exact
    if q is not None:
        assert q == exact, (txt, q, exact)
    d = round_to_double(exact)
    kk = rng.random()
    if kk < 0.10:
        txt = rng.choice(BLANKS) + txt
    elif kk < 0.18:
        txt = txt + rng.choice(BLANKS)
    elif kk < 0.22 and not txt.startswith(("-", "+")):
        txt = "+" + txt
    if d in (math.inf, -math.inf):
        return txt, ("inf", 1 if d > 0 else -1)
    return txt, ("fin", d)


MAIN_WORDS = {"nan", "NaN", "inf", "-inf", "+inf", "Infinity", "-Infinity", "Inf", "-Inf"}


def exotic_value(txt, den):
    """value texts CPython's float() accepts but another reasonable reader of 'attribute op value' might not: digit-group
    underscores, blanks around the value, non-finite words in unusual case / signed nan, literals beyond the double range.
    A statement with such a value may be rejected without a verdict; if it is accepted it must mean what float() says."""
    if "_" in txt:
        return "digit-groups"
    if txt != txt.strip("\t\n\r\x0b\x0c"):
        return "blank-around-value"
    if den[0] != "fin":
        if txt not in MAIN_WORDS:
            return "overflow-literal" if txt[-1].isdigit() else "unusual-nonfinite-word"
        return None
    if den[1] == 0.0 and any(c in "123456789" for c in txt.lower().split("e")[0]):
        return "underflow-literal"
    if 0 < abs(den[1]) < 2.3e-308:
        return "denormal-literal"
    return None


def den_value(den):
    return math.nan if den[0] == "nan" else (den[1] * math.inf if den[0] == "inf" else den[1])


# ----------------------------------------------------------------------------- datetime texts
def civil_to_ms(y, mo, d, h, mi, s, us):
    """integer calendar arithmetic (proleptic Gregorian), floor to the millisecond"""
    yy = y - 1 if mo <= 2 else y
    era = yy // 400
    yoe = yy - era * 400
    mp = (mo + 9) % 12
    doy = (153 * mp + 2) // 5 + d - 1
    doe = yoe * 365 + yoe // 4 - yoe // 100 + doy
    days = era * 146097 + doe - 719468
    return (days * 86400 + h * 3600 + mi * 60 + s) * 1000 + us // 1000


def gen_datetime_text(rng, ms):
    """text of a datetime statement's date and time for the instant ms (+ sub-millisecond digits); returns (text, instant)"""
    ms = min(max(ms, MIN_MS), MAX_MS)
    us = rng.choice([0, 0, 0, 1, 500, 999, 100, 10, 990])      # sub-millisecond digits: fractions of length 4..6 too
    if rng.random() < 0.3:
        ms, us = ms - ms % 1000, 0
    dt = EPOCH + datetime.timedelta(milliseconds=ms) + datetime.timedelta(microseconds=us)
    pad = rng.random() < 0.6

    def f(x, always=False):
        return f"{x:02d}" if (pad or always or rng.random() < 0.5) else str(x)
    date = f"{dt.year:04d}-{f(dt.month)}-{f(dt.day)}"
    tm = f"{f(dt.hour)}:{f(dt.minute)}:{f(dt.second)}"
    if dt.microsecond or rng.random() < 0.3:
        frac_digits = f"{dt.microsecond:06d}"
        if rng.random() < 0.6:
            frac_digits = frac_digits.rstrip("0") or "0"                 # 1-6 digits, right-padded by strptime
            run_len = len(frac_digits)
            if rng.random() < 0.3 and run_len < 6:
                frac_digits += "0" * rng.randint(1, 6 - run_len)         # some, not all, trailing zeros
        tm += "." + frac_digits
    k = rng.random()
    off = 0
    if k < 0.25:
        tm += "+00:00"
    elif k < 0.33 and "datetime-nonzero-utc-offset" not in _AWAIT:
        hh, mm = rng.choice([(5, 30), (1, 0), (23, 59), (0, 1), (9, 0)])
        tm += f"+{hh:02d}:{mm:02d}"
        off = (hh * 60 + mm) * 60000
    if rng.random() < 0.03:
        tm = rng.choice(["\t", "\n"]) + tm                               # the blank of the format is \s+
    inst = civil_to_ms(dt.year, dt.month, dt.day, dt.hour, dt.minute, dt.second, dt.microsecond) - off
    assert off or inst == ms
    exotic = None
    if tm[0] in "\t\n":
        exotic = "blank-run-in-datetime"
    elif len(date) != 10 or len(tm.split(".")[0].split("+")[0]) != 8:
        exotic = "unpadded-datetime-field"
    return date + " " + tm, inst, exotic


# ----------------------------------------------------------------------------- statements
def gen_rows(rng, n):
    from . import c04 as base
    evs = base.gen_events(rng, n)
    rows = []
    for e in evs:
        e = list(e)
        if rng.random() < 0.05:
            e[1] = rng.choice([MIN_MS, MIN_MS + 1, MAX_MS, MAX_MS - 1, 0, -1])
        elif rng.random() < 0.3:
            # sub-second parts that print as a fraction of EVERY length 1..3 once trailing zeros are dropped ('.5', '.05', '.005',
            # '.12', '.999'): a datetime statement for such an instant (and its +-1 ms neighbours) has a 1-, 2- or 3-digit fraction
            e[1] = e[1] - e[1] % 1000 + rng.choice([500, 100, 900, 50, 10, 990, 120, 5, 1, 999, 0, 250])
        for col in (2, 3, 4, 5):
            if rng.random() < (0.12 if col == 4 else 0.03):
                e[col] = rng.choice([math.nan, math.inf, -math.inf])
        rows.append(base.row_of(tuple(e)))
    return rows


def gen_text_stmt(rng, rows):
    """dict(text, attr, op, den | inst, kind)"""
    name, key = rng.choice(ATTRS)
    sym, op = rng.choice(OPS)
    if key == "t" and rng.random() < 0.55:
        ms = rng.choice(rows)[1] + rng.choice([0, 0, 0, 1, -1]) if rows and rng.random() < 0.8 else \
            rng.randrange(-2 * 10 ** 12, 4 * 10 ** 12)
        txt, inst, exo = gen_datetime_text(rng, ms)
        return dict(text=f"datetime {sym} {txt}", attr="t", op=op, den=["fin", float(inst)], kind="datetime", date_text=txt, exotic=exo)
    own = []
    for r in rows:
        x = float(r[1]) if key == "t" else float.fromhex(r[COL[key]])
        if x == x and abs(x) != math.inf:
            own.append(x)
    k = rng.random()
    if own and k < 0.7:
        v = rng.choice(own)
        if rng.random() < 0.25:
            v = math.nextafter(v, rng.choice([-math.inf, math.inf])) if key != "t" else v + rng.choice([-1.0, 1.0, 0.5, -0.5])
    elif key == "t":
        v = float(rng.randrange(-2 * 10 ** 12, 4 * 10 ** 12))
    else:
        lo, hi = {"lat": (-90, 90), "lon": (-180, 180), "dep": (0, 700), "mag": (0, 10)}[key]
        v = rng.choice([rng.uniform(lo, hi), float(rng.randrange(lo, hi + 1)), round(rng.uniform(lo, hi), 1), 0.0, 1e-320, 1234567.125])
    txt, den = gen_value_text(rng, v)
    assert " " not in txt
    return dict(text=f"{name} {sym} {txt}", attr=key, op=op, den=list(den), kind="num", value_text=txt, exotic=exotic_value(txt, den))


BAD_OPS = ["=>", "=", "!=", "<>", "ge", "=<", ">>", ""]
BAD_NAMES = ["mag", "Magnitude", "time", "lat", "MAGNITUDE", "origin-time", "datetimes", "", "id"]
BAD_VALUES = ["4,5", "1e", "0x10", "abc", "", "4.5.", "--4", "1__0", "_1", "1_", "1_.5", "e5", ".", "+", "in", "na", "infinit",
              "1e+", "4.5f", "1 ", "٤"]
BAD_DATES = ["2010-02-30 00:00:00", "2010-01-01 24:00:00", "2010-01-01 00:60:00", "2010-01-01 00:00:60",
             "2010-01-01 00:00:00.1234567", "2010-01-01 00:00:00-05:00", "2010-01-01 00:00:00+24:00", "2010-01-01 00:00:00Z",
             "2010-13-01 00:00:00", "2010-00-01 00:00:00", "2010-01-00 00:00:00", "10-01-01 00:00:00", "2010-01-01 00:00",
             "2010-01-01 00:00:00.", "2010/01/01 00:00:00", "2010-01-01 00:00:00+0530", "0000-01-01 00:00:00", "2011-02-29 12:00:00",
             "2010-01-01 00:00:00.5+00:0", "2010-01-01 1:2", "1:2:3 2010-01-01"]


def gen_malformed(rng, rows):
    """a text that is NOT a statement; returns (text, mutation name)"""
    s = gen_text_stmt(rng, rows)
    toks = s["text"].split(" ")
    k = rng.choice(["double-space", "leading-space", "trailing-space", "drop-token", "extra-token", "bad-op", "bad-name",
                    "bad-value", "bad-date", "empty", "T-separator", "no-space"])
    if k == "double-space":
        i = rng.randrange(1, len(toks))
        return " ".join(toks[:i]) + "  " + " ".join(toks[i:]), k
    if k == "leading-space":
        return " " + s["text"], k
    if k == "trailing-space":
        return s["text"] + " ", k
    if k == "drop-token":
        del toks[rng.randrange(len(toks))]
        return " ".join(toks), k
    if k == "extra-token":
        toks.insert(rng.randrange(len(toks) + 1), rng.choice(["and", "5", ">=", "UTC"]))
        return " ".join(toks), k
    if k == "bad-op":
        toks[1] = rng.choice(BAD_OPS)
        return " ".join(toks), k
    if k == "bad-name":
        toks[0] = rng.choice(BAD_NAMES)
        return " ".join(toks[:3]), k
    if k == "bad-value":
        return " ".join([rng.choice(ATTRS)[0], toks[1], rng.choice(BAD_VALUES)]), k
    if k == "bad-date":
        return f"datetime {toks[1]} " + rng.choice(BAD_DATES), k
    if k == "empty":
        return "", k
    if k == "T-separator":
        return f"datetime {toks[1]} 2010-01-01T00:00:00", k
    return s["text"].replace(" ", "", 1), k


def ieee_row_holds(row, st):
    from . import c04 as base
    v = den_value(st["den"])
    a = row[1] if st["attr"] == "t" else float.fromhex(row[COL[st["attr"]]])
    if v != v or (isinstance(a, float) and a != a):
        return False
    fa = Fraction(a) if abs(a) != math.inf else a
    fv = Fraction(v) if abs(v) != math.inf else v
    return base.OPF[st["op"]](fa, fv)


FORMS = ["string-each", "list", "tuple", "kw", "np-str", "positional", "stored", "load", "forecast"]


def gen_text_case(rng):
    n = rng.choice([1, 2, 3, 5, 8, 15, 30])
    rows = gen_rows(rng, n)
    sts = [gen_text_stmt(rng, rows) for _ in range(rng.choice([1, 1, 2, 3]))]
    bad = None
    if rng.random() < 0.3:
        bad = list(gen_malformed(rng, rows))
    return dict(kind="text", events=[list(r) for r in rows], stmts=sts, form=rng.choice(FORMS), dtype=rng.choice(DTYPES),
                in_place=rng.random() < 0.5, malformed=bad)


def _apply(case, rows, texts):
    """run the statements through the call form of the case; returns the rows of the result"""
    from . import c04 as base
    how, form, ip = case.get("dtype", "list"), case["form"], case["in_place"]
    cat = _mk_dt(rows, how)

    def own(res, c=None):
        """in_place=False: a new object, the original's rows untouched; in_place=True: the catalog itself"""
        c = cat if c is None else c
        if not ip and (res is c or base.snapshot(c) != rows):
            raise AssertionError(f"[{form}] in_place=False " + ("returned the catalog itself" if res is c else "changed the rows of the original"))
        if ip and res is not c:
            raise AssertionError(f"[{form}] in_place=True did not return the catalog itself")
        return base.snapshot(res)
    if form == "string-each":
        for t in texts:
            cat = cat.filter(t, in_place=ip)
        return base.snapshot(cat)
    if form == "list":
        return own(cat.filter(list(texts), in_place=ip))
    if form == "tuple":
        return own(cat.filter(tuple(texts), in_place=ip))
    if form == "kw":
        return own(cat.filter(statements=list(texts), in_place=ip))
    if form == "np-str":
        for t in texts:
            cat = cat.filter(numpy.str_(t), in_place=ip)
        return base.snapshot(cat)
    if form == "positional":
        return own(cat.filter(list(texts), ip))
    if form == "stored":
        cat = _mk_dt(rows, how, filters=list(texts) if len(texts) > 1 else texts[0])
        return base.snapshot(cat.filter(in_place=ip))
    if form == "load":
        import csep
        evs = [(r[0], r[1], float.fromhex(r[2]), float.fromhex(r[3]), float.fromhex(r[4]), float.fromhex(r[5])) for r in rows]
        return base.snapshot(csep.load_catalog("not-read.csv", loader=lambda f: list(evs), filters=list(texts), apply_filters=True))
    if form == "forecast":
        from csep.core.forecasts import CatalogForecast
        f = CatalogForecast(catalogs=[cat], filters=list(texts), apply_filters=True)
        return base.snapshot(next(f))
    raise AssertionError(form)


@_guarded
def text_case(run, drv, pending, case):
    from . import c04 as base
    from csep.utils.time_utils import strptime_to_utc_epoch
    rows = [tuple(r) for r in case["events"]]
    sts = case["stmts"]
    texts = [s["text"] for s in sts]
    want = [r for r in rows if all(ieee_row_holds(r, s) for s in sts)]
    run.count("text:form-" + case["form"])
    exotic = sorted({s["exotic"] for s in sts if s.get("exotic")})
    try:
        got = _apply(case, rows, texts)
    except Exception as e:
        if exotic:
            # a text float() / strptime accept but that is not the plain 'attribute op value' every reader must understand:
            # rejecting it is not a verdict (recorded); accepting it with another meaning would be
            for x in exotic:
                run.count("text:exotic-rejected:" + x)
            run.case(dict(kind="text", n=len(rows), stmts=texts[:3]), None)
            return
        run.oracle_failure(case, f"filter({texts!r}) [{case['form']}] raised {type(e).__name__}: {e}; every statement is "
                                 f"'<column> <op> <value float() accepts>' or a datetime statement strptime accepts")
        return
    if got != want:
        run.oracle_failure(case, f"filter({texts!r}) [{case['form']}] kept ids {[r[0] for r in got]}; the rows for which every "
                                 f"statement (value = what the text denotes, rounded once to a double) is true are {[r[0] for r in want]}")
        return
    for x in exotic:
        run.count("text:exotic-accepted:" + x)
    for s in sts:
        run.count("text:" + s["kind"] + ":" + s["den"][0])
        if s["kind"] == "datetime":
            ms = strptime_to_utc_epoch(s["date_text"])
            if float(ms) != s["den"][1]:
                run.oracle_failure(case, f"strptime_to_utc_epoch({s['date_text']!r}) = {ms}, the text denotes {int(s['den'][1])}")
                return
            j = drv.ask("c04_strp " + hexs(s["date_text"]))
            pending.append((case, j, str(int(s["den"][1])), "strp"))
        else:
            py = float(s["value_text"])
            d = den_value(s["den"])
            if not (py == d or (py != py and d != d)):
                raise AssertionError(f"oracle and float() disagree on {s['value_text']!r}: {d!r} vs {py!r}")
            j = drv.ask("c04_float " + hexs(s["value_text"]))
            pending.append((case, j, _fenc(d), "float"))
    i = drv.ask(" ".join(["c04_text", _enc_events_f(rows), ";".join(hexs(t) for t in texts)]))
    pending.append((case, i, ",".join(str(r[0]) for r in got) or "-", "ids"))
    hit = any(s["den"][0] != "fin" or any(
        (r[1] if s["attr"] == "t" else float.fromhex(r[COL[s["attr"]]])) == s["den"][1] for r in rows) for s in sts)
    run.case(dict(kind="text", n=len(rows), stmts=texts[:3]),
             ("text", tuple(rows), tuple(texts)) if (0 < len(want) < len(rows) or hit) else None)
    # a text that is not a statement: outside the property; only the agreement with the model is recorded
    if case.get("malformed"):
        bad, mut = case["malformed"]
        try:
            bad.encode("ascii")
            ascii_ok = True
        except UnicodeEncodeError:
            ascii_ok = False
        cat = _mk_dt(rows, case.get("dtype", "list"))
        try:
            res = base.snapshot(cat.filter(bad, in_place=False))
            impl = ",".join(str(r[0]) for r in res) or "-"
        except Exception as e:
            impl = "raises"
        run.count("text:malformed:" + mut + (":raises" if impl == "raises" else ":accepted"))
        if ascii_ok:
            j = drv.ask(" ".join(["c04_text", _enc_events_f(rows), hexs(bad)]))
            pending.append((dict(kind="text-malformed", text=bad), j, impl, "malformed"))


def flush(run, drv, pending):
    out = drv.run()
    mal = run.extra.setdefault("text_malformed", dict(agree=0, differ=0, examples=[]))
    for case, i, impl, what in pending:
        model = out[i]
        if what == "malformed":
            m = "raises" if model.startswith("err:") else model
            if m == impl:
                mal["agree"] += 1
            else:
                mal["differ"] += 1
                if len(mal["examples"]) < 5:
                    mal["examples"].append(dict(text=case["text"], impl=impl, model=model))
            continue
        if impl != model:
            run.mismatch(case, f"{what}: {impl}", f"{what}: {model}")
    pending.clear()
    drv.lines = []


def run_all(run, rng, tier, Driver):
    run.extra["awaiting_decision"] = run.extra.get("awaiting_decision", []) + \
        [f"{w['id']} ({w['cls']}): {w['what']}" for w in AWAITING_DECISION]
    drv, pending = Driver(), []
    for _ in range(1500 if tier == "quick" else 15000):
        text_case(run, drv, pending, gen_text_case(rng))
        if len(pending) >= 3000:
            flush(run, drv, pending)
    flush(run, drv, pending)


def replay(run, case, Driver):
    drv, pending = Driver(), []
    text_case(run, drv, pending, case)
    flush(run, drv, pending)
