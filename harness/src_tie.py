"""Executable source tie: feeds generated inputs to BOTH the real Python function (tree under test) and the Lean definition
generated from its source (`Src.<f>`, driver ops `src_<f>`) and compares: bit-exactly for float64 (Soft64-typed) functions,
to 1e-12 relative for real-layer (RealOps) functions.

This validates the TRUSTED translator (harness/py2lean.py) and prelude (lean/PycsepVerif/PyPrelude.lean): a disagreement is
a harness error of the trusted base (RuntimeError -> exit 2), never a property violation.
"""
import datetime
import math
from fractions import Fraction

from .core import Driver, frac, flist, ilist, next_up, next_down


def _np_rng(rng):
    import numpy
    return numpy.random.default_rng(rng.randrange(2 ** 32))


def _finite(x):
    return x == x and abs(x) != math.inf


# ----------------------------------------------------------------------------- generators
def _grids(rng, n):
    """float64 edge arrays: decimal grids, irregular increasing, single edge, decreasing, tiny / huge"""
    import numpy
    out = []
    for _ in range(n):
        k = rng.random()
        m = rng.choice([1, 2, 3, 5, 8, 13, 40])
        if k < 0.45:
            dec = rng.choice([0, 1, 2, 3])
            start = round(rng.uniform(-400, 400), dec) if rng.random() < 0.8 else round(rng.uniform(-3, 3), dec)
            step = round(rng.uniform(0.01, 30), rng.choice([1, 2, 3])) or 0.1
            g = [start + i * step for i in range(m)]
        elif k < 0.6:
            start, step = rng.uniform(-1e3, 1e3), rng.uniform(1e-3, 50)
            g = list(numpy.linspace(start, start + step * m, m))
        elif k < 0.8:
            g = sorted(rng.uniform(-100, 100) for _ in range(m))
        elif k < 0.9:
            g = [rng.uniform(-10, 10) * 10.0 ** rng.randint(-8, 8) + i * rng.uniform(0.1, 2) * 10.0 ** rng.randint(-3, 3)
                 for i in range(m)]
            g.sort()
        else:
            g = [rng.uniform(-5, 5) for _ in range(m)]      # maybe decreasing -> ValueError
        out.append([float(x) for x in g])
    return out


def _points(rng, g):
    pts = []
    h = (g[1] - g[0]) if len(g) > 1 else 1.0
    for e in g[:6] + g[-3:]:
        pts += [e, next_up(e), next_down(e), next_up(e, 3), next_down(e, 5)]
    top = g[-1] + h
    pts += [top, next_up(top), next_down(top), g[0] - abs(h) * rng.random(), top + abs(h) * rng.uniform(0, 3)]
    pts += [rng.uniform(g[0] - abs(h), top + abs(h)) for _ in range(8)]
    return [float(p) for p in pts if _finite(p)]


# ----------------------------------------------------------------------------- per function
def tie_get_tolerance(rng, n):
    import numpy
    from csep.utils import calc
    xs = [rng.uniform(-1e3, 1e3) * 10.0 ** rng.randint(-20, 20) for _ in range(n)] + [0.0, 1.0, -1.0, 5e-324, 2.0 ** -1022]
    impl = calc._get_tolerance(numpy.asarray(xs, dtype=numpy.float64))
    drv = Driver()
    drv.ask("src_get_tolerance " + flist(xs))
    out = drv.run()[0].split(",")
    bad = [(x, float(a), b) for x, a, b in zip(xs, impl, out) if Fraction(float(a)) != Fraction(b)]
    return len(xs), bad


def tie_bin1d_vec(rng, n):
    import numpy
    from csep.utils import calc
    drv, exp, total = Driver(), [], 0
    for g in _grids(rng, max(4, n // 8)):
        pts = _points(rng, g)
        for rc in (False, True):
            try:
                with numpy.errstate(all="ignore"):
                    r = [int(v) for v in calc.bin1d_vec(numpy.asarray(pts, dtype=numpy.float64),
                                                        numpy.asarray(g, dtype=numpy.float64), right_continuous=rc)]
            except ValueError:
                r = ["ValueError"] * len(pts)
            # outside Soft64's domain (division by zero / non-finite intermediate): skip the grid
            a0 = g[0]
            h = 1.0 if len(g) == 1 else g[1] - g[0]
            if h - abs(a0) * 2.0 ** -52 == 0 or not _finite(h):
                continue
            drv.ask(f"src_bin1d_vec {int(rc)} {flist(g)} {flist(pts)}")
            exp.append((g, rc, pts, r))
            total += len(pts)
    out = drv.run()
    bad = []
    for (g, rc, pts, r), o in zip(exp, out):
        got = o.split(",")
        for p, a, b in zip(pts, r, got):
            if str(a) != b:
                bad.append((dict(bins=g, rc=rc, p=p), a, b))
    return total, bad


def tie_discretize(rng, n):
    """grids of at least two edges (and the empty one); data inside, at the edges +- ulps, outside (CSEPException), empty"""
    import numpy
    from csep.utils import calc
    drv, exp, total = Driver(), [], 0
    for g in _grids(rng, max(6, n // 6)) + [[]]:
        if len(g) == 1:
            continue        # bin_edges[1] raises IndexError: outside the specialisation (indexing is not bounds-checked)
        if g:
            a0, h = g[0], g[1] - g[0]
            if h - abs(a0) * 2.0 ** -52 == 0 or not _finite(h):
                continue
        pts = _points(rng, g) if g else [0.0, 1.0]
        inside = [p for p in pts if g and g[0] <= p < g[-1]] or pts[:2]
        for data in (inside, pts[:6], [], inside[:1]):
            for rc in (False, True):
                try:
                    with numpy.errstate(all="ignore"):
                        r = flist(float(v) for v in calc.discretize(numpy.asarray(data, dtype=numpy.float64),
                                                                   numpy.asarray(g, dtype=numpy.float64), right_continuous=rc))
                except ValueError:
                    r = "ValueError"
                except IndexError:
                    r = "IndexError"
                except Exception:
                    r = "Exception"
                drv.ask(f"src_discretize {int(rc)} {flist(g)} {flist(data)}")
                exp.append((dict(bins=g, rc=rc, data=data), r))
                total += max(1, len(data))
    out = drv.run()
    bad = [(c, r, o[:80]) for (c, r), o in zip(exp, out) if r != o]
    return total, bad


def tie_compute_vertex(rng, n):
    import numpy
    from csep.core import regions
    drv, exp = Driver(), []
    eps = float(numpy.finfo(float).eps)
    for _ in range(n):
        x, y = round(rng.uniform(-180, 180), rng.choice([0, 1, 2, 6])), round(rng.uniform(-90, 90), rng.choice([0, 1, 2, 6]))
        dh = rng.choice([0.1, 0.05, 0.5, 1.0, 0.025, rng.uniform(1e-3, 3)])
        tol = rng.choice([eps, eps, 0.0, 1e-9])
        r = regions.compute_vertex((numpy.float64(x), numpy.float64(y)), dh, tol)
        exp.append(((x, y, dh, tol), [Fraction(float(v)) for p in r for v in p]))
        drv.ask(f"src_compute_vertex {frac(x)} {frac(y)} {frac(dh)} {frac(tol)}")
    out = drv.run()
    return len(exp), [(c, r, o) for (c, r), o in zip(exp, out) if r != [Fraction(t) for t in o.split(",")]]


def _region_cases(rng, n):
    """(xs, ys, bbox_mask, idx_map, lons, lats): regular decimal grids with random masks (a stub carrying the four arrays the
    methods read), and real CartesianGrid2D regions built by from_origins (nan of never-written idx_map cells sent as 0)"""
    import numpy
    from csep.core import regions
    out = []
    for k in range(n):
        nx, ny = rng.randint(1, 5), rng.randint(1, 4)
        dh = rng.choice([0.1, 0.5, 1.0, 0.25])
        x0, y0 = round(rng.uniform(-170, 160), 1), round(rng.uniform(-80, 70), 1)
        if k % 3 == 0 and nx * ny > 1:
            origins = [(x0 + i * dh, y0 + j * dh) for j in range(ny) for i in range(nx) if rng.random() < 0.8] or [(x0, y0)]
            reg = regions.CartesianGrid2D.from_origins(numpy.array(origins), dh=dh)
            xs, ys = [float(v) for v in reg.xs], [float(v) for v in reg.ys]
            bbox = [[float(v) for v in row] for row in reg.bbox_mask]
            idm = [[0.0 if v != v else float(v) for v in row] for row in reg.idx_map]
            obj = reg
        else:
            xs = [float(x0 + i * dh) for i in range(nx)]
            ys = [float(y0 + j * dh) for j in range(ny)]
            if rng.random() < 0.1:
                xs = xs[::-1]                          # decreasing edges: bin1d_vec raises ValueError
            bbox = [[float(rng.random() < 0.25) for _ in range(nx)] for _ in range(ny)]
            idm = [[float(rng.randint(0, 50)) for _ in range(nx)] for _ in range(ny)]
            obj = _Obj(xs=numpy.array(xs), ys=numpy.array(ys), bbox_mask=numpy.array(bbox), idx_map=numpy.array(idm))
        m = rng.choice([0, 1, 3, 6])
        inside = rng.random() < 0.6
        lons, lats = [], []
        for _ in range(m):
            e = rng.choice(xs)
            lons.append(rng.choice([e, next_up(e), next_down(e), e + dh * rng.random(),
                                    (min(xs) - dh * rng.random()) if not inside else e + dh / 2, max(xs) + dh * rng.uniform(0.9, 1.2)
                                    if not inside else e]))
            e = rng.choice(ys)
            lats.append(rng.choice([e, next_up(e), e + dh * rng.random(), e + dh / 2,
                                    (max(ys) + dh * rng.uniform(0.9, 1.2)) if not inside else e]))
        out.append((obj, xs, ys, bbox, idm, [float(v) for v in lons], [float(v) for v in lats]))
    return out


def _l2(rows):
    return ";".join(flist(r) for r in rows) if rows else "-"


def _tie_region(rng, n, masked):
    import numpy
    from csep.core import regions
    drv, exp = Driver(), []
    for obj, xs, ys, bbox, idm, lons, lats in _region_cases(rng, max(20, n // 2)):
        a, b = numpy.array(lons, dtype=numpy.float64), numpy.array(lats, dtype=numpy.float64)
        try:
            with numpy.errstate(all="ignore"):
                if masked:
                    r = ",".join(str(int(v)) for v in regions.CartesianGrid2D.get_masked(obj, a, b)) or "-"
                else:
                    r = ilist(regions.CartesianGrid2D.get_index_of(obj, a, b))
        except ValueError:
            r = "ValueError"
        except IndexError:
            r = "IndexError"
        if masked:
            drv.ask(f"src_get_masked {flist(lons)} {flist(lats)} {flist(xs)} {flist(ys)} {_l2(bbox)}")
        else:
            drv.ask(f"src_get_index_of {flist(lons)} {flist(lats)} {flist(xs)} {flist(ys)} {_l2(bbox)} {_l2(idm)}")
        exp.append((dict(xs=xs, ys=ys, bbox=bbox, lons=lons, lats=lats), r))
    out = drv.run()
    bad = [(c, r, o[:80]) for (c, r), o in zip(exp, out) if r != o]
    return sum(max(1, len(c["lons"])) for c, _ in exp), bad


def tie_get_index_of(rng, n):
    return _tie_region(rng, n, False)


def tie_get_masked(rng, n):
    return _tie_region(rng, n, True)


def _num_decimals(x):
    import decimal
    return max(0, -decimal.Decimal(repr(float(x))).as_tuple().exponent)


def tie_cleaner_range(rng, n):
    import numpy
    from csep.utils import calc
    drv, exp = Driver(), []
    for _ in range(max(6, n // 30)):
        dec = rng.choice([0, 1, 2, 3, 4])
        k = rng.random()
        if k < 0.7:
            start = round(rng.uniform(-200, 200), dec)
            h = round(rng.uniform(0.01, 5), rng.choice([1, 2, 3])) or 0.1
        elif k < 0.85:
            start, h = rng.uniform(-50, 50), round(rng.uniform(0.01, 2), 2) or 0.5     # noisy start
        else:
            start, h = round(rng.uniform(0, 10), 1), rng.uniform(0.05, 1.5)               # noisy step: fallback path
        end = start + h * rng.randint(0, 60) + rng.choice([0, 0, h / 2, -h / 3])
        start, end, h = float(start), float(end), float(h)
        try:
            with numpy.errstate(all="ignore"):
                r = [float(v) for v in calc.cleaner_range(start, end, h)]
        except Exception as e:      # e.g. arange length overflow: outside the model
            continue
        if not all(_finite(v) for v in r) or len(r) > 5000:
            continue
        drv.ask(f"src_cleaner_range {frac(start)} {frac(end)} {frac(h)} {_num_decimals(start)} {_num_decimals(h)}")
        exp.append(((start, end, h), r))
    out = drv.run()
    bad = []
    for (c, r), o in zip(exp, out):
        got = [] if o == "-" else [Fraction(x) for x in o.split(",")]
        if got != [Fraction(v) for v in r]:
            bad.append((c, r[:5], o[:80]))
    return sum(max(1, len(r)) for _, r in exp), bad


EPOCH = datetime.datetime(1970, 1, 1)


def _us_of(dt):
    d = dt.replace(tzinfo=None) - EPOCH
    return (d.days * 86400 + d.seconds) * 10 ** 6 + d.microseconds


def _rand_us(rng):
    k = rng.random()
    lo, hi = _us_of(datetime.datetime(1, 1, 1)), _us_of(datetime.datetime(9999, 12, 31, 23, 59, 59, 999999))
    if k < 0.5:
        return rng.randint(_us_of(datetime.datetime(1900, 1, 1)), _us_of(datetime.datetime(2100, 1, 1)))
    if k < 0.7:
        return rng.randint(-10 ** 7, 10 ** 7)
    if k < 0.85:
        return rng.randint(lo, hi) // 1000 * 1000 + rng.choice([0, 1, 999, 500])
    return rng.randint(lo, hi)


def tie_datetime_to_utc_epoch(rng, n):
    from csep.utils import time_utils
    drv, exp = Driver(), []
    tzs = {"naive": None, "utc": datetime.timezone.utc, "other": datetime.timezone(datetime.timedelta(hours=2))}
    for tz, tzinfo in tzs.items():
        uss = [_rand_us(rng) for _ in range(n // 3 + 1)]
        r = []
        for us in uss:
            dt = (EPOCH + datetime.timedelta(microseconds=us)).replace(tzinfo=tzinfo)
            try:
                r.append(str(time_utils.datetime_to_utc_epoch(dt)))
            except ValueError:
                r.append("ValueError")
        drv.ask(f"src_datetime_to_utc_epoch {tz} {ilist(uss)}")
        exp.append((tz, uss, r))
    out = drv.run()
    bad = []
    for (tz, uss, r), o in zip(exp, out):
        bad += [((tz, us), a, b) for us, a, b in zip(uss, r, o.split(",")) if a != b]
    return sum(len(e[1]) for e in exp), bad


def tie_epoch_time_to_utc_datetime(rng, n):
    from csep.utils import time_utils
    mss = []
    lo, hi = _us_of(datetime.datetime(2, 1, 1)) // 1000, _us_of(datetime.datetime(9998, 12, 31)) // 1000
    for _ in range(n):
        k = rng.random()
        mss.append(rng.randint(-4 * 10 ** 12, 4 * 10 ** 12) if k < 0.6 else rng.randint(-10 ** 6, 10 ** 6) if k < 0.75
                   else rng.randint(lo, hi))
    r = [_us_of(time_utils.epoch_time_to_utc_datetime(ms)) for ms in mss]
    drv = Driver()
    drv.ask("src_epoch_time_to_utc_datetime " + ilist(mss))
    out = drv.run()[0].split(",")
    return len(mss), [(ms, a, b) for ms, a, b in zip(mss, r, out) if str(a) != b]


def tie_decimal_year(rng, n):
    from csep.utils import time_utils
    uss = [_rand_us(rng) for _ in range(n)]
    r = [time_utils.decimal_year(EPOCH + datetime.timedelta(microseconds=us)) for us in uss]
    drv = Driver()
    drv.ask("src_decimal_year " + ilist(uss))
    out = drv.run()[0].split(",")
    return len(uss), [(us, a, b) for us, a, b in zip(uss, r, out) if Fraction(a) != Fraction(b)]


# ----------------------------------------------------------------------------- real layer (RealOps at Float)
def _bits(x):
    import struct
    return str(struct.unpack("<Q", struct.pack("<d", float(x)))[0])


def _unbits(s):
    import struct
    return struct.unpack("<d", struct.pack("<Q", int(s)))[0]


def _blist(xs):
    xs = list(xs)
    return ",".join(_bits(x) for x in xs) if xs else "-"


def _close(a, b, tol=1e-12):
    a, b = float(a), float(b)
    if a != a or b != b:
        return a != a and b != b
    if abs(a) == math.inf or abs(b) == math.inf:
        return a == b
    return abs(a - b) <= tol * max(1.0, abs(a), abs(b))


class _patched:
    """replace a scipy distribution method by a synthetic linear function while the real pyCSEP function runs (the same
    function is the opaque parameter of Src.<f> in Drive/Src.lean): tests that every argument is passed through"""

    def __init__(self, obj, name, fn):
        self.obj, self.name, self.fn = obj, name, fn

    def __enter__(self):
        self.obj.__dict__[self.name] = self.fn

    def __exit__(self, *a):
        del self.obj.__dict__[self.name]


def tie_number_test_ndarray(rng, n):
    import scipy.stats
    from csep.core import poisson_evaluations as pe
    drv, exp = Driver(), []
    with _patched(scipy.stats.poisson, "cdf", lambda x, mu: x * 0.25 + mu * 0.5):
        for _ in range(n):
            mu, k, eps = rng.uniform(0.01, 500), rng.randint(0, 600), rng.choice([1e-6, 1e-3, 0.25])
            exp.append(((mu, k, eps), pe._number_test_ndarray(mu, k, epsilon=eps)))
            drv.ask(f"src_number_test_ndarray {_bits(mu)} {k} {_bits(eps)}")
    out = drv.run()
    bad = [(c, r, o) for (c, r), o in zip(exp, out) if not all(_close(a, _unbits(b)) for a, b in zip(r, o.split(",")))]
    return len(exp), bad


def tie_nbd_number_test_ndarray(rng, n):
    import scipy.stats
    from csep.core import binomial_evaluations as be
    drv, exp = Driver(), []
    with _patched(scipy.stats.nbinom, "cdf", lambda x, t, u, loc=0: x * 0.25 + t * 0.5 + u * 0.125):
        for _ in range(n):
            mean, k, eps = rng.uniform(0.01, 500), rng.randint(0, 600), rng.choice([1e-6, 1e-3])
            var = mean * rng.uniform(1.05, 50)
            exp.append(((mean, k, var, eps), be._nbd_number_test_ndarray(mean, k, var, epsilon=eps)))
            drv.ask(f"src_nbd_number_test_ndarray {_bits(mean)} {k} {_bits(var)} {_bits(eps)}")
    out = drv.run()
    bad = [(c, r, o) for (c, r), o in zip(exp, out) if not all(_close(a, _unbits(b)) for a, b in zip(r, o.split(",")))]
    return len(exp), bad


class _Obj:
    """stands for a forecast / catalog argument of the public N-tests: the attributes the wrapper reads"""

    def __init__(self, **kw):
        self.__dict__.update(kw)


def _tie_public_ntest(rng, n, nbd):
    import numpy
    import scipy.stats
    from csep.core import poisson_evaluations as pe, binomial_evaluations as be
    drv, exp = Driver(), []
    patch = _patched(scipy.stats.nbinom, "cdf", lambda x, t, u, loc=0: x * 0.25 + t * 0.5 + u * 0.125) if nbd else \
        _patched(scipy.stats.poisson, "cdf", lambda x, mu: x * 0.25 + mu * 0.5)
    with patch:
        for _ in range(n):
            mu, k = rng.uniform(0.01, 500), rng.randint(0, 600)
            fc = _Obj(event_count=mu, name="f", magnitudes=numpy.array([4.95, 5.05]))
            cat = _Obj(event_count=k, name="c")
            if nbd:
                var = mu * rng.uniform(1.05, 50)
                r = be.negative_binomial_number_test(fc, cat, var)
                drv.ask(f"src_negative_binomial_number_test {_bits(mu)} {k} {_bits(var)}")
            else:
                r = pe.number_test(fc, cat)
                drv.ask(f"src_number_test {_bits(mu)} {k}")
            exp.append(((mu, k), (r.quantile[0], r.quantile[1], r.observed_statistic, r.test_distribution[1])))
    out = drv.run()
    bad = []
    for (c, r), o in zip(exp, out):
        a, b, k, m = o.split(",")
        if not (_close(r[0], _unbits(a)) and _close(r[1], _unbits(b)) and int(k) == r[2] and _close(r[3], _unbits(m))):
            bad.append((c, r, o))
    return len(exp), bad


def tie_number_test(rng, n):
    return _tie_public_ntest(rng, n, False)


def tie_negative_binomial_number_test(rng, n):
    return _tie_public_ntest(rng, n, True)


def tie_t_test_ndarray(rng, n):
    import numpy
    import scipy.stats
    from csep.core import poisson_evaluations as pe
    drv, exp = Driver(), []
    keys = ["t_statistic", "t_critical", "information_gain", "ig_lower", "ig_upper"]
    with _patched(scipy.stats.t, "ppf", lambda q, df: q * 2.0 + df * 0.125):
        for _ in range(n):
            m = rng.randint(2, 7)       # numpy.sum adds fewer than 8 elements left to right, like the model
            ra = [rng.uniform(1e-4, 5.0) for _ in range(m)]
            rb = [rng.uniform(1e-4, 5.0) for _ in range(m)]
            N, na, nb, alpha = float(rng.randint(2, 60)), rng.uniform(0.1, 90), rng.uniform(0.1, 90), rng.choice([0.05, 0.01, 0.1])
            with numpy.errstate(all="ignore"):
                r = pe._t_test_ndarray(numpy.array(ra), numpy.array(rb), N, na, nb, alpha=alpha)
            exp.append(((ra, rb, N, na, nb, alpha), [r[k] for k in keys]))
            drv.ask(f"src_t_test_ndarray {_blist(ra)} {_blist(rb)} {_bits(N)} {_bits(na)} {_bits(nb)} {_bits(alpha)}")
    out = drv.run()
    bad = [(c, r, o) for (c, r), o in zip(exp, out) if not all(_close(a, _unbits(b)) for a, b in zip(r, o.split(",")))]
    return len(exp), bad


def tie_w_test_ndarray(rng, n):
    """paired differences with ties in |d| (values on a coarse grid), zeros (removed), both signs, 0 to 300 entries (the three
    branches of numpy.sum: fewer than 8, blocks of 8, halving above 128), a non-zero median m; `norm.sf` replaced on both sides
    by the same elementary function. z and the probability are compared to 1e-12 (the last three operations are real-layer)."""
    import numpy
    import warnings
    import scipy.stats
    from csep.core import poisson_evaluations as pe
    drv, exp = Driver(), []
    with _patched(scipy.stats.distributions.norm, "sf", lambda z: 1.0 / (1.0 + z)):
        for _ in range(max(20, n // 2)):
            size = rng.choice([0, 1, 2, 5, 7, 8, 9, 16, 17, 40, 127, 128, 129, 130, 200, 300])
            grid = rng.choice([0.5, 0.25, 0.1, 1.0, None])
            m = rng.choice([0.0, 0.0, 0.5, -0.25, 0.1])
            xs = []
            for _k in range(size):
                v = rng.uniform(-4, 4) if grid is None else round(rng.uniform(-4, 4) / grid) * grid
                if rng.random() < 0.08:
                    v = m           # a zero difference
                xs.append(float(v))
            with numpy.errstate(all="ignore"), warnings.catch_warnings():
                warnings.simplefilter("ignore")
                r = pe._w_test_ndarray(numpy.array(xs), m)
            exp.append(((xs, m), [float(r["z_statistic"]), float(r["probability"])]))
            drv.ask(f"src_w_test_ndarray {frac(m)} {flist(xs)}")
    out = drv.run()
    bad = [(c, r, o) for (c, r), o in zip(exp, out) if not all(_close(a, _unbits(b)) for a, b in zip(r, o.split(",")))]
    return len(exp), bad


def tie_paired_t_test(rng, n):
    import numpy
    import scipy.stats
    from csep.core import poisson_evaluations as pe
    drv, exp = Driver(), []
    with _patched(scipy.stats.t, "ppf", lambda q, df: q * 2.0 + df * 0.125):
        for _ in range(n):
            m = rng.randint(2, 7)
            ra = [rng.uniform(1e-4, 5.0) for _ in range(m)]
            rb = [rng.uniform(1e-4, 5.0) for _ in range(m)]
            nobs, na, nb, alpha = rng.randint(2, 60), rng.uniform(0.1, 90), rng.uniform(0.1, 90), rng.choice([0.05, 0.01, 0.1])
            fa = _Obj(target_event_rates=lambda cat, scale=False, r=ra, t=na: (numpy.array(r), t), name="a",
                      magnitudes=numpy.array([4.95]))
            fb = _Obj(target_event_rates=lambda cat, scale=False, r=rb, t=nb: (numpy.array(r), t), name="b")
            with numpy.errstate(all="ignore"):
                r = pe.paired_t_test(fa, fb, _Obj(event_count=nobs, name="c"), alpha=alpha)
            exp.append(((ra, rb, nobs, na, nb, alpha),
                        [r.test_distribution[0], r.test_distribution[1], r.observed_statistic, r.quantile[0], r.quantile[1]]))
            drv.ask(f"src_paired_t_test {_blist(ra)} {_blist(rb)} {nobs} {_bits(na)} {_bits(nb)} {_bits(alpha)}")
    out = drv.run()
    bad = [(c, r, o) for (c, r), o in zip(exp, out) if not all(_close(a, _unbits(b)) for a, b in zip(r, o.split(",")))]
    return len(exp), bad


class _swapped:
    """replace an attribute of a module (or any object) while the real pyCSEP function runs; the previous value is restored"""

    def __init__(self, obj, name, fn):
        self.obj, self.name, self.fn = obj, name, fn

    def __enter__(self):
        self.old = getattr(self.obj, self.name)
        setattr(self.obj, self.name, self.fn)

    def __exit__(self, *a):
        setattr(self.obj, self.name, self.old)


class _NumpyWithLog:
    """stands for the name `numpy` inside poisson_evaluations while w_test runs: everything is numpy's, except `log`"""

    def __init__(self, log):
        self.log = log

    def __getattr__(self, name):
        import numpy
        return getattr(numpy, name)


def tie_w_test_inputs(rng, n):
    """the real w_test with numpy.log replaced by x * 0.25 + 3.0 and _w_test_ndarray replaced by a recorder of its arguments"""
    import numpy
    from csep.core import poisson_evaluations as pe
    drv, exp = Driver(), []
    seen = {}

    def rec(x, m=0):
        seen["x"], seen["m"] = [float(v) for v in x], float(m)
        return {"z_statistic": 0.0, "probability": 1.0}
    with _swapped(pe, "_w_test_ndarray", rec), \
            _swapped(pe, "numpy", _NumpyWithLog(lambda a: numpy.asarray(a) * 0.25 + 3.0)):
        for _ in range(n):
            k = rng.randint(1, 7)
            ra = [rng.uniform(1e-4, 5.0) for _ in range(k)]
            rb = [rng.choice([rng.uniform(1e-4, 5.0), ra[i]]) for i in range(k)]
            n1, n2, nobs = rng.uniform(0.1, 90), rng.uniform(0.1, 90), rng.randint(1, 60)
            fa = _Obj(target_event_rates=lambda cat, scale=False, r=ra: (numpy.array(r), 0.0), name="a", event_count=n1,
                      magnitudes=numpy.array([4.95]))
            fb = _Obj(target_event_rates=lambda cat, scale=False, r=rb: (numpy.array(r), 0.0), name="b", event_count=n2)
            pe.w_test(fa, fb, _Obj(event_count=nobs, name="c"))
            exp.append(((ra, rb, nobs, n1, n2), ([Fraction(v) for v in seen["x"]], Fraction(seen["m"]))))
            drv.ask(f"src_w_test_inputs {flist(ra)} {flist(rb)} {nobs} {frac(n1)} {frac(n2)}")
    out = drv.run()
    bad = []
    for (c, (x, m)), o in zip(exp, out):
        a, b = o.split(";")
        gx = [] if a == "-" else [Fraction(t) for t in a.split(",")]
        if gx != x or Fraction(b) != m:
            bad.append((c, (x[:3], m), o[:80]))
    return len(exp), bad


class _Counts:
    """stands for the catalog argument of matrix_binary_t_test: only `spatial_magnitude_counts()` is read"""

    def __init__(self, a):
        self.a = a

    def spatial_magnitude_counts(self):
        return self.a


def tie_matrix_binary_t_test(rng, n):
    import numpy
    import scipy.stats
    from csep.core import binomial_evaluations as be
    drv, exp = Driver(), []
    keys = ["t_statistic", "t_critical", "information_gain", "ig_lower", "ig_upper"]
    with _patched(scipy.stats.t, "ppf", lambda q, df: q * 2.0 + df * 0.125):
        for _ in range(n):
            shape = (rng.randint(1, 4), rng.randint(1, 3))
            cnt = [rng.choice([0, 0, 1, 2]) for _ in range(shape[0] * shape[1])]
            if sum(1 for c in cnt if c) < 2:
                cnt[0], cnt[-1] = 1, 3
            m = sum(1 for c in cnt if c)
            if m > 7:       # numpy.sum adds fewer than 8 elements left to right, like the model
                continue
            ra = [rng.uniform(1e-4, 5.0) for _ in range(m)]
            rb = [rng.uniform(1e-4, 5.0) for _ in range(m)]
            nobs, na, nb, alpha = float(sum(cnt)), rng.uniform(0.1, 90), rng.uniform(0.1, 90), rng.choice([0.05, 0.01, 0.1])
            with numpy.errstate(all="ignore"):
                r = be.matrix_binary_t_test(numpy.array(ra), numpy.array(rb), nobs, na, nb,
                                            _Counts(numpy.array(cnt).reshape(shape)), alpha=alpha)
            exp.append(((ra, rb, nobs, na, nb, alpha, cnt), [r[k] for k in keys]))
            drv.ask(f"src_matrix_binary_t_test {_blist(ra)} {_blist(rb)} {_bits(nobs)} {_bits(na)} {_bits(nb)} {_bits(alpha)} "
                    f"{ilist(cnt)}")
    out = drv.run()
    bad = [(c, r, o) for (c, r), o in zip(exp, out) if not all(_close(a, _unbits(b)) for a, b in zip(r, o.split(",")))]
    return len(exp), bad


def tie_binary_paired_t_test(rng, n):
    import numpy
    import scipy.stats
    from csep.core import binomial_evaluations as be
    drv, exp = Driver(), []
    with _patched(scipy.stats.t, "ppf", lambda q, df: q * 2.0 + df * 0.125):
        for _ in range(n):
            shape = (rng.randint(1, 4), rng.randint(1, 3))
            size = shape[0] * shape[1]
            cnt = [rng.choice([0, 0, 1, 2]) for _ in range(size)]
            if sum(1 for c in cnt if c) < 2:
                cnt[0], cnt[-1] = 1, 3
            if sum(1 for c in cnt if c) > 7:
                continue
            d1 = [rng.uniform(1e-4, 5.0) for _ in range(size)]
            d2 = [rng.uniform(1e-4, 5.0) for _ in range(size)]
            na, nb, alpha = rng.uniform(0.1, 90), rng.uniform(0.1, 90), rng.choice([0.05, 0.01, 0.1])
            fa = _Obj(target_event_rates=lambda cat, scale=False, t=na: (numpy.array([1.0]), t), name="a",
                      magnitudes=numpy.array([4.95]), data=numpy.array(d1).reshape(shape))
            fb = _Obj(target_event_rates=lambda cat, scale=False, t=nb: (numpy.array([1.0]), t), name="b",
                      data=numpy.array(d2).reshape(shape))
            cat = _Obj(event_count=sum(cnt), name="c", spatial_magnitude_counts=lambda a=numpy.array(cnt).reshape(shape): a)
            with numpy.errstate(all="ignore"):
                r = be.binary_paired_t_test(fa, fb, cat, alpha=alpha)
            exp.append(((d1, d2, cnt, na, nb, alpha),
                        [r.test_distribution[0], r.test_distribution[1], r.observed_statistic, r.quantile[0], r.quantile[1]]))
            drv.ask(f"src_binary_paired_t_test {_blist(d1)} {_blist(d2)} {sum(cnt)} {_bits(na)} {_bits(nb)} {_bits(alpha)} "
                    f"{ilist(cnt)}")
    out = drv.run()
    bad = [(c, r, o) for (c, r), o in zip(exp, out) if not all(_close(a, _unbits(b)) for a, b in zip(r, o.split(",")))]
    return len(exp), bad


def tie_brier_score_ndarray(rng, n):
    import numpy
    from csep.core import brier_evaluations as br
    drv, exp = Driver(), []
    for _ in range(n):
        shape = rng.choice([(rng.randint(1, 7),), (rng.randint(1, 3), rng.randint(1, 2)), (1, rng.randint(1, 7))])
        size = int(numpy.prod(shape))
        fc = [rng.choice([0.0, rng.uniform(0, 3), rng.uniform(0, 1e-3), rng.uniform(0, 40)]) for _ in range(size)]
        ob = [rng.choice([0, 0, 1, 2, 5]) for _ in range(size)]
        r = br._brier_score_ndarray(numpy.array(fc).reshape(shape), numpy.array(ob).reshape(shape))
        exp.append(((fc, ob, shape), float(r)))
        drv.ask(f"src_brier_score_ndarray {_blist(fc)} {ilist(ob)} {ilist(shape)}")
    out = drv.run()
    bad = [(c, r, _unbits(o)) for (c, r), o in zip(exp, out) if not _close(r, _unbits(o))]
    return len(exp), bad


def tie_binary_joint_log_likelihood_ndarray(rng, n):
    """rates include 0, negative (masked slots), below 2^-53 (log-domain mask) and ordinary ones; active and empty bins"""
    import numpy
    from csep.core import binomial_evaluations as be
    drv, exp = Driver(), []
    for _ in range(n):
        m = rng.randint(1, 7)       # builtin sum adds left to right, like the model
        fc = [rng.choice([0.0, -rng.uniform(0, 2), rng.uniform(0, 1e-17), rng.uniform(1e-9, 1e-3), rng.uniform(0.01, 5),
                          rng.uniform(5, 60)]) for _ in range(m)]
        ob = [rng.choice([0, 0, 1, 3]) for _ in range(m)]
        with numpy.errstate(all="ignore"):
            r = float(be.binary_joint_log_likelihood_ndarray(numpy.array(fc), numpy.array(ob, dtype=numpy.int64)))
        exp.append(((fc, ob), r))
        drv.ask(f"src_binary_joint_log_likelihood_ndarray {_blist(fc)} {ilist(ob)}")
    out = drv.run()

    def ok(c, r, v):
        # log(1 - exp(-x)) amplifies a last-bit difference between libm's and numpy's exp by ~ 1/x in every active cell
        extra = sum(1e-15 / x for x, w in zip(*c) if w and x > 2.0 ** -52)
        return _close(r, v) or abs(r - v) <= extra
    bad = [(c, r, _unbits(o)) for (c, r), o in zip(exp, out) if not ok(c, r, _unbits(o))]
    return len(exp), bad


def tie_cumulative_square_diff(rng, n):
    import numpy
    from csep.utils import stats
    drv, exp = Driver(), []
    for _ in range(n):
        m = rng.randint(0, 7)       # numpy.sum adds fewer than 8 elements left to right, like the model
        a = [rng.uniform(-2, 40) for _ in range(m)]
        b = [rng.uniform(-2, 40) for _ in range(m)]
        exp.append(((a, b), float(stats.cumulative_square_diff(numpy.array(a), numpy.array(b)))))
        drv.ask(f"src_cumulative_square_diff {_blist(a)} {_blist(b)}")
    out = drv.run()
    return len(exp), [(c, r, _unbits(o)) for (c, r), o in zip(exp, out) if not _close(r, _unbits(o))]


def _tie_spatial_map(rng, n, name):
    """per-cell maps: positive rates (a cell of rate 0 gives nan / -inf in numpy: `0 * log 0`; not in the generator), counts
    with empty and occupied cells"""
    import numpy
    from csep.core import poisson_evaluations as pe
    f = getattr(pe, name)
    drv, exp = Driver(), []
    for _ in range(n):
        m = rng.randint(1, 8)
        sc = [rng.choice([rng.uniform(1e-6, 1e-2), rng.uniform(0.01, 30)]) for _ in range(m)]
        cnt = [rng.choice([0, 0, 1, 2, 5]) for _ in range(m)]
        if sum(cnt) == 0:
            cnt[0] = 1
        nfore = rng.uniform(0.5, 60)
        fc = _Obj(event_count=nfore, spatial_counts=lambda a=numpy.array(sc): a)
        cat = _Obj(event_count=sum(cnt), spatial_counts=lambda a=numpy.array(cnt, dtype=numpy.int64): a)
        with numpy.errstate(all="ignore"):
            r = [float(v) for v in f(fc, cat)]
        exp.append(((sc, cnt, nfore), r))
        drv.ask(f"src_{name} {sum(cnt)} {_bits(nfore)} {_blist(sc)} {ilist(cnt)}")
    out = drv.run()

    def cell_ok(a, b, x, w):
        # log(1 - exp(-x)) amplifies a last-bit difference between libm's and numpy's exp by exp(-x)/(1 - exp(-x)) ~ 1/x
        extra = 1e-15 / x if (w and name.startswith("binary") and x > 0) else 0.0
        return _close(a, b) or abs(a - b) <= extra
    bad = []
    for ((sc, cnt, nfore), r), o in zip(exp, out):
        got = o.split(",")
        scale = sum(cnt) / nfore
        if len(r) != len(got) or not all(cell_ok(a, _unbits(b), x * scale, w) for a, b, x, w in zip(r, got, sc, cnt)):
            bad.append(((sc, cnt, nfore), r, o[:60]))
    return sum(len(r) for _, r in exp), bad


def tie_binary_spatial_likelihood(rng, n):
    return _tie_spatial_map(rng, n, "binary_spatial_likelihood")


def tie_poisson_spatial_likelihood(rng, n):
    return _tie_spatial_map(rng, n, "poisson_spatial_likelihood")


def tie_compute_likelihood(rng, n):
    """counts with and without events, rates with zeros under events (-inf), n_obs / expected count zero (nan)"""
    import numpy
    from csep.utils import calc
    drv, exp = Driver(), []
    for _ in range(n):
        m = rng.randint(1, 7)
        g = [rng.choice([0, 0, 0, 1, 2, 5]) for _ in range(m)] if rng.random() < 0.9 else [0] * m
        r = [rng.choice([0.0, rng.uniform(1e-6, 1e-2), rng.uniform(0.01, 30)]) if rng.random() < 0.3 else rng.uniform(1e-4, 9)
             for _ in range(m)]
        ecc = rng.choice([0.0, rng.uniform(0.01, 50)])
        nobs = rng.choice([0, sum(g), sum(g) + 1])
        with numpy.errstate(all="ignore"):
            a, b = calc._compute_likelihood(numpy.array(g, dtype=numpy.int64), numpy.array(r), ecc, nobs)
        exp.append(((g, r, ecc, nobs), (float(a), float(b))))
        drv.ask(f"src_compute_likelihood {ilist(g)} {_blist(r)} {_bits(ecc)} {nobs}")
    out = drv.run()

    def same(x, o):
        if o == "nan":
            return x != x
        if o == "ninf":
            return x == -math.inf
        return _close(x, _unbits(o))
    bad = [(c, r, o) for (c, r), o in zip(exp, out) if not all(same(x, t) for x, t in zip(r, o.split(",")))]
    return len(exp), bad


def tie_geographical_area_from_bounds(rng, n):
    """cell bounds in degrees: ordinary cells, degenerate ones (equal longitudes / latitudes), polar and wide cells"""
    import numpy
    from csep.core import regions
    drv, exp = Driver(), []
    for _ in range(n):
        lon1, lat1 = rng.uniform(-180, 179), rng.uniform(-89, 88)
        lon2 = lon1 if rng.random() < 0.1 else lon1 + rng.choice([0.1, 0.05, 1.0, rng.uniform(1e-3, 40)])
        lat2 = lat1 if rng.random() < 0.1 else min(90.0, lat1 + rng.choice([0.1, 0.05, 1.0, rng.uniform(1e-3, 40)]))
        with numpy.errstate(all="ignore"):
            r = float(regions.geographical_area_from_bounds(lon1, lat1, lon2, lat2))
        exp.append(((lon1, lat1, lon2, lat2), r))
        drv.ask(f"src_geographical_area_from_bounds {_bits(lon1)} {_bits(lat1)} {_bits(lon2)} {_bits(lat2)}")
    out = drv.run()
    # 1e-12 relative to the two cap areas that are subtracted (2 pi R^2 (1 - cos) dlon/360): the cancellation amplifies a
    # last-bit difference between libm's and numpy's cosine relative to the (possibly tiny) result itself
    def ok(c, r, v):
        scale = 2 * math.pi * 6371.0 ** 2 * abs(c[2] - c[0]) / 360.0
        return _close(r, v) or abs(r - v) <= 1e-12 * scale
    bad = [(c, r, _unbits(o)) for (c, r), o in zip(exp, out) if not ok(c, r, _unbits(o))]
    return len(exp), bad


def tie_poisson_joint_log_likelihood_ndarray(rng, n):
    import numpy
    from csep.utils import stats
    drv, exp = Driver(), []
    for _ in range(n):
        m = rng.randint(0, 7)
        cnt = [rng.randint(1, 6) for _ in range(m)]
        with numpy.errstate(all="ignore"):
            logs = [float(numpy.log(numpy.float64(rng.choice([0.0, rng.uniform(1e-6, 30)]))) * c) for c in cnt]
        nf = rng.uniform(0, 100)
        with numpy.errstate(all="ignore"):
            r = float(stats.poisson_joint_log_likelihood_ndarray(numpy.array(logs), numpy.array(cnt, dtype=numpy.int64), nf))
        exp.append(((logs, cnt, nf), r))
        drv.ask(f"src_poisson_joint_log_likelihood_ndarray {_blist(logs)} {ilist(cnt)} {_bits(nf)}")
    out = drv.run()
    bad = [(c, r, o) for (c, r), o in zip(exp, out)
           if not ((o == "ninf" and r == -math.inf) or (o != "ninf" and _close(r, _unbits(o))))]
    return len(exp), bad


def tie_poisson_likelihood_stat(rng, n):
    import numpy
    from csep.core import poisson_evaluations as pe
    drv, exp = Driver(), []
    for _ in range(n):
        m = rng.randint(1, 7)
        fc = [rng.choice([rng.uniform(1e-6, 5), rng.uniform(0.1, 40), 0.0 if rng.random() < 0.3 else rng.uniform(0, 1)])
              for _ in range(m)]
        ob = [rng.choice([0, 0, 0, 1, 2, 4]) for _ in range(m)]
        if sum(ob) == 0:
            ob[rng.randrange(m)] = 1
        if sum(fc) == 0:
            fc[0] = 1.0
        uoc, nl = rng.random() < 0.6, rng.random() < 0.5
        with numpy.errstate(all="ignore"):
            _, r, _ = pe._poisson_likelihood_test(numpy.array(fc), numpy.array(ob, dtype=numpy.int64), num_simulations=1, seed=1,
                                                  use_observed_counts=uoc, verbose=False, normalize_likelihood=nl)
        exp.append(((fc, ob, uoc, nl), float(r)))
        drv.ask(f"src_poisson_likelihood_stat {_blist(fc)} {ilist(ob)} {int(uoc)} {int(nl)}")
    out = drv.run()
    bad = [(c, r, o) for (c, r), o in zip(exp, out)
           if not ((o == "ninf" and r == -math.inf) or (o != "ninf" and _close(r, _unbits(o))))]
    return len(exp), bad


# ----------------------------------------------------------------------------- C09: ecdf family (float64, bit-exact)
def _samples(rng, n):
    """float64 samples: empty, single, ties, integer-valued (counts), decimals, wide magnitudes; with queries at the sample
    values, one ulp around them, outside both ends and in between"""
    out = []
    for _ in range(n):
        k = rng.random()
        m = rng.choice([0, 1, 1, 2, 3, 5, 8, 13, 30])
        if k < 0.35:
            xs = [float(rng.randint(0, 12)) for _ in range(m)]
        elif k < 0.6:
            xs = [round(rng.uniform(-5, 5), rng.choice([0, 1, 2])) for _ in range(m)]
        elif k < 0.85:
            xs = [rng.uniform(-100, 100) for _ in range(m)]
        else:
            xs = [rng.uniform(-9, 9) * 10.0 ** rng.randint(-12, 12) for _ in range(m)]
        vs = []
        for x in (xs[:4] + xs[-2:]):
            vs += [x, next_up(x), next_down(x)]
        lo, hi = (min(xs), max(xs)) if xs else (0.0, 1.0)
        vs += [lo - 1.0, hi + 1.0, rng.uniform(lo - 1, hi + 1), rng.uniform(lo - 1, hi + 1), 0.0]
        out.append(([float(x) for x in xs], [float(v) for v in vs if _finite(v)]))
    return out


def _optf(v):
    return "none" if v is None else str(Fraction(float(v)))


def _optr(s):
    return "none" if s == "none" else str(Fraction(s))


def tie_ecdf(rng, n):
    import numpy
    from csep.utils import stats
    drv, exp = Driver(), []
    for xs, _ in _samples(rng, max(8, n // 8)):
        if not xs:
            continue        # len(x) == 0: numpy divides by float(0) (empty result, RuntimeWarning); not in the model
        a, b = stats.ecdf(numpy.asarray(xs, dtype=numpy.float64))
        exp.append((xs, [Fraction(float(v)) for v in a], [Fraction(float(v)) for v in b]))
        drv.ask("src_ecdf " + flist(xs))
    out = drv.run()
    bad = []
    for (xs, a, b), o in zip(exp, out):
        ga, gb = [[] if part == "-" else [Fraction(t) for t in part.split(",")] for part in o.split(";")]
        if (ga, gb) != (a, b):
            bad.append((xs, (a[:3], b[:3]), o[:80]))
    return sum(len(e[0]) for e in exp), bad


def _tie_quantile(rng, n, name, call):
    import numpy
    drv, exp = Driver(), []
    for xs, vs in _samples(rng, max(8, n // 8)):
        arr = numpy.asarray(xs, dtype=numpy.float64)
        exp.append((xs, vs, [call(arr, numpy.float64(v)) for v in vs]))
        drv.ask(f"src_{name} {flist(xs)} {flist(vs)}")
    out = drv.run()
    bad = []
    for (xs, vs, r), o in zip(exp, out):
        for v, a, b in zip(vs, r, o.split(",")):
            if a != ":".join(_optr(t) for t in b.split(":")):
                bad.append((dict(x=xs, val=v), a, b))
    return sum(len(e[1]) for e in exp), bad


def tie_greater_equal_ecdf(rng, n):
    from csep.utils import stats
    return _tie_quantile(rng, n, "greater_equal_ecdf", lambda x, v: _optf(stats.greater_equal_ecdf(x, v)))


def tie_less_equal_ecdf(rng, n):
    from csep.utils import stats
    return _tie_quantile(rng, n, "less_equal_ecdf", lambda x, v: _optf(stats.less_equal_ecdf(x, v)))


def tie_get_quantiles(rng, n):
    from csep.utils import stats

    def call(x, v):
        a, b = stats.get_quantiles(x, v)
        return _optf(a) + ":" + _optf(b)
    return _tie_quantile(rng, n, "get_quantiles", call)


def _tie_extreme(rng, n, name):
    import numpy
    from csep.utils import stats
    f = getattr(stats, name)
    drv, exp = Driver(), []
    for xs, _ in _samples(rng, max(8, n // 4)):
        exp.append((xs, _optf(f(numpy.asarray(xs, dtype=numpy.float64)))))
        drv.ask(f"src_{name} {flist(xs)}")
    out = drv.run()
    return len(exp), [(xs, a, b) for (xs, a), b in zip(exp, out) if a != _optr(b)]


def tie_min_or_none(rng, n):
    return _tie_extreme(rng, n, "min_or_none")


def tie_max_or_none(rng, n):
    return _tie_extreme(rng, n, "max_or_none")


def tie_sup_dist(rng, n):
    """two arrays of one size (cdf values and arbitrary floats); non-empty (numpy.max of an empty array raises)"""
    import numpy
    from csep.utils import stats
    drv, exp = Driver(), []
    for _ in range(max(8, n // 2)):
        m = rng.randint(1, 9)
        a = [rng.choice([rng.random(), k / m, rng.uniform(-3, 3)]) for k in range(m)]
        b = [rng.choice([rng.random(), (k + 1) / m, x]) for k, x in enumerate(a)]
        exp.append(((a, b), Fraction(float(stats.sup_dist(numpy.array(a, dtype=numpy.float64), numpy.array(b, dtype=numpy.float64))))))
        drv.ask(f"src_sup_dist {flist(a)} {flist(b)}")
    out = drv.run()
    return len(exp), [(c, r, o) for (c, r), o in zip(exp, out) if r != Fraction(o)]


def tie_sup_dist_na(rng, n):
    import numpy
    from csep.utils import stats
    drv, exp = Driver(), []
    ss = [xs for xs, _ in _samples(rng, max(16, n // 2)) if xs]
    for a, b in zip(ss[::2], ss[1::2]):
        if rng.random() < 0.3:
            b = b + a[:2]                   # shared values: ties between the samples
        with numpy.errstate(all="ignore"):
            r = Fraction(float(stats.sup_dist_na(a, b)))
        exp.append(((a, b), r))
        drv.ask(f"src_sup_dist_na {flist(a)} {flist(b)}")
    out = drv.run()
    return sum(len(a) + len(b) for (a, b), _ in exp), [(c, r, o) for (c, r), o in zip(exp, out) if r != Fraction(o)]


# ----------------------------------------------------------------------------- C18: EvaluationResult as value trees (object layer)
ER_FIELDS = ("test_distribution", "name", "observed_statistic", "quantile", "status", "obs_catalog_repr", "sim_name", "obs_name",
             "min_mw")


def _er_values(rng):
    """field values as harness/c18_tree.py generates them (trees with dicts, lists, tuples, numpy scalars, foreign objects);
    test_distribution: numpy arrays of every dtype / shape, dicts, lists, tuples, scalars, None"""
    from . import c18_tree as t
    allow_unsafe = rng.random() < 0.45
    vals = {f: t.gen_tree(rng, 2, allow_unsafe) for f in ER_FIELDS}
    k = rng.random()
    if k < 0.5:
        vals["test_distribution"] = t.gen_td_dtype(rng, allow_unsafe)
    elif k < 0.65:
        vals["test_distribution"] = t.gen_dict(rng, 1, False)
    elif k < 0.85:
        v = t.gen_tree(rng, 2, allow_unsafe)
        vals["test_distribution"] = v if isinstance(v, (list, tuple, dict)) else [v]
    else:
        vals["test_distribution"] = rng.choice([None, 2.5, 3, "abc", ()])
    return vals


def _exc_name(e):
    return type(e).__name__ if type(e).__name__ in ("KeyError", "TypeError", "AttributeError", "ValueError") else "Exception"


def tie_er_init(rng, n):
    import csep.models as M
    from . import c18_tree as t
    drv, exp = Driver(), []
    for _ in range(n // 2):
        vals = _er_values(rng)
        r = M.EvaluationResult(**vals)
        enc = lambda f, v: t.encs(v, td=(f == "test_distribution"), canon=True)
        exp.append((vals, ";".join(enc(f, getattr(r, f)) for f in ER_FIELDS)))
        drv.ask("src_er_init " + ";".join(t.encs(vals[f], td=(f == "test_distribution")) for f in ER_FIELDS))
    out = drv.run()
    return len(exp), [(str(c)[:200], r[:120], o[:120]) for (c, r), o in zip(exp, out) if r != o]


def tie_er_to_dict(rng, n):
    import csep.models as M
    from . import c18, c18_tree as t
    drv, exp = Driver(), []
    for _ in range(n):
        vals = _er_values(rng)
        td_ = vals["test_distribution"]
        if isinstance(td_, dict) and any(t.key_tok(k_).startswith("kx") for k_ in td_):
            continue            # list(d) of keys that have no kind in the value model (numpy / tuple / bytes keys)
        cls = rng.choice(["EvaluationResult", "CatalogNumberTestResult", "CalibrationTestResult"])
        res = object.__new__(getattr(M, cls))       # the attributes are set here, not by __init__ (which has its own tie)
        res.__dict__.update(vals, named_type=cls)
        try:
            with c18.quiet():
                r = t.encs(res.to_dict(), canon=True)
        except Exception as e:
            r = _exc_name(e)
        exp.append((vals, r))
        drv.ask("src_er_to_dict " + ";".join([t.encs(vals[f], td=(f == "test_distribution")) for f in ER_FIELDS]
                                             + [t.encs(cls)]))
    out = drv.run()
    return len(exp), [(str(c)[:200], r[:120], o[:120]) for (c, r), o in zip(exp, out) if r != o]


def tie_er_from_dict(rng, n):
    """dictionaries written by to_dict, with members removed / renamed, and values that are not dictionaries"""
    import csep.models as M
    from . import c18_tree as t
    drv, exp = Driver(), []
    for _ in range(n):
        vals = {f: t.gen_tree(rng, 2, False) for f in ER_FIELDS}
        d = dict(vals, type="EvaluationResult")
        k = rng.random()
        if k < 0.3:
            for f in rng.sample(ER_FIELDS, rng.randint(1, 3)):
                del d[f]
        elif k < 0.4:
            d = rng.choice([None, [1, 2], (3,), "text", 5, 2.5, True, {}])
        elif k < 0.5:
            d["extra"] = 1
        try:
            r = M.EvaluationResult.from_dict(d)
            res = ";".join(t.encs(getattr(r, f), canon=True) for f in ER_FIELDS)
        except Exception as e:
            res = _exc_name(e)
        exp.append((d, res))
        drv.ask("src_er_from_dict " + t.encs(d))
    out = drv.run()
    return len(exp), [(str(c)[:200], r[:120], o[:120]) for (c, r), o in zip(exp, out) if r != o]


def _region_dict_tie(rng, n, quad):
    import numpy
    from csep.core import regions
    from . import c18, c18_tree as t
    drv, exp = Driver(), []
    for _ in range(max(20, n // 8)):
        name = rng.choice([None, "italy", "", "a b", "µ-region"])
        if quad:
            qk = rng.sample(["0", "1", "20", "21", "22", "23", "300", "31"], rng.randint(1, 5))
            reg = regions.QuadtreeGrid2D.from_quadkeys(qk, name=name)
            dh = 0.0
        else:
            dh = rng.choice([0.1, 0.5, 1.0, 0.25])
            x0, y0 = round(rng.uniform(-170, 160), 1), round(rng.uniform(-80, 70), 1)
            origins = [(x0 + i * dh, y0 + j * dh) for j in range(rng.randint(1, 3)) for i in range(rng.randint(1, 3))]
            reg = regions.CartesianGrid2D.from_origins(numpy.array(origins), dh=dh, name=name)
            dh = float(reg.dh)
        with c18.quiet():
            r = t.encs(reg.to_dict(), canon=True)
        os_ = ",".join(f"{_bits(p.origin[0])}:{_bits(p.origin[1])}" for p in reg.polygons) or "-"
        nm = "N" if reg.name is None else c18.hexs(str(reg.name)) + "."
        exp.append((dict(name=name, n=len(reg.polygons)), r))
        drv.ask(f"src_grid_to_dict {int(quad)} {nm} {_bits(dh)} {os_}")
    out = drv.run()
    return len(exp), [(c, r[:120], o[:120]) for (c, r), o in zip(exp, out) if r != o]


def tie_grid_from_dict(rng, n):
    """dictionaries written by to_dict with members removed, of other kinds, polygons that are not lists of {lon, lat}
    dictionaries, magnitudes present; `from_origins` is replaced by a recorder of its four arguments. Inputs on which the
    generated definition answers `other` (numpy.array of something that is not a float list / float rows) are not compared."""
    import numpy
    from csep.core import regions
    from . import c18, c18_tree as t
    drv, exp = Driver(), []
    odd = [None, 5, 2.5, True, "ab", (1, 2), [1, 2], {}, {"lon": 1.0}]
    rec = classmethod(lambda cls, origins, dh=None, magnitudes=None, name=None: (origins, dh, magnitudes, name))
    orig = regions.CartesianGrid2D.__dict__["from_origins"]
    regions.CartesianGrid2D.from_origins = rec
    try:
        for _ in range(n):
            npoly = rng.choice([0, 1, 1, 2, 3, 4])
            polys = [{"lon": round(rng.uniform(-180, 180), 1), "lat": round(rng.uniform(-90, 90), 1)} for _ in range(npoly)]
            d = {"name": rng.choice(["italy", "", "µ", None]), "dh": rng.choice([0.1, 0.5, 1.0]), "polygons": polys,
                 "class_id": "CartesianGrid2D"}
            k = rng.random()
            if k < 0.25:
                for f in rng.sample(list(d), rng.randint(1, 2)):
                    del d[f]
            elif k < 0.33:
                d = rng.choice(odd)
            elif k < 0.5:
                j = rng.random()
                if j < 0.3:
                    d["polygons"] = rng.choice(odd + [tuple(polys), {"lon": 1.0, "lat": 2.0}])
                elif j < 0.6 and polys:
                    i = rng.randrange(len(polys))
                    polys[i] = rng.choice(odd + [{"lat": 1.0}, {"lon": 2.0}, {"lon": 1, "lat": 2.0}, {"lon": "x", "lat": 2.0},
                                                 {"lon": [1.0], "lat": 2.0}, {"lon": None, "lat": None}])
                elif polys:
                    polys[rng.randrange(len(polys))]["extra"] = 1.0
            elif k < 0.65:
                d["magnitudes"] = rng.choice([[4.95, 5.05], [], None, [1, 2], "x", 5.0, [4.95, None], [[1.0], [2.0]],
                                              [[1.0], [2.0, 3.0]]])
            elif k < 0.75:
                d["dh"] = rng.choice([None, 1, "0.1", [0.1]])
            elif k < 0.8:
                d["name"] = rng.choice([5, ["a"], 1.5])
            try:
                with c18.quiet():
                    o, dh, m, nm = regions.CartesianGrid2D.from_dict(d)
                res = ";".join([t.encs(o, td=True, canon=True), t.encs(dh, canon=True), t.encs(m, td=True, canon=True),
                                t.encs(nm, canon=True)])
            except Exception as e:
                res = _exc_name(e)
            exp.append((d, res))
            drv.ask("src_grid_from_dict " + t.encs(d))
    finally:
        regions.CartesianGrid2D.from_origins = orig
    out = drv.run()
    pairs = [(c, r, o) for (c, r), o in zip(exp, out) if o != "Exception"]
    if len(pairs) < len(exp) // 2:
        return len(exp), [("too many inputs outside the object layer", str(len(exp) - len(pairs)), "")]
    return len(pairs), [(str(c)[:200], r[:120], o[:120]) for c, r, o in pairs if r != o]


def tie_grid_to_dict(rng, n):
    return _region_dict_tie(rng, n, False)


def tie_quad_to_dict(rng, n):
    return _region_dict_tie(rng, n, True)


# ----------------------------------------------------------------------------- C19: record body of zmap_ascii
def tie_zmap_record(rng, n):
    """ZMAP files of a few rows (valid and invalid clock readings, fractional years / seconds that int() truncates, 10 to 14
    columns) read by the real zmap_ascii; every row is one evaluation of the generated record body"""
    import os
    import tempfile
    from csep.utils import readers
    drv, exp = Driver(), []
    tmp = tempfile.mkdtemp(prefix="srctie_c19_")
    for k in range(max(20, n // 4)):
        ncol = rng.choice([10, 13, 14])
        rows = []
        for _ in range(rng.randint(1, 4)):
            y, mo, d = rng.randint(1900, 2100), rng.randint(1, 12), rng.randint(1, 28)
            hh, mi, ss = rng.randint(0, 23), rng.randint(0, 59), rng.randint(0, 59)
            if rng.random() < 0.12:
                mo, d, hh, ss = rng.choice([(13, d, hh, ss), (2, 30, hh, ss), (mo, d, 24, ss), (mo, d, hh, 60), (0, d, hh, ss)])
            row = [round(rng.uniform(-180, 180), 3), round(rng.uniform(-90, 90), 3), y + rng.choice([0.0, 0.37, 0.999]), float(mo),
                   float(d), round(rng.uniform(2, 8), 2), round(rng.uniform(0, 70), 1), float(hh), float(mi),
                   ss + rng.choice([0.0, 0.5, 0.99])] + [0.0] * (ncol - 10)
            rows.append(row)
        path = os.path.join(tmp, f"z{k}.dat")
        with open(path, "w") as fh:
            for r in rows:
                fh.write(" ".join(repr(float(v)) for v in r) + "\n")
        try:
            ev = readers.zmap_ascii(path)
            res = [f"{e[0]}:{int(e[1])}:{frac(float(e[2]))}:{frac(float(e[3]))}:{frac(float(e[4]))}:{frac(float(e[5]))}" for e in ev]
        except ValueError:
            res = None
        os.unlink(path)
        for i, r in enumerate(rows):
            drv.ask(f"src_zmap_record {i} {flist(r)}")
        exp.append((rows, res))
    os.rmdir(tmp)
    out = drv.run()
    bad, pos, total = [], 0, 0
    for rows, res in exp:
        got = out[pos:pos + len(rows)]
        pos += len(rows)
        total += len(rows)
        if res is None:
            if "ValueError" not in got:          # the file raises iff some record raises
                bad.append((rows, "ValueError", got))
        elif got != res:
            bad.append((rows, res, got))
    return total, bad


def tie_reader_parse_datetime(rng, n):
    """the time strings of csep-csv files (with / without fraction), and strings neither format accepts; the nested function
    is reached through a one-line file read by the real csep_ascii"""
    import os
    import tempfile
    from csep.utils import readers
    from csep.core.exceptions import CSEPIOException
    drv, exp = Driver(), []
    tmp = tempfile.mkdtemp(prefix="srctie_c19p_")
    path = os.path.join(tmp, "c.csv")
    for t in _time_strings(rng, max(40, n // 3)):
        t = t.replace(" ", "T", 1)
        if "," in t:
            continue
        with open(path, "w") as fh:
            fh.write(f"1.0,2.0,3.0,{t},5.0,0,e1\n")
        try:
            r = str(int(readers.csep_ascii(path)[0][1]))
        except CSEPIOException:
            r = "Exception"
        exp.append((t, r))
        drv.ask("src_reader_parse_datetime " + _codes(t))
    os.unlink(path)
    os.rmdir(tmp)
    out = drv.run()
    return len(exp), [(c, r, o) for (c, r), o in zip(exp, out) if r != o]


def _csv_cells(rng):
    """the cells of one csep-csv record: float texts the text layer reads (plain, exponent, blanks, sign, underscores) and
    texts that are no numerals, time strings of both formats and broken ones, catalog ids (ints, blank, text), event ids
    (text, empty), 0 to 8 cells"""
    fl = lambda: rng.choice([repr(round(rng.uniform(-180, 180), rng.randint(0, 6))), f"{rng.uniform(-90, 90):.3e}", " 1.5 ", "+2.",
                             ".5", "1_0.25", "-0.0", "7", "1E2", "abc", "", "1.5.2", "1e", "--1", "0x10", "1,5"[:1]])
    ts = rng.choice(_time_strings(rng, 6)).replace(" ", "T", 1)
    if "," in ts or '"' in ts:
        ts = "2020-01-02T03:04:05.5"
    cid = rng.choice(["0", "5", "-3", "", "x", " 7", "+7", "1_0", "12", "3.0"])
    eid = rng.choice(["e1", "", "12", "ci123", "a b", "0"])
    row = [fl(), fl(), fl(), ts, fl(), cid, eid, "extra"]
    return row[:rng.choice([8, 7, 7, 7, 7, 7, 6, 5, 4, 1, 0])]


def _cells_arg(row):
    return "E" if not row else ";".join(_codes(c) for c in row)


def tie_csep_record(rng, n):
    """csep-csv files of a few records read by the real csep_ascii(return_catalog_id=True): every record is one evaluation of
    the generated body, with the first-pass flag the loop would have; the file raises what the first failing record raises"""
    import csv
    import os
    import tempfile
    from csep.utils import readers
    from csep.core.exceptions import CSEPIOException
    drv, exp = Driver(), []
    tmp = tempfile.mkdtemp(prefix="srctie_c19c_")
    path = os.path.join(tmp, "c.csv")
    for _ in range(max(30, n // 3)):
        rows = []
        if rng.random() < 0.5:
            rows.append(["lon", "lat", "mag", "time_string", "depth", "catalog_id", "event_id"][:rng.choice([7, 7, 3, 1])])
        for _k in range(rng.randint(0, 3)):
            r = _csv_cells(rng)
            if rng.random() < 0.85:      # mostly well-formed numbers so that later records are reached
                r = [repr(round(rng.uniform(-99, 99), 3)) if j in (0, 1, 2, 4) and j < len(r) else c for j, c in enumerate(r)]
            rows.append(r)
            if rng.random() < 0.1:
                rows.append(["lon", "lat"])
        with open(path, "w", newline="") as fh:
            csv.writer(fh).writerows(rows)
        rows = [r for r in csv.reader(open(path, newline=""))]       # what the loop sees (an empty record is [])
        try:
            ev, cid = readers.csep_ascii(path, return_catalog_id=True)
            res = ([("R%d" % e[0] if isinstance(e[0], int) else "L" + (_codes(e[0]) if e[0] else "")) +
                    f":{int(e[1])}:{frac(e[2])}:{frac(e[3])}:{frac(e[4])}:{frac(e[5])}" for e in ev], cid)
        except (ValueError, IndexError, CSEPIOException) as e:
            res = type(e).__name__ if not isinstance(e, CSEPIOException) else "Exception"
        exp.append((rows, res))
        for i, r in enumerate(rows):
            for first in (0, 1):
                drv.ask(f"src_csep_record {i} {first} {_cells_arg(r)}")
    os.unlink(path)
    os.rmdir(tmp)
    out = drv.run()
    bad, pos, total = [], 0, 0
    for rows, res in exp:
        first, evs, cid, err = True, [], None, None
        for i, r in enumerate(rows):
            o = out[pos + 2 * i + (1 if first else 0)]
            total += 1
            if o in ("ValueError", "IndexError", "Exception"):
                err = o
                break
            if o == "none":
                continue
            evs.append(o.rsplit(":", 1)[0])
            cid = int(o.rsplit(":", 1)[1])
            first = False
        pos += 2 * len(rows)
        got = err if err is not None else (evs, cid)
        if got != res:
            bad.append((rows, res, got))
    return total, bad


def tie_jma_record(rng, n):
    """JMA csv files (';' separated) of a few records read by the real jma_csv: timestamps with offsets in the three forms the
    text model reads (Z, ±HHMM, ±HH:MM), fractions of one to six digits, non-canonical field widths, invalid clock readings,
    broken texts; float cells as for csep_ascii; 0 to 6 cells; header records first and later"""
    import csv
    import os
    import tempfile
    from csep.utils import readers
    drv, exp = Driver(), []
    tmp = tempfile.mkdtemp(prefix="srctie_c19j_")
    path = os.path.join(tmp, "j.csv")

    def stamp():
        y, mo, d = rng.randint(1900, 2100), rng.randint(1, 12), rng.randint(1, 28)
        hh, mi, ss = rng.randint(0, 23), rng.randint(0, 59), rng.randint(0, 59)
        if rng.random() < 0.1:
            mo, d, hh, ss = rng.choice([(13, d, hh, ss), (2, 30, hh, ss), (mo, d, 24, ss), (mo, d, hh, 60), (0, d, hh, ss), (mo, d, hh, 61)])
        fr = rng.choice(["0", "5", "25", "123", "1234", "12345", "123456", "999999", "000001", "500000"])
        z = rng.choice(["Z", "+0900", "+09:00", "-0330", "-03:30", "+0000", "+2359", "-23:59", "", "+9", "+09", "09:00", "z"])
        w = rng.random() < 0.8
        t = (f"{y:04d}-{mo:02d}-{d:02d}T{hh:02d}:{mi:02d}:{ss:02d}.{fr}{z}" if w else f"{y}-{mo}-{d}T{hh}:{mi}:{ss}.{fr}{z}")
        if rng.random() < 0.06:
            t = rng.choice([t.replace("T", " "), t.replace(".", ""), t[:-1] if t else t, "timestamp", "", t + " ", " " + t])
        return t

    fl = lambda: rng.choice([repr(round(rng.uniform(-180, 180), rng.randint(0, 6))), f"{rng.uniform(-90, 90):.3e}", " 1.5 ", "+2.",
                             ".5", "-0.0", "7", "1E2", "abc", "", "1.5.2"])
    for _ in range(max(30, n // 3)):
        rows = []
        if rng.random() < 0.5:
            rows.append(["timestamp", "longitude", "latitude", "depth", "magnitude"][:rng.choice([5, 5, 2, 1])])
        for _k in range(rng.randint(0, 3)):
            r = [stamp(), fl(), fl(), fl(), fl(), "x"][:rng.choice([6, 5, 5, 5, 5, 4, 2, 1, 0])]
            if rng.random() < 0.8:
                r = [repr(round(rng.uniform(-99, 99), 3)) if 1 <= j <= 4 else c for j, c in enumerate(r)]
            rows.append(r)
            if rng.random() < 0.1:
                rows.append(["timestamp"])
        with open(path, "w", newline="") as fh:
            csv.writer(fh, delimiter=";").writerows(rows)
        rows = [r for r in csv.reader(open(path, newline=""), delimiter=";")]
        try:
            ev = readers.jma_csv(path)
            res = [f"{e[0]}:{int(e[1])}:{frac(e[2])}:{frac(e[3])}:{frac(e[4])}:{frac(e[5])}" for e in ev]
        except (ValueError, IndexError) as e:
            res = type(e).__name__
        exp.append((rows, res))
        for i, r in enumerate(rows):
            for first in (0, 1):
                drv.ask(f"src_jma_record {i} {first} {_cells_arg(r)}")
    os.unlink(path)
    os.rmdir(tmp)
    out = drv.run()
    bad, pos, total = [], 0, 0
    for rows, res in exp:
        first, evs, err = True, [], None
        for i, r in enumerate(rows):
            o = out[pos + 2 * i + (1 if first else 0)]
            total += 1
            if o in ("ValueError", "IndexError", "Exception"):
                err = o
                break
            if o == "none":
                continue
            evs.append(o)
            first = False
        pos += 2 * len(rows)
        got = err if err is not None else evs
        if got != res:
            bad.append((rows, res, got))
    return total, bad


def tie_parse_datetime_to_zmap(rng, n):
    """date / time strings of NDK hypocenter lines: canonical and short field widths, fractions of one to six digits, seconds
    ":60.0" (rewritten, a minute added: carries into the hour, the day, the month, the year), ":60.00" / ":60.5" (not rewritten:
    ValueError -> RuntimeError), invalid calendar dates and clock readings, blanks, broken texts"""
    from csep.utils import readers
    drv, exp = Driver(), []
    for _ in range(max(40, n)):
        y, mo, d = rng.randint(1900, 2100), rng.randint(1, 12), rng.randint(1, 28)
        hh, mi, ss = rng.randint(0, 23), rng.randint(0, 59), rng.randint(0, 59)
        k = rng.random()
        if k < 0.12:
            mo, d, hh, mi = rng.choice([(12, 31, 23, 59), (2, 28, 23, 59), (2, 29, 23, 59), (mo, d, hh, 59), (mo, 30, 23, 59), (1, 31, 23, 59)])
        elif k < 0.22:
            mo, d, hh, ss = rng.choice([(13, d, hh, ss), (2, 30, hh, ss), (mo, d, 24, ss), (mo, d, hh, 61), (0, d, hh, ss), (mo, 0, hh, ss)])
        fr = rng.choice(["0", "5", "25", "123", "1234", "12345", "123456", "00", "9"])
        canon = rng.random() < 0.7
        date = f"{y:04d}/{mo:02d}/{d:02d}" if canon else f"{y}/{mo}/{d}"
        sec = rng.choice(["60.0", "60.0", "60.00", "60.5", "60"]) if rng.random() < 0.25 else (f"{ss:02d}.{fr}" if canon else f"{ss}.{fr}")
        time = (f"{hh:02d}:{mi:02d}:" if canon else f"{hh}:{mi}:") + sec
        j = rng.random()
        if j < 0.05:
            time = " " + time
        elif j < 0.08:
            date, time = rng.choice([(date.replace("/", "-"), time), (date, time.replace(".", "")), ("", time), (date, ""),
                                     (date + " ", time), (date, time + " "), (date, time + "Z")])
        try:
            o = readers._parse_datetime_to_zmap(date, time)
            r = ":".join(str(o[k_]) for k_ in ("year", "month", "day", "hour", "minute", "second"))
        except RuntimeError:
            r = "Exception"
        except (ValueError, OverflowError) as e:
            r = type(e).__name__
        exp.append(((date, time), r))
        drv.ask(f"src_parse_datetime_to_zmap {_codes(date)} {_codes(time)}")
    out = drv.run()
    return len(exp), [(c, r, o) for (c, r), o in zip(exp, out) if r != o]


def tie_csep_is_header(rng, n):
    """`is_header_line` is nested in csep_ascii: reached through one-record files (a header-only file gives no events; an
    empty record raises IndexError; anything else is parsed as a record)"""
    import csv
    import os
    import tempfile
    from csep.utils import readers
    drv, exp = Driver(), []
    tmp = tempfile.mkdtemp(prefix="srctie_c19h_")
    path = os.path.join(tmp, "c.csv")
    good = ["1.0", "2.0", "3.0", "2020-01-02T03:04:05", "5.0", "0", "e"]
    for _ in range(max(20, n // 10)):
        row = rng.choice([["lon"], ["lon", "lat"], [], good, ["lon "] + good[1:], ["Lon"] + good[1:], ["lon"] + good[1:], [""] + good[1:]])
        with open(path, "w", newline="") as fh:
            csv.writer(fh).writerows([row])
        row = [r for r in csv.reader(open(path, newline=""))]
        row = row[0] if row else None
        if row is None:
            continue
        try:
            res = "True" if len(readers.csep_ascii(path)) == 0 else "False"
        except IndexError:
            res = "IndexError"
        except ValueError:
            res = "False"           # not a header: the record was parsed (and failed as a record)
        exp.append((row, res))
        drv.ask("src_csep_is_header " + _cells_arg(row))
    os.unlink(path)
    os.rmdir(tmp)
    out = drv.run()
    return len(exp), [(c, r, o) for (c, r), o in zip(exp, out) if r != o]


def tie_horus_record(rng, n):
    """HORUS files of a few records: ordinary clock readings, second 60.x / minute 60 / hour 24 (the carries), invalid dates"""
    import os
    import tempfile
    from csep.utils import readers
    drv, exp = Driver(), []
    tmp = tempfile.mkdtemp(prefix="srctie_c19h_")
    for k in range(max(20, n // 4)):
        recs = []
        for _ in range(rng.randint(1, 4)):
            y, mo, d = rng.randint(1960, 2030), rng.randint(1, 12), rng.randint(1, 28)
            hh, mi = rng.choice([rng.randint(0, 23), 24]), rng.choice([rng.randint(0, 59), 60])
            sec = rng.choice([round(rng.uniform(0, 59.99), 2), 60.0, round(rng.uniform(60, 60.99), 2), float(rng.randint(0, 59))])
            if rng.random() < 0.08:
                mo, d = rng.choice([(13, d), (2, 30), (0, d)])
            recs.append((y, mo, d, hh, mi, sec, round(rng.uniform(35, 47), 3), round(rng.uniform(6, 19), 3), round(rng.uniform(0, 40), 1),
                         round(rng.uniform(3, 7), 2)))
        path = os.path.join(tmp, f"h{k}.txt")
        with open(path, "w") as fh:
            fh.write("year month day hour minute second lat lon depth Mw\n")
            for r in recs:
                fh.write("\t".join([str(v) for v in r[:5]] + [repr(float(v)) for v in r[5:]]) + "\n")
        try:
            ev = readers.ingv_horus(path)
            res = [f"{_us_of(e[0])}:{int(e[1])}:{frac(float(e[2]))}:{frac(float(e[3]))}:{frac(float(e[4]))}:{frac(float(e[5]))}" for e in ev]
        except ValueError:
            res = None
        os.unlink(path)
        for r in recs:
            drv.ask(f"src_horus_record {ilist(r[:5])} {flist(r[5:])}")
        exp.append((recs, res))
    os.rmdir(tmp)
    out = drv.run()
    bad, pos, total = [], 0, 0
    for recs, res in exp:
        got = out[pos:pos + len(recs)]
        pos += len(recs)
        total += len(recs)
        if res is None:
            if "ValueError" not in got:
                bad.append((recs, "ValueError", got))
        elif got != res:
            bad.append((recs, res, got))
    return total, bad


# ----------------------------------------------------------------------------- C15, round 4
def _codes(t):
    return ",".join(str(ord(c)) for c in t) if t else "-"


def _time_strings(rng, n):
    """canonical time strings (what str(datetime) / pyCSEP write), with and without fraction / offset / 'T', and broken ones"""
    out = []
    for _ in range(n):
        us = rng.randint(_us_of(datetime.datetime(1000, 1, 1)), _us_of(datetime.datetime(9999, 1, 1)))
        dt = EPOCH + datetime.timedelta(microseconds=us)
        k = rng.random()
        t = dt.strftime("%Y-%m-%d %H:%M:%S")
        if k < 0.35:
            digits = rng.randint(1, 6)
            t += "." + ("%06d" % dt.microsecond)[:digits]
        if rng.random() < 0.25:
            t += rng.choice(["+00:00", "+02:00", "-05:30"])
        if rng.random() < 0.08:
            # (strings with one-digit fields, which CPython also accepts, are outside the prelude's strptime: canonical widths)
            t = rng.choice([t + "x", t.replace("-", "/", 1), t.replace(" ", "T"), "2020-13-01 00:00:00", "2021-02-29 10:00:00",
                            t[:10] + " 24:00:00"])
        out.append(t)
    return out


DEFAULT_FMT = "%Y-%m-%d %H:%M:%S.%f"


def tie_parse_string_format(rng, n):
    from csep.utils import time_utils as tu
    drv, exp = Driver(), []
    for t in _time_strings(rng, n):
        if len(t) < 6:
            continue
        exp.append((t, tu.parse_string_format(t).replace(" ", "_")))
        drv.ask("src_parse_string_format " + _codes(t))
    out = drv.run()
    return len(exp), [(c, r, o) for (c, r), o in zip(exp, out) if r != o]


def _tie_strptime(rng, n, epoch):
    from csep.utils import time_utils as tu
    drv, exp = Driver(), []
    fmts = [DEFAULT_FMT] * 5 + ["%Y-%m-%d %H:%M:%S", "%Y-%m-%dT%H:%M:%S", "%Y-%m-%dT%H:%M:%S.%f", "%Y-%m-%d %H:%M:%S%z"]
    for t in _time_strings(rng, n):
        if len(t) < 6:
            continue
        f = rng.choice(fmts)
        if f.startswith("%Y-%m-%dT"):
            t = t.replace(" ", "T", 1)
        try:
            r = tu.strptime_to_utc_epoch(t, f) if epoch else _us_of(tu.strptime_to_utc_datetime(t, f))
            r = str(int(r))
        except ValueError:
            r = "ValueError"
        exp.append(((t, f), r))
        drv.ask(f"src_strptime_to_utc_{'epoch' if epoch else 'datetime'} {_codes(t)} {_codes(f)}")
    out = drv.run()
    return len(exp), [(c, r, o) for (c, r), o in zip(exp, out) if r != o]


def tie_strptime_to_utc_datetime(rng, n):
    return _tie_strptime(rng, n, False)


def tie_strptime_to_utc_epoch(rng, n):
    return _tie_strptime(rng, n, True)


def _td_us(td):
    return (td.days * 86400 + td.seconds) * 10 ** 6 + td.microseconds


def _tie_tu(rng, n, name, gen, call, show, arg):
    drv, exp = Driver(), []
    xs = [gen() for _ in range(n)]
    r = []
    for x in xs:
        try:
            r.append(show(call(x)))
        except ValueError:
            r.append("ValueError")
    drv.ask(f"src_{name} " + arg(xs))
    out = drv.run()[0].split(",")
    return len(xs), [(x, a, b) for x, a, b in zip(xs, r, out) if a != b]


def tie_millis_to_days(rng, n):
    from csep.utils import time_utils as tu
    return _tie_tu(rng, n, "millis_to_days", lambda: rng.choice([rng.randint(-10 ** 13, 10 ** 13), rng.randint(-10 ** 6, 10 ** 6), 86400000 * rng.randint(-99, 99)]),
                   tu.millis_to_days, lambda v: frac(float(v)), ilist)


def tie_days_to_millis_f(rng, n):
    from csep.utils import time_utils as tu
    return _tie_tu(rng, n, "days_to_millis_f", lambda: rng.choice([rng.uniform(0, 4e4), rng.uniform(-5, 5), round(rng.uniform(0, 99), 1)]),
                   tu.days_to_millis, lambda v: frac(float(v)), flist)


def tie_days_to_millis_i(rng, n):
    from csep.utils import time_utils as tu
    return _tie_tu(rng, n, "days_to_millis_i", lambda: rng.randint(-10 ** 6, 10 ** 6), tu.days_to_millis, lambda v: str(int(v)), ilist)


def tie_timedelta_from_years(rng, n):
    from csep.utils import time_utils as tu
    return _tie_tu(rng, n, "timedelta_from_years",
                   lambda: rng.choice([rng.uniform(0, 30), rng.uniform(-1, 1), rng.uniform(0, 1e-6), float(rng.randint(0, 50)), 0.5, 1 / 3]),
                   tu.timedelta_from_years, lambda td: str(_td_us(td)), flist)


def _dec_years(rng):
    return rng.choice([rng.uniform(1900, 2100), rng.uniform(1, 9998), float(rng.randint(1900, 2100)),
                       rng.randint(1900, 2100) + rng.choice([0.5, 0.25, 1 / 3, 0.999999999, 1e-9])])


def tie_decimal_year_to_utc_datetime(rng, n):
    from csep.utils import time_utils as tu
    return _tie_tu(rng, n, "decimal_year_to_utc_datetime", lambda: _dec_years(rng), tu.decimal_year_to_utc_datetime,
                   lambda dt: str(_us_of(dt)), flist)


def tie_decimal_year_to_utc_epoch(rng, n):
    from csep.utils import time_utils as tu
    return _tie_tu(rng, n, "decimal_year_to_utc_epoch", lambda: _dec_years(rng), tu.decimal_year_to_utc_epoch, lambda v: str(int(v)), flist)


# ----------------------------------------------------------------------------- C11: forecast arrays (exact layer)
def _dyadic_rows(rng):
    """an (N, M) array of dyadic rationals k/8 (float64 products and sums of a few of them are exact), N, M >= 1"""
    n, m = rng.randint(1, 5), rng.randint(1, 4)
    return [[rng.randint(0, 400) / 8.0 for _ in range(m)] for _ in range(n)]


def _rows_txt(rows):
    return ";".join(flist(r) for r in rows) if rows else "-"


def _tie_c11_array(rng, n, name):
    import numpy
    from csep.core import forecasts as fc
    drv, exp = Driver(), []
    for _ in range(n):
        rows = _dyadic_rows(rng)
        a = numpy.array(rows, dtype=numpy.float64)
        if name == "gds_data":
            sc = rng.choice([1, 0.5, 2.0, 0.25, 3, rng.randint(0, 40) / 4.0])
            r = fc.GriddedDataSet.data.fget(_Obj(_data=a, _scale=sc))
            exp.append(((rows, sc), _rows_txt([[float(v) for v in row] for row in r])))
            drv.ask(f"src_gds_data {_rows_txt(rows)} {frac(sc)}")
        elif name == "gds_sum":
            exp.append((rows, frac(float(fc.GriddedDataSet.sum(_Obj(data=a))))))
            drv.ask(f"src_gds_sum {_rows_txt(rows)}")
        elif name == "mgds_spatial_counts":
            exp.append((rows, flist(float(v) for v in fc.MarkedGriddedDataSet.spatial_counts(_Obj(data=a)))))
            drv.ask(f"src_mgds_spatial_counts {_rows_txt(rows)}")
        else:
            exp.append((rows, flist(float(v) for v in fc.MarkedGriddedDataSet.magnitude_counts(_Obj(data=a)))))
            drv.ask(f"src_mgds_magnitude_counts {_rows_txt(rows)}")
    out = drv.run()
    return len(exp), [(c, r, o[:80]) for (c, r), o in zip(exp, out) if r != o]


def tie_gds_data(rng, n):
    return _tie_c11_array(rng, n, "gds_data")


def tie_gds_sum(rng, n):
    return _tie_c11_array(rng, n, "gds_sum")


def tie_mgds_spatial_counts(rng, n):
    return _tie_c11_array(rng, n, "mgds_spatial_counts")


def tie_mgds_magnitude_counts(rng, n):
    return _tie_c11_array(rng, n, "mgds_magnitude_counts")


def tie_gds_scale(rng, n):
    from csep.core import forecasts as fc
    drv, exp = Driver(), []
    for _ in range(n // 4):
        v = rng.choice([1, 0.5, rng.uniform(0, 9), rng.randint(0, 7)])
        o = _Obj(_scale=rng.uniform(0, 3))
        r = fc.GriddedDataSet.scale(o, v)
        exp.append((v, frac(float(r._scale)) if r is o else "not-self"))
        drv.ask(f"src_gds_scale {frac(float(v))}")
    out = drv.run()
    return len(exp), [(c, r, o) for (c, r), o in zip(exp, out) if r != o]


def tie_get_magnitude_index(rng, n):
    import numpy
    from csep.core import forecasts as fc
    drv, exp, total = Driver(), [], 0
    for g in _grids(rng, max(6, n // 8)):
        if len(g) > 1:
            a0, h = g[0], g[1] - g[0]
            if h - abs(a0) * 2.0 ** -52 == 0 or not _finite(h):
                continue
        pts = _points(rng, g)
        for mags in (pts, [p for p in pts if p >= g[0]][:8], []):
            try:
                with numpy.errstate(all="ignore"):
                    r = ilist(fc.MarkedGriddedDataSet.get_magnitude_index(
                        _Obj(magnitudes=numpy.array(g, dtype=numpy.float64)), numpy.array(mags, dtype=numpy.float64)))
            except ValueError:
                r = "ValueError"
            exp.append((dict(edges=g, mags=mags), r))
            drv.ask(f"src_get_magnitude_index {flist(mags)} {flist(g)}")
            total += max(1, len(mags))
    out = drv.run()
    return total, [(c, r, o[:80]) for (c, r), o in zip(exp, out) if r != o]


def _tie_get_rates(rng, n, with_data):
    import numpy
    from csep.core import forecasts as fc
    drv, exp = Driver(), []
    for _ in range(n):
        rows, other = _dyadic_rows(rng), None
        N, M = len(rows), len(rows[0])
        k = rng.randint(0, 5)
        lens = rng.choice([(k, k, k), (k, k, k), (k, k + 1, k + 1), (k + 1, k, k), (k, k + 1, k + 2)])
        idx = [rng.randint(-N, N - 1) for _ in range(k)]      # negative indices wrap, as in numpy
        idm = [rng.randint(-M, M - 1) for _ in range(k)]
        o = _Obj(data=numpy.array(rows), get_index_of=lambda a, b, v=idx: numpy.array(v, dtype=numpy.int64),
                 get_magnitude_index=lambda m, v=idm: numpy.array(v, dtype=numpy.int64))
        kw = {}
        if with_data:
            other = [[rng.randint(0, 99) / 4.0 for _ in range(M)] for _ in range(N)]
            kw["data"] = numpy.array(other)
        try:
            r = flist(float(v) for v in fc.GriddedForecast.get_rates(o, [0.0] * lens[0], [0.0] * lens[1], [0.0] * lens[2], **kw))
        except RuntimeError:
            r = "Exception"
        exp.append((dict(rows=rows, other=other, idx=idx, idm=idm, lens=lens), r))
        drv.ask(f"src_get_rates {lens[0]} {lens[1]} {lens[2]} {ilist(idx)} {ilist(idm)} {_rows_txt(rows)} "
                f"{_rows_txt(other) if other else '-'}")
    out = drv.run()
    return len(exp), [(c, r, o[:80]) for (c, r), o in zip(exp, out) if r != o]


def tie_get_rates(rng, n):
    return _tie_get_rates(rng, n, False)


def tie_get_rates_data(rng, n):
    return _tie_get_rates(rng, n, True)


def tie_target_event_rates(rng, n):
    """a stub forecast carrying `data`, the period and the two lookups; dyadic rates and periods of 1, 2, 4, 8 days so that the
    float divisions and sums are exact (the definition is at the exact layer)"""
    import numpy
    from csep.core import forecasts as fc
    from csep.core.catalogs import CSEPCatalog
    drv, exp = Driver(), []
    for _ in range(n):
        rows = _dyadic_rows(rng)
        N, M = len(rows), len(rows[0])
        k = rng.randint(0, 5)
        idx = [rng.randint(0, N - 1) for _ in range(k)]
        idm = [rng.randint(0, M - 1) for _ in range(k)]
        days, scale = rng.choice([1, 2, 4, 8]), rng.random() < 0.5
        st = datetime.datetime(2010, 1, 1)
        cat = CSEPCatalog.__new__(CSEPCatalog)
        cat.get_longitudes = lambda k=k: numpy.zeros(k)
        cat.get_latitudes = lambda k=k: numpy.zeros(k)
        cat.get_magnitudes = lambda k=k: numpy.zeros(k)
        o = _Obj(data=numpy.array(rows), start_time=st, end_time=st + datetime.timedelta(days=days, hours=rng.randint(0, 23)),
                 get_index_of=lambda a, b, v=idx: numpy.array(v, dtype=numpy.int64),
                 get_magnitude_index=lambda m, v=idm: numpy.array(v, dtype=numpy.int64))
        o.get_rates = lambda lons, lats, mags, data=None, o=o: fc.GriddedForecast.get_rates(o, lons, lats, mags, data=data)
        r, tot = fc.GriddedForecast.target_event_rates(o, cat, scale=scale)
        exp.append((dict(rows=rows, idx=idx, idm=idm, days=days, scale=scale), flist(float(v) for v in r) + ";" + frac(float(tot))))
        drv.ask(f"src_target_event_rates {int(scale)} {days} {k} {ilist(idx)} {ilist(idm)} {_rows_txt(rows)}")
    out = drv.run()
    return len(exp), [(c, r, o[:80]) for (c, r), o in zip(exp, out) if r != o]


def tie_load_ascii(rng, n):
    """CSEP1 forecast files on small regular grids (cells x magnitudes in product order, cells possibly listed in a shuffled
    order, flags 0 / 1, both column conventions), loaded by the real load_ascii"""
    import os
    import tempfile
    import numpy
    from csep.core import forecasts as fc
    drv, exp = Driver(), []
    tmp = tempfile.mkdtemp(prefix="srctie_c11_")
    for k in range(max(10, n // 10)):
        nx, ny, nm = rng.randint(1, 3), rng.randint(1, 3), rng.randint(1, 3)
        dh = rng.choice([0.1, 0.5, 1.0])
        x0, y0 = round(rng.uniform(-120, 120), 1), round(rng.uniform(-60, 60), 1)
        cells = [(round(x0 + i * dh, 6), round(x0 + (i + 1) * dh, 6), round(y0 + j * dh, 6), round(y0 + (j + 1) * dh, 6))
                 for i in range(nx) for j in range(ny)]
        rng.shuffle(cells)
        mags = [round(4.95 + 0.1 * m, 2) for m in range(nm)]
        swap = rng.random() < 0.4
        rows = []
        for c in cells:
            flag = float(rng.random() < 0.8)
            for m in mags:
                poly = (c[2], c[3], c[0], c[1]) if swap else c
                rows.append([poly[0], poly[1], poly[2], poly[3], 0.0, 30.0, m, round(m + 0.1, 2), rng.randint(0, 999) / 64.0, flag])
        path = os.path.join(tmp, f"f{k}.dat")
        with open(path, "w") as fh:
            for r in rows:
                fh.write(" ".join(repr(float(v)) for v in r) + "\n")
        f = fc.GriddedForecast.load_ascii(path, swap_latlon=swap)
        bb = ["|".join(f"{frac(float(p[0]))}:{frac(float(p[1]))}" for p in poly.points) for poly in f.region.polygons]
        r = ";".join([",".join(bb) or "-", flist(float(v) for v in f.region.poly_mask), flist(float(v) for v in f.magnitudes),
                      flist(float(v) for v in f.data.ravel())])
        exp.append((dict(rows=rows[:4], swap=swap), r))
        drv.ask(f"src_load_ascii {int(swap)} {_rows_txt(rows)}")
        os.unlink(path)
    os.rmdir(tmp)
    out = drv.run()
    return sum(1 for _ in exp), [(c, r[:120], o[:120]) for (c, r), o in zip(exp, out) if r != o]


def tie_scale_to_test_date(rng, n):
    from csep.core import forecasts as fc
    drv, exp = Driver(), []
    for _ in range(n):
        st = rng.randint(_us_of(datetime.datetime(1950, 1, 1)), _us_of(datetime.datetime(2090, 1, 1)))
        en = st + rng.choice([rng.randint(1, 40) * 86400 * 10 ** 6, rng.randint(10 ** 6, 4 * 10 ** 14)])
        t = rng.choice([rng.randint(st - 10 ** 12, en + 10 ** 12), st, en, st + 1, en - 1, rng.randint(st, en)])
        mk = lambda us: EPOCH + datetime.timedelta(microseconds=us)
        o = _Obj(start_time=mk(st), end_time=mk(en), scale=lambda v: ("scaled", v))
        r = fc.GriddedForecast.scale_to_test_date(o, mk(t))
        exp.append(((t, en, st), "none" if r is o else frac(float(r[1]))))
        drv.ask(f"src_scale_to_test_date {t} {en} {st}")
    out = drv.run()
    return len(exp), [(c, r, o) for (c, r), o in zip(exp, out) if r != o]


TIES = {
    "er_init": tie_er_init,
    "grid_from_dict": tie_grid_from_dict,
    "w_test_ndarray": tie_w_test_ndarray,
    "csep_record": tie_csep_record,
    "jma_record": tie_jma_record,
    "parse_datetime_to_zmap": tie_parse_datetime_to_zmap,
    "csep_is_header": tie_csep_is_header,
    "grid_to_dict": tie_grid_to_dict,
    "quad_to_dict": tie_quad_to_dict,
    "er_to_dict": tie_er_to_dict,
    "er_from_dict": tie_er_from_dict,
    "zmap_record": tie_zmap_record,
    "horus_record": tie_horus_record,
    "reader_parse_datetime": tie_reader_parse_datetime,
    "parse_string_format": tie_parse_string_format,
    "strptime_to_utc_datetime": tie_strptime_to_utc_datetime,
    "strptime_to_utc_epoch": tie_strptime_to_utc_epoch,
    "millis_to_days": tie_millis_to_days,
    "days_to_millis_f": tie_days_to_millis_f,
    "days_to_millis_i": tie_days_to_millis_i,
    "timedelta_from_years": tie_timedelta_from_years,
    "decimal_year_to_utc_datetime": tie_decimal_year_to_utc_datetime,
    "decimal_year_to_utc_epoch": tie_decimal_year_to_utc_epoch,
    "gds_data": tie_gds_data,
    "gds_sum": tie_gds_sum,
    "gds_scale": tie_gds_scale,
    "mgds_spatial_counts": tie_mgds_spatial_counts,
    "mgds_magnitude_counts": tie_mgds_magnitude_counts,
    "get_magnitude_index": tie_get_magnitude_index,
    "get_rates": tie_get_rates,
    "get_rates_data": tie_get_rates_data,
    "scale_to_test_date": tie_scale_to_test_date,
    "target_event_rates": tie_target_event_rates,
    "load_ascii": tie_load_ascii,
    "w_test_inputs": tie_w_test_inputs,
    "binary_spatial_likelihood": tie_binary_spatial_likelihood,
    "poisson_spatial_likelihood": tie_poisson_spatial_likelihood,
    "cumulative_square_diff": tie_cumulative_square_diff,
    "compute_vertex": tie_compute_vertex,
    "min_or_none": tie_min_or_none,
    "max_or_none": tie_max_or_none,
    "sup_dist": tie_sup_dist,
    "sup_dist_na": tie_sup_dist_na,
    "binary_paired_t_test": tie_binary_paired_t_test,
    "paired_t_test": tie_paired_t_test,
    "get_index_of": tie_get_index_of,
    "get_masked": tie_get_masked,
    "discretize": tie_discretize,
    "number_test": tie_number_test,
    "negative_binomial_number_test": tie_negative_binomial_number_test,
    "geographical_area_from_bounds": tie_geographical_area_from_bounds,
    "compute_likelihood": tie_compute_likelihood,
    "matrix_binary_t_test": tie_matrix_binary_t_test,
    "binary_joint_log_likelihood_ndarray": tie_binary_joint_log_likelihood_ndarray,
    "ecdf": tie_ecdf,
    "greater_equal_ecdf": tie_greater_equal_ecdf,
    "less_equal_ecdf": tie_less_equal_ecdf,
    "get_quantiles": tie_get_quantiles,
    "poisson_likelihood_stat": tie_poisson_likelihood_stat,
    "number_test_ndarray": tie_number_test_ndarray,
    "nbd_number_test_ndarray": tie_nbd_number_test_ndarray,
    "t_test_ndarray": tie_t_test_ndarray,
    "brier_score_ndarray": tie_brier_score_ndarray,
    "poisson_joint_log_likelihood_ndarray": tie_poisson_joint_log_likelihood_ndarray,
    "get_tolerance": tie_get_tolerance,
    "bin1d_vec": tie_bin1d_vec,
    "cleaner_range": tie_cleaner_range,
    "datetime_to_utc_epoch": tie_datetime_to_utc_epoch,
    "epoch_time_to_utc_datetime": tie_epoch_time_to_utc_datetime,
    "decimal_year": tie_decimal_year,
}


def run_src_tie(run, rng, tier, prop, functions=None):
    """compare Src.<f> with the real function for every translated function owned by `prop` (or `functions`).
    Records counts in run.extra['src_tie_validated'] and disagreements in run.extra['src_tie_disagreements']; returns the
    disagreements (a lost tie for that function, reported by the caller; never a verdict, never a harness error)."""
    from . import py2lean
    names = functions if functions is not None else [t["lean"] for t in py2lean.TARGETS if t["prop"] == prop]
    n = 400 if tier == "quick" else 4000
    res = {}
    disagreements = []
    for name in names:
        f = TIES.get(name)
        if f is None:
            res[name] = "no executable tie"
            continue
        try:
            total, bad = f(rng, n)
        except Exception as e:   # the real function may raise on a changed tree; that is for the property check to judge
            res[name] = f"executable tie could not run: {e!r}"[:300]
            disagreements.append((name, res[name]))
            continue
        res[name] = total
        if bad:
            # never a verdict and never a harness error: the tie of this function is lost (translator / prelude do not
            # describe what the function does on the tree under test); the correspondence of the hand model decides
            disagreements.append((name, f"generated definition and real function differ on {len(bad)} of {total} inputs, "
                                        f"e.g. {bad[0]}"[:400]))
    run.extra["src_tie_validated"] = res
    if disagreements:
        run.extra["src_tie_disagreements"] = dict(disagreements)
    return disagreements
