"""Executable source tie: feeds generated inputs to BOTH the real Python function (tree under test) and the Lean definition
generated from its source (`Src.<f>`, driver ops `src_<f>`) and compares: bit-exactly for float64 (Soft64-typed) functions,
to 1e-12 relative for real-layer (RealOps) functions.

This validates the TRUSTED translator (harness/py2lean.py) and prelude (lean/PycsepVerif/PyPrelude.lean): a disagreement is
a harness error of the trusted base (RuntimeError -> exit 2), never a property violation.
"""
import datetime
import math
from fractions import Fraction

from .core import Driver, frac, flist, ilist, next_up, next_down


def _np_rng(rng):
    import numpy
    return numpy.random.default_rng(rng.randrange(2 ** 32))


def _finite(x):
    return x == x and abs(x) != math.inf


# ----------------------------------------------------------------------------- generators
def _grids(rng, n):
    """float64 edge arrays: decimal grids, irregular increasing, single edge, decreasing, tiny / huge"""
    import numpy
    out = []
    for _ in range(n):
        k = rng.random()
        m = rng.choice([1, 2, 3, 5, 8, 13, 40])
        if k < 0.45:
            dec = rng.choice([0, 1, 2, 3])
            start = round(rng.uniform(-400, 400), dec) if rng.random() < 0.8 else round(rng.uniform(-3, 3), dec)
            step = round(rng.uniform(0.01, 30), rng.choice([1, 2, 3])) or 0.1
            g = [start + i * step for i in range(m)]
        elif k < 0.6:
            start, step = rng.uniform(-1e3, 1e3), rng.uniform(1e-3, 50)
            g = list(numpy.linspace(start, start + step * m, m))
        elif k < 0.8:
            g = sorted(rng.uniform(-100, 100) for _ in range(m))
        elif k < 0.9:
            g = [rng.uniform(-10, 10) * 10.0 ** rng.randint(-8, 8) + i * rng.uniform(0.1, 2) * 10.0 ** rng.randint(-3, 3)
                 for i in range(m)]
            g.sort()
        else:
            g = [rng.uniform(-5, 5) for _ in range(m)]      # maybe decreasing -> ValueError
        out.append([float(x) for x in g])
    return out


def _points(rng, g):
    pts = []
    h = (g[1] - g[0]) if len(g) > 1 else 1.0
    for e in g[:6] + g[-3:]:
        pts += [e, next_up(e), next_down(e), next_up(e, 3), next_down(e, 5)]
    top = g[-1] + h
    pts += [top, next_up(top), next_down(top), g[0] - abs(h) * rng.random(), top + abs(h) * rng.uniform(0, 3)]
    pts += [rng.uniform(g[0] - abs(h), top + abs(h)) for _ in range(8)]
    return [float(p) for p in pts if _finite(p)]


# ----------------------------------------------------------------------------- per function
def tie_get_tolerance(rng, n):
    import numpy
    from csep.utils import calc
    xs = [rng.uniform(-1e3, 1e3) * 10.0 ** rng.randint(-20, 20) for _ in range(n)] + [0.0, 1.0, -1.0, 5e-324, 2.0 ** -1022]
    impl = calc._get_tolerance(numpy.asarray(xs, dtype=numpy.float64))
    drv = Driver()
    drv.ask("src_get_tolerance " + flist(xs))
    out = drv.run()[0].split(",")
    bad = [(x, float(a), b) for x, a, b in zip(xs, impl, out) if Fraction(float(a)) != Fraction(b)]
    return len(xs), bad


def tie_bin1d_vec(rng, n):
    import numpy
    from csep.utils import calc
    drv, exp, total = Driver(), [], 0
    for g in _grids(rng, max(4, n // 8)):
        pts = _points(rng, g)
        for rc in (False, True):
            try:
                with numpy.errstate(all="ignore"):
                    r = [int(v) for v in calc.bin1d_vec(numpy.asarray(pts, dtype=numpy.float64),
                                                        numpy.asarray(g, dtype=numpy.float64), right_continuous=rc)]
            except ValueError:
                r = ["ValueError"] * len(pts)
            # outside Soft64's domain (division by zero / non-finite intermediate): skip the grid
            a0 = g[0]
            h = 1.0 if len(g) == 1 else g[1] - g[0]
            if h - abs(a0) * 2.0 ** -52 == 0 or not _finite(h):
                continue
            drv.ask(f"src_bin1d_vec {int(rc)} {flist(g)} {flist(pts)}")
            exp.append((g, rc, pts, r))
            total += len(pts)
    out = drv.run()
    bad = []
    for (g, rc, pts, r), o in zip(exp, out):
        got = o.split(",")
        for p, a, b in zip(pts, r, got):
            if str(a) != b:
                bad.append((dict(bins=g, rc=rc, p=p), a, b))
    return total, bad


def _num_decimals(x):
    import decimal
    return max(0, -decimal.Decimal(repr(float(x))).as_tuple().exponent)


def tie_cleaner_range(rng, n):
    import numpy
    from csep.utils import calc
    drv, exp = Driver(), []
    for _ in range(max(6, n // 30)):
        dec = rng.choice([0, 1, 2, 3, 4])
        k = rng.random()
        if k < 0.7:
            start = round(rng.uniform(-200, 200), dec)
            h = round(rng.uniform(0.01, 5), rng.choice([1, 2, 3])) or 0.1
        elif k < 0.85:
            start, h = rng.uniform(-50, 50), round(rng.uniform(0.01, 2), 2) or 0.5     # noisy start
        else:
            start, h = round(rng.uniform(0, 10), 1), rng.uniform(0.05, 1.5)               # noisy step: fallback path
        end = start + h * rng.randint(0, 60) + rng.choice([0, 0, h / 2, -h / 3])
        start, end, h = float(start), float(end), float(h)
        try:
            with numpy.errstate(all="ignore"):
                r = [float(v) for v in calc.cleaner_range(start, end, h)]
        except Exception as e:      # e.g. arange length overflow: outside the model
            continue
        if not all(_finite(v) for v in r) or len(r) > 5000:
            continue
        drv.ask(f"src_cleaner_range {frac(start)} {frac(end)} {frac(h)} {_num_decimals(start)} {_num_decimals(h)}")
        exp.append(((start, end, h), r))
    out = drv.run()
    bad = []
    for (c, r), o in zip(exp, out):
        got = [] if o == "-" else [Fraction(x) for x in o.split(",")]
        if got != [Fraction(v) for v in r]:
            bad.append((c, r[:5], o[:80]))
    return sum(max(1, len(r)) for _, r in exp), bad


EPOCH = datetime.datetime(1970, 1, 1)


def _us_of(dt):
    d = dt.replace(tzinfo=None) - EPOCH
    return (d.days * 86400 + d.seconds) * 10 ** 6 + d.microseconds


def _rand_us(rng):
    k = rng.random()
    lo, hi = _us_of(datetime.datetime(1, 1, 1)), _us_of(datetime.datetime(9999, 12, 31, 23, 59, 59, 999999))
    if k < 0.5:
        return rng.randint(_us_of(datetime.datetime(1900, 1, 1)), _us_of(datetime.datetime(2100, 1, 1)))
    if k < 0.7:
        return rng.randint(-10 ** 7, 10 ** 7)
    if k < 0.85:
        return rng.randint(lo, hi) // 1000 * 1000 + rng.choice([0, 1, 999, 500])
    return rng.randint(lo, hi)


def tie_datetime_to_utc_epoch(rng, n):
    from csep.utils import time_utils
    drv, exp = Driver(), []
    tzs = {"naive": None, "utc": datetime.timezone.utc, "other": datetime.timezone(datetime.timedelta(hours=2))}
    for tz, tzinfo in tzs.items():
        uss = [_rand_us(rng) for _ in range(n // 3 + 1)]
        r = []
        for us in uss:
            dt = (EPOCH + datetime.timedelta(microseconds=us)).replace(tzinfo=tzinfo)
            try:
                r.append(str(time_utils.datetime_to_utc_epoch(dt)))
            except ValueError:
                r.append("ValueError")
        drv.ask(f"src_datetime_to_utc_epoch {tz} {ilist(uss)}")
        exp.append((tz, uss, r))
    out = drv.run()
    bad = []
    for (tz, uss, r), o in zip(exp, out):
        bad += [((tz, us), a, b) for us, a, b in zip(uss, r, o.split(",")) if a != b]
    return sum(len(e[1]) for e in exp), bad


def tie_epoch_time_to_utc_datetime(rng, n):
    from csep.utils import time_utils
    mss = []
    lo, hi = _us_of(datetime.datetime(2, 1, 1)) // 1000, _us_of(datetime.datetime(9998, 12, 31)) // 1000
    for _ in range(n):
        k = rng.random()
        mss.append(rng.randint(-4 * 10 ** 12, 4 * 10 ** 12) if k < 0.6 else rng.randint(-10 ** 6, 10 ** 6) if k < 0.75
                   else rng.randint(lo, hi))
    r = [_us_of(time_utils.epoch_time_to_utc_datetime(ms)) for ms in mss]
    drv = Driver()
    drv.ask("src_epoch_time_to_utc_datetime " + ilist(mss))
    out = drv.run()[0].split(",")
    return len(mss), [(ms, a, b) for ms, a, b in zip(mss, r, out) if str(a) != b]


def tie_decimal_year(rng, n):
    from csep.utils import time_utils
    uss = [_rand_us(rng) for _ in range(n)]
    r = [time_utils.decimal_year(EPOCH + datetime.timedelta(microseconds=us)) for us in uss]
    drv = Driver()
    drv.ask("src_decimal_year " + ilist(uss))
    out = drv.run()[0].split(",")
    return len(uss), [(us, a, b) for us, a, b in zip(uss, r, out) if Fraction(a) != Fraction(b)]


# ----------------------------------------------------------------------------- real layer (RealOps at Float)
def _bits(x):
    import struct
    return str(struct.unpack("<Q", struct.pack("<d", float(x)))[0])


def _unbits(s):
    import struct
    return struct.unpack("<d", struct.pack("<Q", int(s)))[0]


def _blist(xs):
    xs = list(xs)
    return ",".join(_bits(x) for x in xs) if xs else "-"


def _close(a, b, tol=1e-12):
    a, b = float(a), float(b)
    if a != a or b != b:
        return a != a and b != b
    if abs(a) == math.inf or abs(b) == math.inf:
        return a == b
    return abs(a - b) <= tol * max(1.0, abs(a), abs(b))


class _patched:
    """replace a scipy distribution method by a synthetic linear function while the real pyCSEP function runs (the same
    function is the opaque parameter of Src.<f> in Drive/Src.lean): tests that every argument is passed through"""

    def __init__(self, obj, name, fn):
        self.obj, self.name, self.fn = obj, name, fn

    def __enter__(self):
        self.obj.__dict__[self.name] = self.fn

    def __exit__(self, *a):
        del self.obj.__dict__[self.name]


def tie_number_test_ndarray(rng, n):
    import scipy.stats
    from csep.core import poisson_evaluations as pe
    drv, exp = Driver(), []
    with _patched(scipy.stats.poisson, "cdf", lambda x, mu: x * 0.25 + mu * 0.5):
        for _ in range(n):
            mu, k, eps = rng.uniform(0.01, 500), rng.randint(0, 600), rng.choice([1e-6, 1e-3, 0.25])
            exp.append(((mu, k, eps), pe._number_test_ndarray(mu, k, epsilon=eps)))
            drv.ask(f"src_number_test_ndarray {_bits(mu)} {k} {_bits(eps)}")
    out = drv.run()
    bad = [(c, r, o) for (c, r), o in zip(exp, out) if not all(_close(a, _unbits(b)) for a, b in zip(r, o.split(",")))]
    return len(exp), bad


def tie_nbd_number_test_ndarray(rng, n):
    import scipy.stats
    from csep.core import binomial_evaluations as be
    drv, exp = Driver(), []
    with _patched(scipy.stats.nbinom, "cdf", lambda x, t, u, loc=0: x * 0.25 + t * 0.5 + u * 0.125):
        for _ in range(n):
            mean, k, eps = rng.uniform(0.01, 500), rng.randint(0, 600), rng.choice([1e-6, 1e-3])
            var = mean * rng.uniform(1.05, 50)
            exp.append(((mean, k, var, eps), be._nbd_number_test_ndarray(mean, k, var, epsilon=eps)))
            drv.ask(f"src_nbd_number_test_ndarray {_bits(mean)} {k} {_bits(var)} {_bits(eps)}")
    out = drv.run()
    bad = [(c, r, o) for (c, r), o in zip(exp, out) if not all(_close(a, _unbits(b)) for a, b in zip(r, o.split(",")))]
    return len(exp), bad


def tie_t_test_ndarray(rng, n):
    import numpy
    import scipy.stats
    from csep.core import poisson_evaluations as pe
    drv, exp = Driver(), []
    keys = ["t_statistic", "t_critical", "information_gain", "ig_lower", "ig_upper"]
    with _patched(scipy.stats.t, "ppf", lambda q, df: q * 2.0 + df * 0.125):
        for _ in range(n):
            m = rng.randint(2, 7)       # numpy.sum adds fewer than 8 elements left to right, like the model
            ra = [rng.uniform(1e-4, 5.0) for _ in range(m)]
            rb = [rng.uniform(1e-4, 5.0) for _ in range(m)]
            N, na, nb, alpha = float(rng.randint(2, 60)), rng.uniform(0.1, 90), rng.uniform(0.1, 90), rng.choice([0.05, 0.01, 0.1])
            with numpy.errstate(all="ignore"):
                r = pe._t_test_ndarray(numpy.array(ra), numpy.array(rb), N, na, nb, alpha=alpha)
            exp.append(((ra, rb, N, na, nb, alpha), [r[k] for k in keys]))
            drv.ask(f"src_t_test_ndarray {_blist(ra)} {_blist(rb)} {_bits(N)} {_bits(na)} {_bits(nb)} {_bits(alpha)}")
    out = drv.run()
    bad = [(c, r, o) for (c, r), o in zip(exp, out) if not all(_close(a, _unbits(b)) for a, b in zip(r, o.split(",")))]
    return len(exp), bad


def tie_brier_score_ndarray(rng, n):
    import numpy
    from csep.core import brier_evaluations as br
    drv, exp = Driver(), []
    for _ in range(n):
        shape = rng.choice([(rng.randint(1, 7),), (rng.randint(1, 3), rng.randint(1, 2)), (1, rng.randint(1, 7))])
        size = int(numpy.prod(shape))
        fc = [rng.choice([0.0, rng.uniform(0, 3), rng.uniform(0, 1e-3), rng.uniform(0, 40)]) for _ in range(size)]
        ob = [rng.choice([0, 0, 1, 2, 5]) for _ in range(size)]
        r = br._brier_score_ndarray(numpy.array(fc).reshape(shape), numpy.array(ob).reshape(shape))
        exp.append(((fc, ob, shape), float(r)))
        drv.ask(f"src_brier_score_ndarray {_blist(fc)} {ilist(ob)} {ilist(shape)}")
    out = drv.run()
    bad = [(c, r, _unbits(o)) for (c, r), o in zip(exp, out) if not _close(r, _unbits(o))]
    return len(exp), bad


def tie_poisson_joint_log_likelihood_ndarray(rng, n):
    import numpy
    from csep.utils import stats
    drv, exp = Driver(), []
    for _ in range(n):
        m = rng.randint(0, 7)
        cnt = [rng.randint(1, 6) for _ in range(m)]
        with numpy.errstate(all="ignore"):
            logs = [float(numpy.log(numpy.float64(rng.choice([0.0, rng.uniform(1e-6, 30)]))) * c) for c in cnt]
        nf = rng.uniform(0, 100)
        with numpy.errstate(all="ignore"):
            r = float(stats.poisson_joint_log_likelihood_ndarray(numpy.array(logs), numpy.array(cnt, dtype=numpy.int64), nf))
        exp.append(((logs, cnt, nf), r))
        drv.ask(f"src_poisson_joint_log_likelihood_ndarray {_blist(logs)} {ilist(cnt)} {_bits(nf)}")
    out = drv.run()
    bad = [(c, r, o) for (c, r), o in zip(exp, out)
           if not ((o == "ninf" and r == -math.inf) or (o != "ninf" and _close(r, _unbits(o))))]
    return len(exp), bad


def tie_poisson_likelihood_stat(rng, n):
    import numpy
    from csep.core import poisson_evaluations as pe
    drv, exp = Driver(), []
    for _ in range(n):
        m = rng.randint(1, 7)
        fc = [rng.choice([rng.uniform(1e-6, 5), rng.uniform(0.1, 40), 0.0 if rng.random() < 0.3 else rng.uniform(0, 1)])
              for _ in range(m)]
        ob = [rng.choice([0, 0, 0, 1, 2, 4]) for _ in range(m)]
        if sum(ob) == 0:
            ob[rng.randrange(m)] = 1
        if sum(fc) == 0:
            fc[0] = 1.0
        uoc, nl = rng.random() < 0.6, rng.random() < 0.5
        with numpy.errstate(all="ignore"):
            _, r, _ = pe._poisson_likelihood_test(numpy.array(fc), numpy.array(ob, dtype=numpy.int64), num_simulations=1, seed=1,
                                                  use_observed_counts=uoc, verbose=False, normalize_likelihood=nl)
        exp.append(((fc, ob, uoc, nl), float(r)))
        drv.ask(f"src_poisson_likelihood_stat {_blist(fc)} {ilist(ob)} {int(uoc)} {int(nl)}")
    out = drv.run()
    bad = [(c, r, o) for (c, r), o in zip(exp, out)
           if not ((o == "ninf" and r == -math.inf) or (o != "ninf" and _close(r, _unbits(o))))]
    return len(exp), bad


TIES = {
    "poisson_likelihood_stat": tie_poisson_likelihood_stat,
    "number_test_ndarray": tie_number_test_ndarray,
    "nbd_number_test_ndarray": tie_nbd_number_test_ndarray,
    "t_test_ndarray": tie_t_test_ndarray,
    "brier_score_ndarray": tie_brier_score_ndarray,
    "poisson_joint_log_likelihood_ndarray": tie_poisson_joint_log_likelihood_ndarray,
    "get_tolerance": tie_get_tolerance,
    "bin1d_vec": tie_bin1d_vec,
    "cleaner_range": tie_cleaner_range,
    "datetime_to_utc_epoch": tie_datetime_to_utc_epoch,
    "epoch_time_to_utc_datetime": tie_epoch_time_to_utc_datetime,
    "decimal_year": tie_decimal_year,
}


def run_src_tie(run, rng, tier, prop, functions=None):
    """compare Src.<f> with the real function for every translated function owned by `prop` (or `functions`).
    Records counts in run.extra['src_tie_validated'] and disagreements in run.extra['src_tie_disagreements']; returns the
    disagreements (a lost tie for that function, reported by the caller; never a verdict, never a harness error)."""
    from . import py2lean
    names = functions if functions is not None else [t["lean"] for t in py2lean.TARGETS if t["prop"] == prop]
    n = 400 if tier == "quick" else 4000
    res = {}
    disagreements = []
    for name in names:
        f = TIES.get(name)
        if f is None:
            res[name] = "no executable tie"
            continue
        try:
            total, bad = f(rng, n)
        except Exception as e:   # the real function may raise on a changed tree; that is for the property check to judge
            res[name] = f"executable tie could not run: {e!r}"[:300]
            disagreements.append((name, res[name]))
            continue
        res[name] = total
        if bad:
            # never a verdict and never a harness error: the tie of this function is lost (translator / prelude do not
            # describe what the function does on the tree under test); the correspondence of the hand model decides
            disagreements.append((name, f"generated definition and real function differ on {len(bad)} of {total} inputs, "
                                        f"e.g. {bad[0]}"[:400]))
    run.extra["src_tie_validated"] = res
    if disagreements:
        run.extra["src_tie_disagreements"] = dict(disagreements)
    return disagreements
