"""C03 (extension) — the gridding pipelines on EVERY float64 magnitude / coordinate, the documented round-off band below an edge
included, any `tol=`.

Correspondence, bit for bit, with the float-faithful pipelines of Model/GriddingFloat.lean (ops c03_cartf / c03_quadf: lookups by
C02's `Bin1d.bin1dF`), plus a direct oracle on the implementation's output alone: conservation / marginal / occupancy identities and
"every event is counted once, in its exact bin or — only inside the documented band below an edge — the bin that edge opens"
(theorem `Gridding.magBinF_exact_or_band`), decided with the exact band rule of harness/c02.py."""
import bisect
import math
from fractions import Fraction

import numpy


def _qt_bounds(region):
    from .c17 import qt_bounds
    return qt_bounds(region)

from .core import frac
from . import c02
from .c03_seq import _guarded

TOLS = [None, None, None, 1e-9, 1e-12, 1e-6]


def _ulps(x, k):
    for _ in range(abs(k)):
        x = math.nextafter(x, math.inf if k > 0 else -math.inf)
    return x


def gen_float_case(rng, tier):
    from . import c03 as base
    start = rng.choice(["2.5", "3.95", "4.0", "5.95", "0.05", "6.25", "-1.0", "4.95"])
    step = rng.choice(["0.1", "0.05", "0.25", "0.5", "0.2", "1"])
    nb = rng.choice([2, 3, 5, 8, 12, 21, 30])
    how = rng.choice(["library", "plain", "plain"])
    edges = [float(x) for x in base.edges_array(Fraction(start), Fraction(step), nb, how)]
    h = edges[1] - edges[0]
    tol = rng.choice(TOLS)
    quad = rng.random() < 0.35
    if quad:
        zoom = rng.choice([1, 1, 2])
        where = dict(rkind="quad", zoom=zoom)
        nx = ny = 2 ** zoom
    else:
        nx, ny = rng.randint(1, 4), rng.randint(1, 4)
        # also lattices east of the antimeridian / in the 0..360 convention (no wrap-around of longitudes >= 180)
        ax, ay, dh = rng.choice([-120.0, 0.0, 10.5, -0.3, 170.1, 179.5, 200.0, 359.5]), rng.choice([30.0, -5.0, 0.25, -41.7, 0.0]), \
            rng.choice([0.1, 0.5, 1.0, 0.05])
        origins = [[ax + i * dh, ay + j * dh] for i in range(nx) for j in range(ny)]
        if nx * ny > 3 and rng.random() < 0.3:
            origins.pop(rng.randrange(len(origins)))     # a hole
        where = dict(rkind="cart", origins=[[repr(a), repr(b)] for a, b in origins], dh=repr(dh))
    spatial_band = (not quad) and rng.random() < 0.25
    evs = []
    for _ in range(rng.choice([1, 2, 3, 8, 20, 40])):
        k = rng.random()
        j = rng.randrange(len(edges))
        if k < 0.30:
            m = _ulps(edges[j], -rng.choice([1, 1, 2, 3, 5]))          # inside the band below edge j
        elif k < 0.42:
            m = edges[j]
        elif k < 0.52:
            m = _ulps(edges[j], rng.choice([1, 2, 4]))
        elif k < 0.60:
            m = edges[j] - rng.choice([1e-13, 1e-11, 1e-8]) * max(1.0, abs(edges[j]))   # around the band's rim / tol
        elif k < 0.68 and tol:
            m = edges[j] - tol * rng.choice([0.5, 0.999, 1.0, 1.001, 2.0])
        elif k < 0.75:
            m = edges[-1] + rng.choice([h / 2, h, 7.5 * h, 100.0, _ulps(h, -1)])            # open top bin
        elif k < 0.80:
            m = rng.choice([edges[0] - h / 2, edges[0] - 3 * h])                            # clearly below the first edge
        else:
            m = rng.uniform(edges[0], edges[-1] + h)
        if quad:
            lon, lat = rng.choice([-135.0, -45.0, 45.0, 135.0, -180.0, 0.0, 90.0]), rng.choice([40.0, -40.0, 0.0, 70.0, -70.0, 66.51326044311186])
        else:
            o = rng.choice(origins)
            dhf = float(where["dh"])
            lon, lat = o[0] + dhf / 2, o[1] + dhf / 2
            if rng.random() < 0.3:
                lon, lat = o[0], o[1]                                   # the cell's own corner
                # signed zero / subnormal / float32-valued coordinates: -0.0 and 5e-324 belong to the cell whose edge is 0.0
                if lon == 0.0 and rng.random() < 0.5:
                    lon = rng.choice([-0.0, 5e-324])
                if lat == 0.0 and rng.random() < 0.5:
                    lat = rng.choice([-0.0, 5e-324])
            elif rng.random() < 0.1:
                lon, lat = float(numpy.float32(lon)), float(numpy.float32(lat))
                if not (o[0] + dhf * 0.2 < lon < o[0] + dhf * 0.8 and o[1] + dhf * 0.2 < lat < o[1] + dhf * 0.8):
                    lon, lat = o[0] + dhf / 2, o[1] + dhf / 2
            if spatial_band and rng.random() < 0.6:
                lon = _ulps(o[0], -rng.choice([1, 2, 3])) if rng.random() < 0.5 else lon
                lat = _ulps(o[1], -rng.choice([1, 2, 3])) if rng.random() < 0.5 else lat
        evs.append([repr(float(lon)), repr(float(lat)), repr(float(m))])
    return dict(kind="float", edges=[repr(e) for e in edges], tol=None if tol is None else repr(tol),
                mode=rng.choice(["bound", "list", "ndarray"]), spatial_band=spatial_band, events=evs, **where)


def _region_of(case, edges, bound):
    from csep.core.regions import CartesianGrid2D, QuadtreeGrid2D
    mags = numpy.array(edges) if bound else None
    if case["rkind"] == "quad":
        return QuadtreeGrid2D.from_single_resolution(int(case["zoom"]), magnitudes=mags)
    origins = numpy.array([[float(a), float(b)] for a, b in case["origins"]])
    return CartesianGrid2D.from_origins(origins, dh=float(case["dh"]), magnitudes=mags)


def _cum_ok(counts, lo, hi):
    """can `counts` (per bin) arise from events each placed in a bin of [lo_e, hi_e]?  (hi_e - lo_e <= 1, nested intervals:
    the tail sums must lie between the numbers of events that must / may be at or above each bin)"""
    n = len(counts)
    for k in range(n):
        tail = sum(counts[k:])
        if not (sum(1 for v in lo if v >= k) <= tail <= sum(1 for v in hi if v >= k)):
            return False
    return True


@_guarded
def float_case(run, drv, pending, case):
    from . import c03 as base
    from . import c01
    edges = [float(x) for x in case["edges"]]
    tol = None if case.get("tol") is None else float(case["tol"])
    evs = [(float(a), float(b), float(c)) for a, b, c in case["events"]]
    n = len(evs)
    mode = case.get("mode", "ndarray")
    bound = mode == "bound"
    quad = case["rkind"] == "quad"
    region = _region_of(case, edges, bound)
    kw = {} if tol is None else dict(tol=tol)
    if not bound:
        kw["mag_bins"] = list(edges) if mode == "list" else numpy.array(edges)
    sc = base._call(lambda: base._cat(region, evs).spatial_counts())
    sep = base._call(lambda: base._cat(region, evs).spatial_event_probability())
    mc = base._call(lambda: base._cat(region, evs).magnitude_counts(**kw))
    smc = base._call(lambda: base._cat(region, evs).spatial_magnitude_counts(**kw))
    fl = base.impl_filter(region, evs, numpy.array(edges))
    g = c02.Grid(numpy.array(edges), None)
    premise = g.premise("f64", tol)
    allowed = [c02.allowed_exact(g, "f64", tol, True, Fraction(m)) for _, _, m in evs]
    lo, hi = [min(a) for a in allowed], [max(a) for a in allowed]
    inband = sum(1 for a in allowed if len(a) > 1)
    run.case(case if run.evaluations < 3 else None,
             ("float", tuple(case["edges"]), case.get("tol"), tuple(map(tuple, case["events"]))) if inband else None)
    run.count("float:" + ("quad" if quad else "cart") + (":tol" if tol else "") + (":in-band" if inband else ":off-band"))
    if case.get("spatial_band"):
        run.count("float:spatial-band")
    ncell = int(region.num_nodes)
    problems = []
    # ---- identities on the implementation's own output (hold whichever side of an edge the float formula takes)
    if isinstance(smc, list):
        if len(smc) != ncell or any(len(r) != len(edges) for r in smc):
            problems.append(f"space-magnitude array has the wrong shape for a ({ncell}, {len(edges)}) grid")
        else:
            if sum(map(sum, smc)) != n:
                problems.append(f"total of the space-magnitude array {sum(map(sum, smc))} != number of events {n}")
            if isinstance(mc, list) and [sum(r[k] for r in smc) for k in range(len(edges))] != mc:
                problems.append(f"sum over space {[sum(r[k] for r in smc) for k in range(len(edges))]} != magnitude_counts {mc}")
            if isinstance(sc, list) and [sum(r) for r in smc] != sc:
                problems.append("sum over magnitude != spatial_counts")
    if isinstance(sc, list) and isinstance(sep, list) and [1 if v > 0 else 0 for v in sc] != sep:
        problems.append("occupancy map is not 1 exactly where the spatial count is positive")
    if not isinstance(mc, list) or len(mc) != len(edges):
        problems.append(f"magnitude_counts is not a vector of {len(edges)} counts: {str(mc)[:80]}")
    elif premise:
        # ---- every event once, in its exact bin or (inside the documented band only) the bin the next edge opens
        if not _cum_ok(mc, lo, hi):
            problems.append(f"magnitude_counts {mc} cannot arise from counting every event once in a bin the property allows "
                            f"(exact bins {lo}, in-band alternatives {[h for l, h in zip(lo, hi) if h != l]})")
        must_reject = any(h < 0 for h in hi)
        may_reject = any(l < 0 for l in lo)
        if not case.get("spatial_band"):
            if quad:
                cells = [base.quad_cell_of(_qt_bounds(region))(lon, lat) for lon, lat, _ in evs]
            else:
                cells = None
            outside = quad and any(c is None for c in cells)
            if isinstance(smc, list) and (must_reject or outside) and n:
                problems.append("spatial_magnitude_counts returned although an event is below the first magnitude edge (beyond the "
                                "band) or in no cell")
            if smc == "E" and not (may_reject or outside) and n:
                problems.append("spatial_magnitude_counts raised although every event is inside the region and at or above the "
                                "first magnitude edge")
    # the equivalent range filters are exact float comparisons
    e_fl = [sum(1 for _, _, m in evs if edges[k] <= m and (k + 1 == len(edges) or m < edges[k + 1])) for k in range(len(edges))]
    if fl != e_fl:
        problems.append(f"range filters keep {fl}, exact comparisons give {e_fl}")
    for p in problems:
        run.oracle_failure(case, p)
    # ---- the float-faithful model, bit for bit
    if not all(abs(m) < 1e6 for _, _, m in evs):
        return
    lons = ",".join(frac(ev[0]) for ev in evs) if evs else "-"
    lats = ",".join(frac(ev[1]) for ev in evs) if evs else "-"
    mags = ",".join(frac(ev[2]) for ev in evs) if evs else "-"
    ed = ",".join(frac(x) for x in edges)
    tl = "none" if tol is None else frac(tol)
    if quad:
        b = _qt_bounds(region)
        q = drv.ask(" ".join(["c03_quadf"] + [",".join(frac(v) for v in b[:, c]) for c in range(4)] + [lons, lats, mags, ed, tl]))
    else:
        xs, ys = [float(v) for v in region.xs], [float(v) for v in region.ys]
        cells = []
        for pl in region.polygons:
            o = pl.origin
            cells.append((min(max(int(round((float(o[0]) - xs[0]) / float(case["dh"]))), 0), len(xs) - 1),
                          min(max(int(round((float(o[1]) - ys[0]) / float(case["dh"]))), 0), len(ys) - 1)))
        flags = [1] * len(cells)
        q = drv.ask(" ".join(["c03_cartf"] + base.cart_args_of(region, cells, flags) + [lons, lats, mags, ed, tl]))
    pending.append((dict(case, _band_may_differ=bool(inband or case.get("spatial_band")) and not problems), q, (sc, sep, mc, smc, fl)))


def flush(run, drv, pending):
    from . import c03 as base
    if not pending:
        return
    out = drv.run()
    for case, q, got in pending:
        toks = out[q].split(" ")
        if len(toks) != 5:
            run.mismatch(case, "impl", out[q][:200])
            continue
        model = tuple(base._parse(t) for t in toks)
        g = tuple(got)
        if model[:3] != g[:3] or model[4] != g[4] or (model[3] != g[3] and not (model[3] == [] and g[3] == [])):
            if case.get("_band_may_differ"):
                # events inside the documented round-off band: the property allows either adjacent bin / cell and the oracle
                # accepted the implementation's choice; that it is not the float formula's choice (a more exact rewrite of
                # bin1d_vec, say) is a loss of bit-exactness, not a verdict
                run.count("float:decision-inside-band-differs-from-float-model(not a verdict)")
                continue
            run.mismatch({k: v for k, v in case.items() if k != "_band_may_differ"}, [str(x)[:160] for x in g], out[q][:700])
    pending.clear()
    drv.lines = []


def trusted_base_checks(run, rng, tier, Driver):
    """What used to be TRUSTED, now tied to the installed numpy / Python on every run (a disagreement is an error of the trusted
    base — RuntimeError, exit 2 — never a verdict on pyCSEP):
    * numpy.add.at(out, idx, 1) / out[idx] = 1 / numpy.add.at(out2d, (iloc, imag), 1) incl. broadcasting of a length-1 index array,
      the IndexError on other length mismatches and the negative index -1 = last column  vs  addAt / setAt / addAtPairs;
    * float(str(x)) for the numbers the quadtree helpers print into their filter statements  vs  viaText (C11's text layer)."""
    drv, exp = Driver(), []
    for _ in range(40 if tier == "quick" else 400):
        n = rng.choice([1, 2, 5, 9])
        idx = [rng.randrange(n) for _ in range(rng.choice([0, 1, 3, 8, 30]))]
        out = numpy.zeros(n)
        numpy.add.at(out, numpy.array(idx, dtype=int), 1)
        exp.append((drv.ask(f"c03_npsem add {n} {','.join(map(str, idx)) or '-'}"), out.astype(int).tolist(), ("add", n, idx)))
        out = numpy.zeros(n)
        out[numpy.array(idx, dtype=int)] = 1
        exp.append((drv.ask(f"c03_npsem set {n} {','.join(map(str, idx)) or '-'}"), out.astype(int).tolist(), ("set", n, idx)))
        nc, nb = rng.choice([1, 3, 6]), rng.choice([1, 2, 4])
        la, lb = rng.choice([(3, 3), (1, 4), (4, 1), (2, 3), (5, 5), (1, 1), (0, 0), (3, 2)])
        iloc = [rng.randrange(nc) for _ in range(la)]
        imag = [rng.choice([-1] + list(range(nb))) for _ in range(lb)]
        o2 = numpy.zeros((nc, nb))
        try:
            numpy.add.at(o2, (numpy.array(iloc, dtype=int), numpy.array(imag, dtype=int)), 1)
            want = o2.astype(int).tolist()
        except IndexError:
            want = "E"
        exp.append((drv.ask(f"c03_npsem pairs {nc} {nb} {','.join(map(str, iloc)) or '-'} {','.join(map(str, imag)) or '-'}"), want,
                    ("pairs", nc, nb, iloc, imag)))
    import mercantile
    vals = [4.0, 3.95, 5.95, 0.05, 2.5, 1e-3, 123456.789, 0.0, -0.3, 6.25]
    for z in (1, 2, 5, 9, 12):
        for Y in {0, 1, (1 << z) // 3, (1 << z) - 1}:
            t = mercantile.bounds(0, Y, z)
            vals += [t.north, t.south]
    vals += [rng.uniform(-90, 90) for _ in range(20)] + [rng.choice([1, -1]) * 10 ** rng.uniform(-6, 6) for _ in range(20)]
    for v in vals:
        v = float(v)
        back = float(str(numpy.float64(v)))
        exp.append((drv.ask(f"c03_viatext {frac(v)}"), frac(back), ("float(str(x))", v.hex())))
    out = drv.run()
    for q, want, what in exp:
        got = out[q]
        if isinstance(want, list):
            if want and isinstance(want[0], list):
                model = [[int(t) for t in r.split(",")] if r != "-" else [] for r in got.split(";")] if got not in ("E", "-") else got
                if want and not want[0]:
                    model = want if got == "-" or all(r == [] for r in model) else model
            else:
                model = [] if got == "-" else ("E" if got == "E" else [int(t) for t in got.split(",")])
        else:
            model = got
        if model != want:
            raise RuntimeError(f"trusted base: numpy / Python semantics {what} give {want}, the model gives {got}")
    run.extra["trusted_base_checked"] = f"{len(exp)} numpy.add.at / fancy-assignment / float(str(x)) evaluations agree with the model"


# ----------------------------------------------------------------------------- WIDE catalogs: events in MANY distinct cells
def gen_wide_case(rng, huge):
    """a catalog that occupies many DISTINCT cells (the other size axis of "0..N events": `big` cases put many events into one cell):
    65 … 1100 occupied cells on quadtree / Cartesian grids, once per run more than 2^16 occupied cells"""
    if huge:
        nx = ny = rng.choice([257, 260])
        where = dict(rkind="cart", nx=nx, ny=ny)
        ncell = nx * ny
    elif rng.random() < 0.5:
        zoom = rng.choice([3, 4, 4, 5])
        where = dict(rkind="quad", zoom=zoom)
        ncell = 4 ** zoom
    else:
        nx, ny = rng.choice([(9, 9), (17, 16), (33, 31), (20, 13)])
        where = dict(rkind="cart", nx=nx, ny=ny)
        ncell = nx * ny
    return dict(kind="wide", **where, frac_occupied=1.0 if huge else rng.choice([1.0, 1.0, 0.9, 0.6]), dup=rng.choice([0, 0, 3, 40]),
                nbins=rng.choice([1, 3, 8]), mode=rng.choice(["bound", "list", "ndarray"]), seed=rng.randrange(2 ** 32),
                order=rng.choice(["cell-order", "shuffled", "reversed"]))


@_guarded
def wide_case(run, drv, pending, case):
    from . import c03 as base
    from csep.core.catalogs import CSEPCatalog
    from csep.core.regions import CartesianGrid2D, QuadtreeGrid2D
    rs = numpy.random.RandomState(case["seed"])
    nb = int(case["nbins"])
    edges = [4.0 + 0.5 * k for k in range(nb)]
    bound = case["mode"] == "bound"
    mags_arg = numpy.array(edges) if bound else None
    if case["rkind"] == "quad":
        region = QuadtreeGrid2D.from_single_resolution(int(case["zoom"]), magnitudes=mags_arg)
        b = _qt_bounds(region)
        centres = numpy.column_stack(((b[:, 0] + b[:, 2]) / 2, (b[:, 1] + b[:, 3]) / 2))
    else:
        nx, ny = int(case["nx"]), int(case["ny"])
        origins = numpy.array([[float(i), float(j)] for i in range(nx) for j in range(ny)])
        region = CartesianGrid2D.from_origins(origins, dh=1.0, magnitudes=mags_arg)
        po = numpy.array([[float(v) for v in pl.origin] for pl in region.polygons])
        centres = po + 0.5          # integer lattice, dh = 1: the centre of polygon i is exactly inside it
    ncell = len(centres)
    occ = numpy.flatnonzero(rs.random_sample(ncell) < float(case["frac_occupied"]))
    if occ.size == 0:
        occ = numpy.array([0])
    cells = numpy.concatenate((occ, rs.choice(occ, size=int(case["dup"])))) if case["dup"] else occ
    if case["order"] == "shuffled":
        cells = rs.permutation(cells)
    elif case["order"] == "reversed":
        cells = cells[::-1]
    n = len(cells)
    bins = rs.randint(0, nb, size=n)
    m = numpy.array(edges)[bins] + rs.choice([0.0, 0.125, 0.25], size=n)
    data = numpy.zeros(n, dtype=CSEPCatalog.dtype)
    data["id"] = numpy.arange(n).astype("S256")
    data["origin_time"] = 1000 * numpy.arange(n)
    data["longitude"], data["latitude"], data["magnitude"], data["depth"] = centres[cells, 0], centres[cells, 1], m, 10.0
    kw = {} if bound else dict(mag_bins=list(edges) if case["mode"] == "list" else numpy.array(edges))
    e_sc = numpy.bincount(cells, minlength=ncell)
    e_mc = numpy.bincount(bins, minlength=nb)
    e_smc = numpy.zeros((ncell, nb), dtype=int)
    numpy.add.at(e_smc, (cells, bins), 1)
    run.case(dict(kind="wide", ncell=ncell, n=n), ("wide", tuple(sorted(case.items()))))
    run.count(f"wide:{case['rkind']}:" + ("more-than-2^16-occupied-cells" if occ.size > 65536 else "65+occupied-cells" if occ.size >= 65 else "few"))

    def fresh():
        return CSEPCatalog(data=data.copy(), region=region)

    def arr(f):
        try:
            return numpy.asarray(f())
        except Exception as ex:
            return f"raised {type(ex).__name__}: {ex}"
    got = dict(sc=arr(lambda: fresh().spatial_counts()), sep=arr(lambda: fresh().spatial_event_probability()),
               mc=arr(lambda: fresh().magnitude_counts(**kw)), smc=arr(lambda: fresh().spatial_magnitude_counts(**kw)),
               sidx=arr(lambda: fresh().get_spatial_idx()))
    want = dict(sc=e_sc, sep=(e_sc > 0).astype(int), mc=e_mc, smc=e_smc, sidx=cells)
    for k in ("sc", "sep", "mc", "smc", "sidx"):
        g_ = got[k]
        if isinstance(g_, str) or g_.shape != want[k].shape or not numpy.array_equal(g_, want[k]):
            where = "" if isinstance(g_, str) or g_.shape != want[k].shape else f" first difference at {numpy.argwhere(g_ != want[k])[0].tolist()}"
            run.oracle_failure(case, f"{n} events in {occ.size} distinct cells of {ncell}: {k} differs from the exact recount"
                                     f"{where}: {str(g_)[:100]}")
            return
    if ncell <= 1100:
        lons = ",".join(frac(float(v)) for v in data["longitude"])
        lats = ",".join(frac(float(v)) for v in data["latitude"])
        mags = ",".join(frac(float(v)) for v in m)
        ed = ",".join(frac(x) for x in edges)
        if case["rkind"] == "quad":
            q = drv.ask(" ".join(["c03_quadf"] + [",".join(frac(v) for v in b[:, c]) for c in range(4)] + [lons, lats, mags, ed, "none"]))
        else:
            cl = [(int(o[0]), int(o[1])) for o in po.tolist()]
            q = drv.ask(" ".join(["c03_cartf"] + base.cart_args_of(region, cl, [1] * ncell) + [lons, lats, mags, ed, "none"]))
        fl = [int(numpy.sum(bins == k)) for k in range(nb)]
        pending.append((case, q, (got["sc"].astype(int).tolist(), got["sep"].astype(int).tolist(), got["mc"].astype(int).tolist(),
                                  got["smc"].astype(int).tolist(), fl)))


# ----------------------------------------------------------------------------- SIZE THRESHOLDS: long catalogs, the interesting event early
SIZE_THRESHOLDS = (500, 2000, 5000, 65536, 131072)


def gen_size_case(rng, T, quad):
    """a catalog of a little more than T events; ONE interesting event (outside the region / on the region's far edge / below the
    first magnitude edge / a boundary point / nothing) at an EARLY position or at a block boundary (0, 1, T/2, T-1, T, T+1, last)"""
    n = T + rng.choice([1, 3, 37, 129])
    what = rng.choice(["outside", "outside", "outside-on-far-edge", "below-min", "boundary", "clean"])
    pos = rng.choice([0, 1, 2, T // 2, T - 1, T, n - 1, 255, 256])
    if quad:
        where = dict(rkind="quad", zoom=rng.choice([1, 2]))
    else:
        # integer lattices (exact arithmetic), also east of the antimeridian and in the 0..360 convention
        where = dict(rkind="cart", ax=rng.choice([-120.0, 0.0, 170.0, 178.0, 185.0, 300.0, 355.0]), ay=rng.choice([-40.0, 0.0, 30.0]),
                     nx=rng.choice([2, 3, 7]), ny=rng.choice([2, 5]))     # not 1: a single column / row is open-ended (C01's known
        # finding D4), the event "on the far edge" would be inside
    return dict(kind="size", **where, n=n, T=T, what=what, pos=min(pos, n - 1), nbins=rng.choice([1, 4]),
                mode=rng.choice(["bound", "list", "ndarray"]), seed=rng.randrange(2 ** 32))


@_guarded
def size_case(run, drv, pending, case):
    from . import c03 as base
    from csep.core.catalogs import CSEPCatalog
    from csep.core.regions import CartesianGrid2D, QuadtreeGrid2D
    rs = numpy.random.RandomState(case["seed"])
    n, pos, what = int(case["n"]), int(case["pos"]), case["what"]
    nb = int(case["nbins"])
    edges = [4.0 + 0.5 * k for k in range(nb)]
    bound = case["mode"] == "bound"
    quad = case["rkind"] == "quad"
    if quad:
        region = QuadtreeGrid2D.from_single_resolution(int(case["zoom"]), magnitudes=numpy.array(edges) if bound else None)
        b = _qt(region)
        centres = numpy.column_stack(((b[:, 0] + b[:, 2]) / 2, (b[:, 1] + b[:, 3]) / 2))
        corners = b[:, :2]
        far = (180.0, float(centres[0, 1]))                # on the east edge of the domain: in no cell
        out = (float(centres[0, 0]), 86.5)
    else:
        ax, ay, nx, ny = float(case["ax"]), float(case["ay"]), int(case["nx"]), int(case["ny"])
        origins = numpy.array([[ax + i, ay + j] for i in range(nx) for j in range(ny)])
        region = CartesianGrid2D.from_origins(origins, dh=1.0, magnitudes=numpy.array(edges) if bound else None)
        po = numpy.array([[float(v) for v in pl.origin] for pl in region.polygons])
        centres, corners = po + 0.5, po
        far = (ax + nx, ay + 0.5)                          # exactly on the far (east) edge: outside
        out = (ax - 0.5, ay + 0.5) if rs.random_sample() < 0.5 else (ax + 0.5, ay + ny + 3.25)
    ncell = len(centres)
    cells = rs.randint(0, ncell, size=n)
    lon, lat = centres[cells, 0].copy(), centres[cells, 1].copy()
    bins = rs.randint(0, nb, size=n)
    m = numpy.array(edges)[bins] + rs.choice([0.0, 0.125, 0.25], size=n)
    cell_exp = cells.copy()
    bin_exp = bins.copy()
    if what == "outside":
        lon[pos], lat[pos] = out
        cell_exp[pos] = -1
    elif what == "outside-on-far-edge":
        lon[pos], lat[pos] = far
        cell_exp[pos] = -1
    elif what == "below-min":
        m[pos] = edges[0] - 0.25
        bin_exp[pos] = -1
    elif what == "boundary":
        lon[pos], lat[pos] = corners[cells[pos]]           # the cell's own south-west corner
        dpos = (pos + 1) % n
        lon[dpos], lat[dpos], m[dpos] = lon[pos], lat[pos], m[pos]       # and a duplicate of it right behind
        cell_exp[dpos], bin_exp[dpos] = cell_exp[pos], bin_exp[pos]
    data = numpy.zeros(n, dtype=CSEPCatalog.dtype)
    data["id"] = numpy.arange(n).astype("S256")
    data["origin_time"] = 1000 * numpy.arange(n)
    data["longitude"], data["latitude"], data["magnitude"], data["depth"] = lon, lat, m, 10.0
    snapshot = data.copy()
    kw = {} if bound else dict(mag_bins=list(edges) if case["mode"] == "list" else numpy.array(edges))
    inside = cell_exp >= 0
    e_sc = numpy.bincount(cell_exp[inside], minlength=ncell)
    e_mc = numpy.bincount(bin_exp[bin_exp >= 0], minlength=nb)
    anyout, anybelow = bool((~inside).any()), bool((bin_exp < 0).any())
    e_smc = numpy.zeros((ncell, nb), dtype=int)
    if not (anyout or anybelow):
        numpy.add.at(e_smc, (cell_exp, bin_exp), 1)
    run.case(dict(kind="size", n=n, what=what, pos=pos, rkind=case["rkind"]), ("size", tuple(sorted(case.items()))))
    run.count(f"size:>{case['T']}:{case['rkind']}:{what}")

    def fresh(arr=None):
        return CSEPCatalog(data=(data if arr is None else arr).copy(), region=region)

    def call(f):
        try:
            return numpy.asarray(f()).astype(numpy.int64)
        except Exception:
            return "E"
    got = dict(sc=call(lambda: fresh().spatial_counts()), sep=call(lambda: fresh().spatial_event_probability()),
               mc=call(lambda: fresh().magnitude_counts(**kw)), smc=call(lambda: fresh().spatial_magnitude_counts(**kw)))

    def same(a, w):
        return not isinstance(a, str) and a.shape == w.shape and numpy.array_equal(a, w)
    tag = (f"{n} events (> {case['T']}), the {what} event at position {pos}: ")
    # spatial_counts / occupancy: a Cartesian lookup may reject a catalog with an outside event or leave the event uncounted; it must
    # never count it somewhere
    for k, w in (("sc", e_sc), ("sep", (e_sc > 0).astype(int))):
        ok = same(got[k], w) if (quad or not anyout) else (isinstance(got[k], str) or same(got[k], w))
        if not ok:
            run.oracle_failure(case, tag + f"{k} = {str(got[k])[:120]}; every event counted once in its own cell gives {str(w)[:120]}"
                                           + ("" if not anyout else " (the outside event in no cell)"))
            return
    if not same(got["mc"], e_mc):
        run.oracle_failure(case, tag + f"magnitude_counts = {str(got['mc'])[:120]}, exact {str(e_mc)[:120]}")
        return
    if anyout or anybelow:
        if not isinstance(got["smc"], str):
            run.oracle_failure(case, tag + "spatial_magnitude_counts returned although an event is outside the region / below the first "
                                           f"magnitude edge (total {int(numpy.sum(got['smc']))} of {n} events)")
            return
    elif not same(got["smc"], e_smc):
        run.oracle_failure(case, tag + "spatial_magnitude_counts differs from the exact recount")
        return
    # the same input in small pieces through the implementation: the pieces add up to the whole
    if not anyout:
        tot = numpy.zeros(ncell, dtype=numpy.int64)
        step = 397
        pieces = range(0, n, step) if n <= 6000 else list(range(0, 4 * step, step)) + [n - step]
        for a in pieces:
            r_ = call(lambda: fresh(data[a:a + step]).spatial_counts())
            if isinstance(r_, str):
                run.oracle_failure(case, tag + f"spatial_counts of the piece [{a}:{a + step}] raised")
                return
            tot += r_
        if n <= 6000 and not numpy.array_equal(tot, got["sc"]):
            run.oracle_failure(case, tag + "spatial_counts of the whole catalog differs from the sum over pieces of 397 events")
            return
    if not numpy.array_equal(data, snapshot):
        run.oracle_failure(case, tag + "the caller's event array was modified")
        return
    if n <= 5200:
        lons = ",".join(frac(float(v)) for v in lon)
        lats = ",".join(frac(float(v)) for v in lat)
        mags = ",".join(frac(float(v)) for v in m)
        ed = ",".join(frac(x) for x in edges)
        if quad:
            q = drv.ask(" ".join(["c03_quadf"] + [",".join(frac(v) for v in b[:, c]) for c in range(4)] + [lons, lats, mags, ed, "none"]))
        else:
            cl = [(int(round(o[0] - float(case["ax"]))), int(round(o[1] - float(case["ay"])))) for o in po.tolist()]
            q = drv.ask(" ".join(["c03_cartf"] + base.cart_args_of(region, cl, [1] * ncell) + [lons, lats, mags, ed, "none"]))
        fl = [int(numpy.sum((m >= edges[k]) & ((m < edges[k + 1]) if k + 1 < nb else True))) for k in range(nb)]
        cart_alt = (e_sc.tolist(), (e_sc > 0).astype(int).tolist())
        canon = [("E" if isinstance(got[k], str) else got[k].tolist()) for k in ("sc", "sep", "mc", "smc")]
        if not quad and anyout:            # the model rejects (the code as it is); "left uncounted" was accepted above
            canon[0] = canon[1] = "E"
        pending.append((case, q, (canon[0], canon[1], canon[2], canon[3], fl)))


def _qt(region):
    from .c17 import qt_bounds
    return qt_bounds(region)


def run_all(run, rng, tier, Driver):
    trusted_base_checks(run, rng, tier, Driver)
    sdrv, spend = Driver(), []
    for T in SIZE_THRESHOLDS:
        reps = 1 if tier == "quick" else 4
        for _ in range(reps):
            size_case(run, sdrv, spend, gen_size_case(rng, T, quad=False))
            if T <= 5000 or (tier != "quick" and T == 65536):
                size_case(run, sdrv, spend, gen_size_case(rng, T, quad=True))
    # one more above 2^16 with the outside event early, whatever the random choices above were
    size_case(run, sdrv, spend, dict(gen_size_case(rng, 65536, quad=False), what="outside", pos=rng.choice([0, 1, 7, 4096, 65535])))
    flush(run, sdrv, spend)
    drv, pending = Driver(), []
    for k in range(9 if tier == "quick" else 80):
        wide_case(run, drv, pending, gen_wide_case(rng, huge=(k == 0 or (tier != "quick" and k % 20 == 0))))
    flush(run, drv, pending)
    for _ in range(260 if tier == "quick" else 2500):
        float_case(run, drv, pending, gen_float_case(rng, tier))
        if len(pending) >= 80:
            flush(run, drv, pending)
    flush(run, drv, pending)


def replay(run, case, Driver):
    drv, pending = Driver(), []
    {"wide": wide_case, "size": size_case}.get(case.get("kind"), float_case)(run, drv, pending, case)
    flush(run, drv, pending)
