"""C06 — inverse-CDF simulation, count conservation, quantile score, determinism.

Correspondence of csep.core.{poisson,binomial,brier,catalog}_evaluations with Model/Sampler.lean + direct oracle.
The harness observes every call of the three `_simulate_catalog` functions from outside (the module attribute is
wrapped while a test runs; nothing in /repo is edited): number of events, the sampling weights the test built,
the random numbers and the returned array.  For the binary/Brier rejection loop the global
`numpy.random.uniform` is replaced by a feeder of a prepared stream while the call runs.
"""
import contextlib
import glob
import io
import json
import math
import os
from fractions import Fraction

import numpy

from .core import Driver, VERIF, flist, frac

LEVEL_TEXT = ("Proof: placement <=> F_(k-1) <= r < F_k on non-decreasing weights, the binary64 weights (sequential cumsum, "
              "division by their own last element) are non-decreasing with last weight exactly 1, a zero-rate (or masked) bin "
              "has an empty interval for every r, every r<1 is in range, counts are conserved, the rejection loop ends with "
              "exactly N distinct positive-rate cells (and can not end with fewer positive-rate cells: D10), quantile = "
              "#{<=}/n in [0,1], seed 0 applied, result independent of the ambient generator state; all for every rate "
              "array / draw / stream (induction, Soft64 rounding lemmas), tied to the code by bit-exact weight comparison and "
              "placement comparison on boundary-directed draws.")
LEVEL_NOTE = ("numpy.random streams are inputs of the model (injected or fed); the test statistics (log-likelihood, Brier) "
              "belong to C05/C16 and enter only through the quantile; numpy.searchsorted is modelled by its specification "
              "on a non-decreasing array.")
DESIGN_REF = "DESIGN.md §4 C06"
TECHNIQUE = "Lean 4 model (Soft64 binary64 on Rat + exact lists) with kernel-checked theorems; differential correspondence + exact oracle"

THEOREMS = ["Sampler.place_iff", "Sampler.last_weight_is_one", "Sampler.weights_monotone",
            "Sampler.weightsMasked_monotone", "Sampler.zero_rate_interval_empty", "Sampler.never_in_zero_rate_bin",
            "Sampler.never_in_masked_bin", "Sampler.in_range", "Sampler.count_conserved", "Sampler.simulate_total", "Sampler.simulated_zero_in_zero_rate_bin", "Sampler.binary_sim_consumes_prefix",
            "Sampler.binary_sim_distinct_count", "Sampler.binary_sim_needs_enough_cells", "Sampler.binary_sim_needs_drawable_cells", "Sampler.quantile_def",
            "Sampler.quantile_bounds", "Sampler.quantile_counts_ties", "Sampler.quantile_no_tolerance",
            "Sampler.seed_zero_applied",
            "Sampler.result_is_function", "Sampler.injected_result_is_function", "Sampler.rounding_monotone",
            "Sampler.fdiv_self_eq_one",
            # round 4 (Properties/C06_Chain.lean)
            "Sampler.simulate_is_bincount", "Sampler.simulate_entry_interval", "Sampler.simulate_entry_interval_weights",
            "Sampler.simulated_array_zero_in_zero_rate_bin", "Sampler.injected_test_total",
            "Sampler.poisson_test_prescribed_count", "Sampler.binary_sim_terminates_iff",
            "Sampler.binary_sim_exhausted_iff", "Sampler.hit_iff_draw_in_interval", "Sampler.testBinaryStream_spec",
            "Sampler.binary_test_prescribed_count"]
TRUSTED = ["Lean 4.33 kernel", "axioms: propext, Classical.choice, Quot.sound at most",
           "Soft64.fl64 is IEEE-754 binary64 round-to-nearest-even and numpy + / cumsum on float64 are that arithmetic "
           "(validated bit-exactly on every generated rate vector)",
           "numpy.searchsorted(side='right') on a non-decreasing array returns #{w <= r}; numpy.add.at adds 1 per index",
           "numpy.random (MT19937 legacy state): the uniform/Poisson draws are inputs of the model",
           "harness/c06.py generators, wrappers and comparison; driver parsing (Proto.lean)"]
RULE = ("rate vectors of 1..40 bins (1-D and 2-D) with leading / trailing / interior zeros, values 10^U(-12,3), decimal "
        "and equal rates; draws = 0, the smallest subnormal, every cumulative boundary and its two neighbours, midpoints, "
        "1-2^-53, random; 1..5 simulations; Poisson / binary / Brier array-level tests and the seven public tests with "
        "injected numbers, the rejection loop fed with a prepared stream; seeds {0,1,2^32-1,random} run twice from "
        "different ambient generator states incl. the two catalog magnitude tests; near-tie class: smooth forecasts "
        "(neighbouring bins differ by 10^U(-13,-5) relative, plateaus of exactly equal bins) with 1..3 observed events in "
        "the lowest / highest / a random bin and 20..400 simulations for all seven public tests, so that simulated "
        "statistics lie a few ulps .. 1e-5 relative above and below the observed one and on it; the quantile must be the "
        "exact fraction #{sim <= obs}/n of the RETURNED test_distribution; round 4: array-level rate / observed arrays in "
        "Fortran, transposed, sliced and reversed layouts and as int64, verbose runs of 100-125 simulations for every public "
        "test, whole array-level tests compared with the model computing the prescribed number itself. A case is non-trivial when a draw "
        "sits on or next to a cumulative boundary, a zero-rate bin exists, or a simulated statistic lies within 1e-4 "
        "relative of the observed one; distinct by (kind, rates, draws)")

D10_SIG = "binary-sim:active-cells-exceed-positive-rate-cells"
D10B_SIG = "binary-sim:active-cells-exceed-drawable-cells"
NEG_INF = Fraction(-10 ** 400)
ONE_MINUS = 1.0 - 2.0 ** -53


# ----------------------------------------------------------------------------- small helpers
def hx(xs):
    return [float(x).hex() for x in xs]


def unhx(xs):
    return [float.fromhex(x) for x in xs]


def bits(x):
    return numpy.float64(x).view(numpy.uint64).item()


def fr_stat(x):
    x = float(x)
    if x == -math.inf:
        return NEG_INF
    if x == math.inf:
        return -NEG_INF
    return Fraction(x)


class StreamExhausted(Exception):
    pass


class Feeder:
    """stands in for numpy.random.uniform(0, 1) while the rejection loop runs"""

    def __init__(self, stream):
        self.stream, self.pos = list(stream), 0

    def _next(self):
        if self.pos >= len(self.stream):
            raise StreamExhausted()
        v = self.stream[self.pos]
        self.pos += 1
        return v

    def __call__(self, low=0.0, high=1.0, size=None):
        """same interface as numpy.random.uniform: scalar or any `size`; numbers are taken from the stream in order
        (a batched draw consumes the same numbers as that many scalar draws), mapped to [low, high) like numpy does"""
        if size is None:
            shape, n = None, 1
        else:
            shape = (int(size),) if numpy.ndim(size) == 0 else tuple(int(k) for k in size)
            n = int(numpy.prod(shape)) if shape else 1
        if self.pos + n > len(self.stream):
            self.pos = len(self.stream)
            raise StreamExhausted()
        vals = numpy.array([self._next() for _ in range(n)], dtype=float)
        vals = low + (high - low) * vals
        if shape is None:
            return float(vals[0])
        return vals.reshape(shape)


@contextlib.contextmanager
def feed_uniform(stream):
    f = Feeder(stream)
    orig = numpy.random.uniform
    numpy.random.uniform = f
    try:
        yield f
    finally:
        numpy.random.uniform = orig


@contextlib.contextmanager
def capped_uniform(cap=300000):
    """let numpy.random.uniform work as usual but stop a rejection loop that does not finish (a changed test may ask
    for more active cells than exist: it would draw forever)"""
    orig = numpy.random.uniform
    state = dict(n=0)

    def f(*a, **k):
        state["n"] += 1
        if state["n"] > cap:
            raise StreamExhausted(f"more than {cap} uniform draws in one test: the rejection loop does not finish")
        return orig(*a, **k)

    numpy.random.uniform = f
    try:
        yield state
    finally:
        numpy.random.uniform = orig


def _mods():
    from csep.core import poisson_evaluations as pe, binomial_evaluations as be, brier_evaluations as br
    return dict(poisson=pe, binary=be, brier=br)


@contextlib.contextmanager
def capture(mod):
    """record every call of mod._simulate_catalog: (n, weights, random_numbers|None, result|exception name)"""
    rec = []
    orig = mod._simulate_catalog

    def wrap(*a, **k):
        n, w = a[0], a[1]
        rn = k.get("random_numbers", a[3] if len(a) > 3 else None)
        if mod.__name__.endswith("brier_evaluations"):
            rn = k.get("random_numbers", a[2] if len(a) > 2 else None)
        try:
            out = orig(*a, **k)
        except StreamExhausted:
            raise
        except Exception as e:
            rec.append((int(n), numpy.array(w, dtype=float), None if rn is None else numpy.array(rn, dtype=float),
                        type(e).__name__))
            raise
        rec.append((int(n), numpy.array(w, dtype=float), None if rn is None else numpy.array(rn, dtype=float),
                    numpy.array(out).copy()))
        return out

    mod._simulate_catalog = wrap
    try:
        yield rec
    finally:
        mod._simulate_catalog = orig


# ----------------------------------------------------------------------------- generators
def gen_rates(rng, n, force_zero=None):
    style = rng.choice(["decades", "decades", "uniform", "decimal", "equal", "tiny-tail", "integers", "subeps", "subeps"])
    out = []
    for i in range(n):
        if style == "decades":
            v = 10.0 ** rng.uniform(-12, 3)
        elif style == "uniform":
            v = rng.random()
        elif style == "decimal":
            v = rng.choice([0.1, 0.2, 0.3, 0.25, 0.5, 1.0, 3.0, 0.7, 1e-3])
        elif style == "equal":
            v = 0.1
        elif style == "integers":
            v = float(rng.choice([1, 1, 2, 3, 5, 10, 100, 1000]))
        elif style == "subeps":
            # positive rates at or far below 1e-8 (still with a non-empty float interval when >= ~1e-16 of the total)
            # next to ordinary rates
            v = rng.choice([10.0 ** rng.uniform(-1, 1), 10.0 ** rng.uniform(-13, -8), 10.0 ** rng.uniform(-13, -8), 1e-8, 1e-9,
                            10.0 ** rng.uniform(-300, -13)])
        else:
            v = 10.0 ** rng.uniform(-1, 1) if i < max(1, n // 2) else 10.0 ** rng.uniform(-17, -13)
        out.append(v)
    zero = rng.random() < 0.75 if force_zero is None else force_zero
    if zero and n > 1:
        lead = rng.choice([0, 0, 1, 2])
        trail = rng.choice([0, 0, 1, 2])
        for i in range(min(lead, n - 1)):
            out[i] = 0.0
        for i in range(min(trail, n - 1)):
            out[n - 1 - i] = 0.0
        for i in range(n):
            if rng.random() < 0.2:
                out[i] = 0.0
    if not any(v > 0 for v in out):
        out[rng.randrange(n)] = 10.0 ** rng.uniform(-3, 1)
    return out, style


def ref_weights(rates, masked):
    r = numpy.array(rates, dtype=float)
    if masked:
        r = numpy.where(r <= 0, 0.0, r)
    c = numpy.cumsum(r)
    return c / c[-1]


def boundary_draws(w):
    """candidate draws in [0,1): boundaries, their neighbours, midpoints, extremes"""
    c = [0.0, 5e-324, ONE_MINUS, 0.5]
    prev = 0.0
    for x in sorted(set(float(v) for v in w)):
        for v in (x, numpy.nextafter(x, -1.0), numpy.nextafter(x, 2.0), (prev + x) / 2):
            v = float(v)
            if 0.0 <= v < 1.0:
                c.append(v)
        prev = x
    return c


def gen_row(rng, cands, n):
    return [rng.choice(cands) if rng.random() < 0.8 else rng.random() for _ in range(n)]


def is_boundary_case(w, rows):
    ws = set(float(v) for v in w)
    near = set()
    for x in ws:
        near.update((x, float(numpy.nextafter(x, -1.0)), float(numpy.nextafter(x, 2.0))))
    return any(float(r) in near for row in rows for r in row)


# ----------------------------------------------------------------------------- oracle on one recorded call
def oracle_call(rates, masked, call, expect_n, binary_loop=False):
    """returns None or a failure text; exact arithmetic on the implementation's own weights"""
    n, w, rn, out = call
    if isinstance(out, str):
        return f"_simulate_catalog raised {out}"
    if not all(math.isfinite(float(x)) for x in w):
        return "sampling weights are not finite numbers"
    if not all(math.isfinite(float(v)) for v in numpy.ravel(out)):
        return "simulated array holds non-finite entries"
    W = [Fraction(float(x)) for x in w]
    if len(W) != len(rates) or len(out) != len(rates):
        return "weights / result do not have the shape of the forecast"
    if any(W[i] > W[i + 1] for i in range(len(W) - 1)):
        return "sampling weights decrease"
    if n != expect_n:
        return f"simulated {n} events, prescribed {expect_n}"
    if sum(Fraction(float(v)) for v in out) != n:
        return f"array sums to {float(numpy.sum(out))}, not {n}"
    for k, (r, v) in enumerate(zip(rates, out)):
        if v != 0 and not (r > 0):
            return f"event in bin {k} of rate {r!r}"
        if v < 0 or v != int(v):
            return "array entry is not a count"
    if binary_loop and any(v not in (0, 1) for v in out):
        return "rejection loop produced a cell count other than 0/1"
    if rn is not None:
        cnt = [0] * len(W)
        for r in rn:
            R = Fraction(float(r))
            k = sum(1 for x in W if x <= R)
            if k >= len(W):
                return f"draw {float(r)!r} is beyond the last weight {float(w[-1])!r}"
            lo = W[k - 1] if k > 0 else Fraction(0)
            if not (lo <= R < W[k]):
                return f"draw {float(r)!r} not inside [F_{k - 1}, F_{k})"
            cnt[k] += 1
        if [int(v) for v in out] != cnt:
            return f"array {[int(v) for v in out]} differs from inverse-CDF placement {cnt}"
    return None


def quantile_oracle(qs, obs, sims, nsim):
    if len(sims) != nsim:
        return f"{len(sims)} simulated statistics for {nsim} simulations"
    if any(math.isnan(float(s)) for s in sims) or math.isnan(float(obs)):
        return None
    k = sum(1 for s in sims if fr_stat(s) <= fr_stat(obs))
    if float(qs) != k / nsim:
        return f"quantile {float(qs)!r} is not {k}/{nsim}"
    if not (0.0 <= float(qs) <= 1.0):
        return "quantile outside [0,1]"
    return None


# ----------------------------------------------------------------------------- memory layout / dtype of the arrays handed to the tests
def with_layout(a, layout):
    """an array equal to `a` element by element (same shape, same logical C order) with another memory layout"""
    a = numpy.asarray(a)
    if layout == "C" or a.ndim != 2:
        return a.copy()
    if layout == "F":
        out = numpy.asfortranarray(a.copy())
    elif layout == "T":
        out = numpy.ascontiguousarray(a.T).T
    elif layout == "slice":
        big = numpy.full((2 * a.shape[0] + 1, a.shape[1] + 2), 777, dtype=a.dtype)
        big[1::2, 1:a.shape[1] + 1] = a
        out = big[1::2, 1:a.shape[1] + 1]
    else:
        out = a[::-1, ::-1].copy()[::-1, ::-1]
    assert out.shape == a.shape and numpy.array_equal(out, a)
    return out


# ----------------------------------------------------------------------------- array-level case
def n_active(obs):
    return len([v for v in obs if v != 0])


def n_positive(rates):
    return len([v for v in rates if v > 0])


def drawable(rates, masked=True):
    """indices of the cells whose float interval [F_(k-1), F_k) is non-empty (reference weights)"""
    w = ref_weights(rates, masked)
    return [i for i in range(len(w)) if float(w[i]) > (float(w[i - 1]) if i else 0.0)]


def infeasible(run, case, rates, expect_n):
    """D10 / D10b: the rejection loop can not terminate; detected structurally. Returns True when infeasible."""
    if expect_n > n_positive(rates):
        run.count("d10-structural")
        run.oracle_failure(case, f"{expect_n} observed active cells but only {n_positive(rates)} positive-rate cells: "
                                 "the rejection loop of the binary/Brier simulation can not terminate "
                                 "(with injected numbers two events must share a cell)", signature=D10_SIG)
        return True
    nd = len(drawable(rates))
    if expect_n > nd:
        run.count("d10b-structural")
        run.oracle_failure(case, f"{expect_n} observed active cells but only {nd} cells with a non-empty float interval "
                                 f"({n_positive(rates)} positive rates, some absorbed by the float cumulative sum): the "
                                 "rejection loop can not terminate", signature=D10B_SIG)
        return True
    return False


def do_array(run, drv, pending, case):
    """case: kind=array, module, rates(hex), shape, obs, rows(hex)|None, stream(hex)|None, normalize"""
    mods = _mods()
    module = case["module"]
    mod = mods[module]
    rates = unhx(case["rates"])
    shape = tuple(case["shape"])
    obs = [int(v) for v in case["obs"]]
    masked = module != "poisson"
    rows = None if case.get("rows") is None else [unhx(r) for r in case["rows"]]
    stream = None if case.get("stream") is None else unhx(case["stream"])
    nsim = case["nsim"]
    expect_n = sum(obs) if module == "poisson" else n_active(obs)
    w_ref = ref_weights(rates, masked)
    nontriv = (tuple(case["rates"]), json.dumps(case.get("rows") or case.get("stream"))) if (
        any(v <= 0 for v in rates) or is_boundary_case(w_ref, rows or [stream or []])) else None
    run.case(case, nontriv)
    run.count(f"array-{module}-{'injected' if rows is not None else 'stream'}")
    # D10 / D10b: structural detection, the implementation is never called without injected numbers
    if masked and infeasible(run, case, rates, expect_n):
        if rows is None:
            i = drv.ask(f"c06_rejm {flist(rates)} {expect_n} {flist(stream)}")
            pending.append(("d10", case, i, None))
            return
        # with injected numbers the call is safe (no loop): fall through
    # round 4: the same numbers in another memory layout / dtype (the tests flatten with .ravel(): logical C order)
    F = numpy.array(rates, dtype=float).reshape(shape)
    if case.get("rdtype") == "int64" and all(float(v).is_integer() for v in rates):
        F = F.astype(numpy.int64)
    F = with_layout(F, case.get("layout", "C"))
    O = with_layout(numpy.array(obs, dtype=float if case.get("odtype", "float") == "float" else numpy.int64).reshape(shape),
                    case.get("olayout", "C"))
    run.count(f"array-layout-{case.get('layout', 'C')}-{case.get('rdtype', 'float64')}-obs-{case.get('odtype', 'float')}")
    R = None if rows is None else numpy.array(rows, dtype=float).reshape(nsim, -1)
    fn = dict(poisson="_poisson_likelihood_test", binary="_binary_likelihood_test", brier="_brier_score_test")[module]
    kw = dict(num_simulations=nsim, random_numbers=R, seed=None, verbose=False)
    if module != "brier":
        kw.update(use_observed_counts=True, normalize_likelihood=bool(case.get("normalize", False)))
    exc, res, consumed = None, None, None
    with capture(mod) as rec:
        try:
            if rows is None:
                with feed_uniform(stream) as fd:
                    try:
                        res = getattr(mod, fn)(F, O, **kw)
                    finally:
                        consumed = fd.pos
            else:
                res = getattr(mod, fn)(F, O, **kw)
        except StreamExhausted:
            exc = "exhausted"
        except Exception as e:
            exc = type(e).__name__
    if exc == "exhausted":
        run.count("stream-exhausted")
    elif exc is not None:
        run.oracle_failure(case, f"{fn} raised {exc} on valid rates and draws in [0,1)")
    fail = None
    for idx, call in enumerate(rec):
        fail = fail or oracle_call(rates, masked, call, expect_n, binary_loop=(masked and rows is None))
        if rows is not None and not isinstance(call[3], str):
            if call[2] is None or [bits(v) for v in call[2]] != [bits(v) for v in rows[idx]]:
                fail = fail or "the injected random numbers of this simulation were not the ones used"
    if exc is None:
        if len(rec) != nsim:
            fail = fail or f"{len(rec)} catalogs simulated for {nsim} simulations"
        qs, ob, sims = res
        fail = fail or quantile_oracle(qs, ob, sims, nsim)
    if fail:
        run.oracle_failure(case, fail)
    # correspondence
    if rec:
        w_impl = rec[0][1]
        run.extra["weights_compared"] = run.extra.get("weights_compared", 0) + 1
    obstxt = ",".join(str(int(v)) for v in obs) if obs else "-"
    if rows is not None:
        for idx, call in enumerate(rec):
            i = drv.ask(f"c06_run {'m' if masked else 'p'} {flist(rates)} {flist(rows[idx])}")
            pending.append(("run", case, i, call))
        # the whole injected test: the prescribed number (sum(obs) / number of active cells) is computed by the model
        rowtxt = ";".join(flist(r) for r in rows) if rows else "-"
        if rows and all(len(r) for r in rows):
            i = drv.ask(f"c06_test {'m' if masked else 'p'} {flist(rates)} {obstxt} {rowtxt}")
            pending.append(("test", case, i, (rec, exc)))
    else:
        # the whole stream: simulations consume it one after another; the number of active cells to reach is computed
        # by the model from the observed array
        i = drv.ask(f"c06_bintest {flist(rates)} {obstxt} {nsim} {flist(stream)}")
        pending.append(("chain", case, i, (rec, len(stream), consumed, exc)))
    if exc is None and res is not None:
        qs, ob, sims = res
        if not (any(math.isnan(float(s)) for s in sims) or math.isnan(float(ob))):
            i = drv.ask(f"c06_quantile {flist([fr_stat(s) for s in sims])} {frac(fr_stat(ob))}")
            pending.append(("quantile", case, i, (float(qs), nsim)))


def parse_run(line):
    ws, pl, arr = line.split("|")
    W = [] if ws == "-" else [Fraction(x) for x in ws.split(",")]
    P = [] if pl == "-" else [int(x) for x in pl.split(",")]
    A = arr if arr == "index-error" else ([] if arr == "-" else [int(x) for x in arr.split(",")])
    return W, P, A


def parse_rej(line):
    t = line.split(" ")
    if t[0] == "done":
        return "done", ([] if t[1] == "-" else [int(x) for x in t[1].split(",")]), int(t[2])
    return t[0], None, None


def _flush_item(run, out, kind, case, i, data):
    if kind == "run":
        n, w, rn, res = data
        W, P, A = parse_run(out[i])
        if [Fraction(float(x)) for x in w] != W:
            run.count("weights-not-bitexact")
            run.extra["weights_not_bitexact"] = run.extra.get("weights_not_bitexact", 0) + 1
        else:
            run.count("weights-bitexact")
        impl = res if isinstance(res, str) else [int(v) for v in res]
        model = "IndexError" if A == "index-error" else A
        if impl != model:
            run.mismatch(case, dict(array=impl), dict(array=model, placements=P))
    elif kind == "chain":
        rec, nstream, consumed, exc = data
        t = out[i].split(" ")
        st, rest = t[0], int(t[2])
        arrs = [] if t[1] == "-" else [[] if a == "-" else [int(x) for x in a.split(",")] for a in t[1].split(";")]
        impl_arrs = [r[3] if isinstance(r[3], str) else [int(v) for v in r[3]] for r in rec]
        impl_st = "ok" if exc is None else ("exhausted" if exc == "exhausted" else exc)
        impl = dict(status=impl_st, arrays=impl_arrs, consumed=consumed if exc is None else None)
        model = dict(status=st, arrays=arrs, consumed=(nstream - rest) if st == "ok" else None)
        if impl != model:
            run.mismatch(case, impl, model)
    elif kind == "chain-seeded":
        rec = data
        t = out[i].split(" ")
        if t[0] != "ok":
            run.count("default-path-stream-too-short")
        else:
            arrs = [] if t[1] == "-" else [[] if a == "-" else [int(x) for x in a.split(",")] for a in t[1].split(";")]
            impl_arrs = [r[3] if isinstance(r[3], str) else [int(v) for v in r[3]] for r in rec]
            if impl_arrs != arrs:
                run.mismatch(case, dict(simulated_catalogs=impl_arrs), dict(simulated_catalogs_from_seed_stream=arrs))
    elif kind == "test":
        rec, exc = data
        impl = "exception" if exc is not None else [[int(v) for v in r[3]] for r in rec]
        model = out[i] if out[i] == "exception" else (
            [] if out[i] == "-" else [[] if a == "-" else [int(x) for x in a.split(",")] for a in out[i].split(";")])
        if impl != model:
            run.mismatch(case, dict(simulated_catalogs=impl), dict(simulated_catalogs=model))
    elif kind == "d10":
        st, arr, rest = parse_rej(out[i])
        if st != "exhausted":
            run.mismatch(case, "can not terminate", dict(status=st, array=arr))
    elif kind == "weights":
        W, _, _ = parse_run(out[i])
        if [Fraction(float(x)) for x in data[1]] != W:
            run.count("weights-not-bitexact")
            run.extra["weights_not_bitexact"] = run.extra.get("weights_not_bitexact", 0) + 1
        else:
            run.count("weights-bitexact")
    elif kind == "seedflag":
        if out[i] != "true":
            run.mismatch(case, "seed applied", out[i])
    elif kind == "quantile":
        q, nsim = data
        k, m = out[i].split(":")
        if int(m) != nsim or q != int(k) / int(m):
            run.mismatch(case, dict(quantile=q), dict(quantile=out[i]))


def flush(run, drv, pending):
    out = drv.run()
    drv.lines.clear()
    for kind, case, i, data in pending:
        try:
            _flush_item(run, out, kind, case, i, data)
        except (KeyboardInterrupt, SystemExit):
            raise
        except Exception as e:
            run.oracle_failure(case, f"output of the implementation could not be compared with the model "
                                     f"({type(e).__name__}: {str(e)[:200]})")
    pending.clear()


def gen_array_case(rng, tier, module=None, want_d10=False):
    module = module or rng.choice(["poisson", "poisson", "binary", "brier"])
    masked = module != "poisson"
    n = rng.choice([1, 2, 3, 4, 5, 6, 8, 12, 20, 40])
    two_d = n >= 4 and n % 2 == 0 and rng.random() < 0.5
    shape = [n // 2, 2] if two_d else [n]
    if module == "brier" and not two_d:
        shape = [n, 1]
    rates, style = gen_rates(rng, n)
    nsim = rng.randint(1, 5)
    pos = [i for i, v in enumerate(rates) if v > 0]
    obs = [0] * n
    if want_d10 == "b":
        # D10b: positive rates absorbed by the float cumulative sum; active cells > drawable cells, <= positive cells
        n = rng.choice([2, 3, 4, 6])
        shape = [n, 1] if module == "brier" else [n]
        rates = [0.0] * n
        big = rng.sample(range(n), rng.randint(1, n - 1))
        for i in range(n):
            rates[i] = 10.0 ** rng.uniform(-1, 1) if i in big else rng.choice([0.0, 10.0 ** rng.uniform(-20, -18)])
        if rates[0] == 0.0 or 0 not in big:
            rates[0] = 10.0 ** rng.uniform(-1, 1)   # a large first rate absorbs every tiny one after it
        pos = [i for i, v in enumerate(rates) if v > 0]
        nd = len(drawable(rates))
        if not (nd < len(pos)):
            return None
        obs = [0] * n
        for i in rng.sample(pos, rng.randint(nd + 1, len(pos))):
            obs[i] = 1
        style = "absorbed"
    elif want_d10:
        # more active cells than positive-rate cells
        k = min(n, len(pos) + rng.randint(1, 2))
        if k <= len(pos):
            rates = [0.0] * n
            rates[0] = 0.5
            pos = [0]
            k = min(n, 2)
        if k <= len(pos):  # n == 1: impossible to build
            return None
        for i in rng.sample(range(n), k):
            obs[i] = rng.randint(1, 3)
    else:
        if module == "poisson":
            ntot = rng.choice([0, 1, 2, 3, 5, 8, 12])
            for _ in range(ntot):
                obs[rng.randrange(n)] += 1
        else:
            k = rng.randint(0, min(len(pos), 6))
            if rng.random() < 0.9:
                k = min(k, len(drawable(rates)))   # mostly feasible; the rest exercises D10b
            # observed active cells may sit in zero-rate cells as long as their number is feasible
            for i in rng.sample(range(n), k):
                obs[i] = rng.randint(1, 3)
    w = ref_weights(rates, masked)
    cands = boundary_draws(w)
    ev = sum(obs) if module == "poisson" else n_active(obs)
    injected = want_d10 and rng.random() < 0.3 or (not want_d10 and (module == "poisson" or rng.random() < 0.5))
    case = dict(kind="array", module=module, rates=hx(rates), shape=shape, obs=obs, nsim=nsim, style=style,
                normalize=rng.random() < 0.5)
    if len(shape) == 2:
        case["layout"] = rng.choice(["C", "C", "F", "T", "slice", "rev"])
        case["olayout"] = rng.choice(["C", "C", "C", "F", "T"])
    case["odtype"] = rng.choice(["float", "float", "int"])
    case["rdtype"] = "int64" if style == "integers" and rng.random() < 0.6 else "float64"
    if injected:
        case["rows"] = [hx(gen_row(rng, cands, ev)) for _ in range(nsim)]
        case["stream"] = None
    else:
        # a stream that lets the loop finish: boundary-directed numbers first, then the lower end of every
        # positive cell (guarantees termination when feasible), then random numbers
        stream = gen_row(rng, cands, rng.randint(0, 3 * ev + 2))
        for _ in range(nsim):
            lows = [0.0 if i == 0 else float(w[i - 1]) for i in drawable(rates)]
            rng.shuffle(lows)
            stream += gen_row(rng, cands, rng.randint(0, 4)) + lows
        if rng.random() < 0.15 and ev > 0:
            stream = stream[:rng.randint(0, max(0, ev - 1))]  # too short: both sides must report exhaustion
        case["rows"] = None
        case["stream"] = hx(stream)
    return case


# ----------------------------------------------------------------------------- public tests
def build_public(case):
    from csep.core.regions import CartesianGrid2D
    from csep.core.forecasts import GriddedForecast
    from csep.core.catalogs import CSEPCatalog
    nx, ny, nm = case["nx"], case["ny"], case["nm"]
    origins = numpy.array([[0.1 * i, 0.1 * j] for j in range(ny) for i in range(nx)])
    mags = numpy.array([4.0 + k for k in range(nm)])
    region = CartesianGrid2D.from_origins(origins, dh=0.1, magnitudes=mags)
    rates = numpy.array(unhx(case["rates"]), dtype=float).reshape(nx * ny, nm)
    fore = GriddedForecast(data=rates, region=region, magnitudes=mags, name="f")
    ev = []
    for t, (cell, mb) in enumerate(case["events"]):
        lon, lat = origins[cell][0] + 0.05, origins[cell][1] + 0.05
        ev.append((str(t), 1000 * t, lat, lon, 10.0, 4.5 + mb))
    cat = CSEPCatalog(data=ev, region=region, name="c")
    return fore, cat


PUBLIC = {
    "likelihood_test": ("poisson", "cellmag", False),
    "conditional_likelihood_test": ("poisson", "cellmag", True),
    "spatial_test": ("poisson", "space", True),
    "magnitude_test": ("poisson", "mag", True),
    "binary_spatial_test": ("binary", "space", True),
    "binary_conditional_likelihood_test": ("binary", "cellmag", True),
    "brier_score_test": ("brier", "cellmag", True),
}


def public_inputs(case, fore, cat):
    """the rate and count arrays the public function hands to the array-level test"""
    module, view, _ = PUBLIC[case["test"]]
    if view == "cellmag":
        F, O = fore.data, cat.spatial_magnitude_counts()
    elif view == "space":
        F, O = fore.spatial_counts(), cat.spatial_counts()
    else:
        F, O = fore.magnitude_counts(), cat.magnitude_counts()
    return numpy.asarray(F, dtype=float).ravel(), numpy.asarray(O, dtype=float).ravel()


def result_key(res):
    q = res.quantile
    td = [bits(v) for v in res.test_distribution]
    return (bits(q), bits(res.observed_statistic), tuple(td))


def do_public(run, drv, pending, case):
    """public test with injected numbers (rows) or with a seed (rows None)"""
    mods = _mods()
    module, view, conditional = PUBLIC[case["test"]]
    mod = mods[module]
    fore, cat = build_public(case)
    # history on the SAME forecast / catalog objects before the checked call: other tests (their results are not looked at
    # here), scale() calls; the checked call must behave like a first call on objects in the state they are in now
    for h in case.get("history") or []:
        try:
            if h[0] == "scale":
                fore.scale(h[1])
            else:
                hm = mods[PUBLIC[h[1]][0]]
                with capped_uniform(), contextlib.redirect_stdout(io.StringIO()):
                    getattr(hm, h[1])(fore, cat, num_simulations=h[3], seed=h[2])
            run.count("history-step-" + h[0])
        except Exception as e:
            run.oracle_failure(case, f"history step {h!r} raised {type(e).__name__}")
            return None
    Fr, Or = public_inputs(case, fore, cat)
    rates = [float(v) for v in Fr]
    masked = module != "poisson"
    nsim = case["nsim"]
    rows = None if case.get("rows") is None else [unhx(r) for r in case["rows"]]
    seed = case.get("seed")
    expect_n = int(sum(Or)) if module == "poisson" else n_active(Or)
    w_ref = ref_weights(rates, masked)
    nontriv = (case["test"], tuple(case["rates"]), json.dumps(case.get("rows")), seed) if (
        any(v <= 0 for v in rates) or (rows and is_boundary_case(w_ref, rows)) or case.get("neartie")) else None
    run.case(case, nontriv)
    run.count(f"public-{case['test']}-{'injected' if rows is not None else 'seeded'}")
    if masked and infeasible(run, case, rates, expect_n):
        if rows is None:
            return
    R = None if rows is None else numpy.array(rows, dtype=float).reshape(nsim, -1)
    fn = getattr(mod, case["test"])
    exc, res = None, None
    if seed is None and rows is None:
        raise RuntimeError("public case needs rows or a seed")
    kw = {}
    if case.get("verbose"):
        kw["verbose"] = True          # the progress-printing branch (every 100 simulations)
    with capture(mod) as rec:
        try:
            numpy.random.seed(case.get("ambient", 12345))
            with capped_uniform(), contextlib.redirect_stdout(io.StringIO()):
                res = fn(fore, cat, num_simulations=nsim, seed=seed, random_numbers=R, **kw)
        except StreamExhausted as e:
            exc = "rejection loop did not finish: " + str(e)
        except Exception as e:
            exc = type(e).__name__
    if exc is not None:
        run.oracle_failure(case, f"{case['test']} raised {exc}")
        return None
    fail = None
    if len(rec) != nsim:
        fail = f"{len(rec)} catalogs simulated for {nsim} simulations"
    for idx, call in enumerate(rec):
        exp = expect_n
        if not conditional:
            exp = call[0]  # Poisson draw: checked below against the generator stream for the first simulation
        fail = fail or oracle_call(rates, masked, call, exp, binary_loop=(masked and rows is None))
    if not conditional and seed is not None and rec:
        first = int(numpy.random.RandomState(seed).poisson(float(numpy.sum(fore.data))))
        if rec[0][0] != first:
            fail = fail or (f"L-test: first simulated catalog has {rec[0][0]} events, the Poisson draw with the "
                            f"forecast mean from seed {seed} is {first}")
    fail = fail or quantile_oracle(res.quantile, res.observed_statistic, res.test_distribution, nsim)
    if fail:
        run.oracle_failure(case, fail)
    if rows is not None:
        for idx, call in enumerate(rec):
            i = drv.ask(f"c06_run {'m' if masked else 'p'} {flist(rates)} {flist(rows[idx])}")
            pending.append(("run", case, i, call))
    else:
        for call in (rec[:1] if case.get("neartie") else rec):   # weights only (bit-exactness) + zero draws
            i = drv.ask(f"c06_run {'m' if masked else 'p'} {flist(rates)} -")
            pending.append(("weights", case, i, call))
        if seed is not None and not case.get("neartie"):
            default_path(run, drv, pending, case, mod, module, masked, conditional, rates, Or, fore, seed, nsim, rec, res)
    sims, ob = res.test_distribution, res.observed_statistic
    if not (any(math.isnan(float(s)) for s in sims) or math.isnan(float(ob))):
        i = drv.ask(f"c06_quantile {flist([fr_stat(s) for s in sims])} {frac(fr_stat(ob))}")
        pending.append(("quantile", case, i, (float(res.quantile), nsim)))
    return res


def default_path(run, drv, pending, case, mod, module, masked, conditional, rates, Or, fore, seed, nsim, rec, res):
    """no injected numbers: the simulated catalogs must be the model's placement of the numbers the legacy global generator
    yields after numpy.random.seed(seed) — Poisson tests: [poisson(N_fore) for the L-test, then] rand(n) per simulation; binary
    / Brier: one uniform per iteration of the rejection loop (drawing them in batches yields the same numbers). And every
    entry of the returned distribution must be the statistic of ITS simulated catalog (a reused buffer must not alias)."""
    g = numpy.random.RandomState(seed)
    run.count(f"default-path-{module}")
    if not masked:
        for idx, call in enumerate(rec):
            n = int(sum(Or)) if conditional else int(g.poisson(float(numpy.sum(fore.data))))
            row = g.random_sample(n)
            if isinstance(call[3], str):
                continue
            call2 = (call[0], call[1], numpy.array(row, dtype=float), call[3])
            fail = oracle_call(rates, masked, call2, n)
            if fail:
                run.oracle_failure(case, f"default random path, simulation {idx}: {fail}")
                return
            i = drv.ask(f"c06_run p {flist(rates)} {flist(row)}")
            pending.append(("run", case, i, call2))
    else:
        stream = g.random_sample(4000).tolist()
        obstxt = ",".join(str(int(v)) for v in Or) if len(Or) else "-"
        i = drv.ask(f"c06_bintest {flist(rates)} {obstxt} {nsim} {flist(stream)}")
        pending.append(("chain-seeded", case, i, rec))
        # aliasing: entry k of the distribution is the statistic of the k-th simulated catalog
        try:
            F = numpy.asarray(fore.spatial_counts() if PUBLIC[case["test"]][1] == "space" else fore.data, dtype=float)
            for idx, call in enumerate(rec):
                if isinstance(call[3], str):
                    continue
                if module == "binary":
                    ref = float(mod.binary_joint_log_likelihood_ndarray(F, numpy.array(call[3], dtype=float)))
                else:
                    ref = float(mod._brier_score_ndarray(F, numpy.array(call[3], dtype=float)))
                val = float(res.test_distribution[idx])
                if not (val == ref or (math.isnan(val) and math.isnan(ref)) or abs(val - ref) <= 1e-11 * max(abs(val), abs(ref))):
                    run.oracle_failure(case, f"default random path: entry {idx} of the simulated distribution ({val!r}) is not the "
                                             f"statistic of the {idx}-th simulated catalog ({ref!r})")
                    return
        except AttributeError:
            run.count("default-path-statistic-function-not-found")


def do_seed(run, drv, pending, case):
    """determinism: the same seed from two different ambient generator states gives the same result"""
    keys = []
    for ambient in (case["ambient_a"], case["ambient_b"]):
        c = dict(case, ambient=ambient, kind="public", rows=None)
        fore, cat = build_public(c)
        mods = _mods()
        module, _, _ = PUBLIC[case["test"]]
        numpy.random.seed(ambient)
        numpy.random.rand(case.get("burn", 3))
        try:
            with capped_uniform():
                res = getattr(mods[module], case["test"])(fore, cat, num_simulations=case["nsim"], seed=case["seed"])
            keys.append(result_key(res))
        except Exception as e:
            keys.append(("exc", type(e).__name__))
    run.case(case, ("seed", case["test"], case["seed"], tuple(case["rates"])))
    run.count(f"seed-{case['seed'] if case['seed'] in (0, 1, 2 ** 32 - 1) else 'random'}")
    if keys[0] != keys[1]:
        run.oracle_failure(case, f"{case['test']}(seed={case['seed']}) gives different results from different ambient "
                                 f"generator states: the seed was not applied")
    elif keys[0][0] == "exc":
        run.oracle_failure(case, f"{case['test']} raised {keys[0][1]}")
    i = drv.ask(f"c06_seed {case['seed']}")
    pending.append(("seedflag", case, i, None))


def sensitive(case):
    """a seeded case whose result depends on the random stream: >= 3 drawable bins of comparable weight, >= 2 events"""
    fore, cat = build_public(case)
    Fr, Or = public_inputs(case, fore, cat)
    module = PUBLIC[case["test"]][0]
    w = ref_weights([float(v) for v in Fr], module != "poisson")
    widths = [float(w[i]) - (float(w[i - 1]) if i else 0.0) for i in range(len(w))]
    ev = int(sum(Or)) if module == "poisson" else n_active(Or)
    big = len([x for x in widths if x > 0.05])
    if module != "poisson":
        return big >= 3 and 1 <= ev < big and case["nsim"] >= 2
    return big >= 3 and ev >= 2 and case["nsim"] >= 2


def gen_public_case(rng, test=None, seeded=False):
    test = test or rng.choice(list(PUBLIC))
    module, view, conditional = PUBLIC[test]
    nx, ny, nm = rng.choice([(1, 1, 1), (2, 1, 2), (3, 2, 1), (3, 2, 3), (5, 2, 3), (4, 3, 2)])
    n = nx * ny * nm
    rates, style = gen_rates(rng, n, force_zero=rng.random() < 0.6)
    if module == "poisson" and view != "cellmag":
        pass
    nsim = rng.randint(1, 5)
    nev = rng.choice([0, 1, 2, 3, 5, 8])
    events = [[rng.randrange(nx * ny), rng.randrange(nm)] for _ in range(nev)]
    case = dict(kind="public", test=test, nx=nx, ny=ny, nm=nm, rates=hx(rates), events=events, nsim=nsim, style=style)
    fore, cat = build_public(case)
    Fr, Or = public_inputs(case, fore, cat)
    masked = module != "poisson"
    if masked:
        # keep the binary tests feasible (D10 cases are generated separately at array level and below)
        pos = len(drawable([float(v) for v in Fr]))
        if n_active(Or) > pos:
            keep, seen = [], set()
            for e in events:
                key = tuple(e) if view == "cellmag" else e[0]
                if key in seen or len(seen) < pos:
                    seen.add(key)
                    keep.append(e)
            case["events"] = events = keep
            fore, cat = build_public(case)
            Fr, Or = public_inputs(case, fore, cat)
    if not any(v > 0 for v in Fr):
        return None
    ev = int(sum(Or)) if not masked else n_active(Or)
    if seeded or not conditional:
        case["seed"] = rng.choice([0, 1, 2 ** 32 - 1, rng.randrange(2 ** 32)])
        case["rows"] = None
        if not conditional:
            first = int(numpy.random.RandomState(case["seed"]).poisson(float(numpy.sum(fore.data))))
            if first > 2000:
                return None
            if rng.random() < 0.6:
                # inject numbers for ONE simulation whose length is the Poisson draw of this seed
                case["nsim"] = 1
                cands = boundary_draws(ref_weights(list(Fr), masked))
                case["rows"] = [hx(gen_row(rng, cands, first))]
        elif masked:
            # seeded rejection loop with the real generator: keep it fast (every needed cell is likely enough)
            w = ref_weights(list(Fr), True)
            widths = sorted([float(w[i] - (w[i - 1] if i else 0.0)) for i in range(len(w)) if Fr[i] > 0], reverse=True)
            if ev > 0 and widths[ev - 1] < 1e-3:
                return None
    else:
        case["seed"] = None
        cands = boundary_draws(ref_weights(list(Fr), masked))
        case["rows"] = [hx(gen_row(rng, cands, ev)) for _ in range(nsim)]
    if rng.random() < 0.3:
        # earlier calls on the same objects: Poisson-family tests (they always terminate; a seeded rejection loop may need
        # astronomically many draws on a forecast with a nearly empty cell)
        pool = ["likelihood_test", "conditional_likelihood_test", "spatial_test", "magnitude_test"]
        hist = []
        for _ in range(rng.randint(1, 3)):
            if rng.random() < 0.25:
                hist.append(["scale", rng.choice([0.5, 2.0, 4.0])])
            else:
                hist.append(["test", rng.choice(pool), rng.randrange(2 ** 31), rng.randint(1, 3)])
        if any(h[0] == "scale" for h in hist):
            hist.append(["scale", 1])          # back to the forecast's own rates (scale factors are absolute)
        if not (not conditional and case.get("rows") is not None):
            case["history"] = hist
    return case


# ----------------------------------------------------------------------------- near ties of simulated and observed statistic
def gen_smooth_rates(rng, n):
    """a smooth forecast: neighbouring bins differ by a relative step of 10^U(-13,-5); plateaus give exact ties"""
    base = 10.0 ** rng.uniform(-3, 1.5)
    step = 10.0 ** rng.uniform(-13, -5)
    style = rng.choice(["ramp", "ramp-down", "wiggle", "plateaus", "two-level"])
    out = []
    for i in range(n):
        if style == "ramp":
            f = 1.0 + i * step
        elif style == "ramp-down":
            f = 1.0 + (n - 1 - i) * step
        elif style == "wiggle":
            f = 1.0 + step * rng.uniform(-1, 1)
        elif style == "plateaus":
            f = 1.0 + (i // 2) * step          # pairs of exactly equal bins, neighbouring pairs nearly equal
        else:
            f = 1.0 + (i % 2) * step
        out.append(base * f)
    return out, "smooth-" + style


def gen_neartie_case(rng, test, tier, force_verbose=False):
    module, view, conditional = PUBLIC[test]
    nx, ny, nm = rng.choice([(2, 1, 2), (3, 1, 1), (3, 2, 1), (3, 2, 2), (4, 2, 2), (6, 1, 2), (5, 2, 3)])
    n = nx * ny * nm
    rates, style = gen_smooth_rates(rng, n)
    if not conditional:
        # L-test: the number of events is a Poisson draw; a total near the observed count makes equal counts frequent
        tot = sum(rates)
        want = rng.choice([0.7, 1.0, 2.0])
        rates = [v * want / tot for v in rates]
    if rng.random() < 0.25 and n > 3:
        rates[rng.randrange(n)] = 0.0              # a zero-rate bin inside a smooth forecast
    pos = [i for i, v in enumerate(rates) if v > 0]
    where = rng.choice(["low", "low", "high", "high", "random"])
    nev = rng.choice([1, 1, 2, 2, 3])
    order = sorted(pos, key=lambda i: (rates[i], i))
    if where == "high":
        order = order[::-1]
    elif where == "random":
        rng.shuffle(order)
    if module != "poisson" or rng.random() < 0.5:
        flat = order[:nev]                           # distinct bins (binary tests: distinct active cells)
    else:
        flat = [order[0]] * nev                      # several events in one bin
    events = [[i // nm, i % nm] for i in flat]
    nsim = rng.choice([20, 30, 40, 60]) if tier == "quick" else rng.choice([40, 100, 200, 400])
    verbose = force_verbose or rng.random() < 0.25
    if verbose:
        nsim = 100 + rng.randint(0, 25)          # reaches the `(idx + 1) % 100 == 0` progress branch
    case = dict(kind="public", test=test, nx=nx, ny=ny, nm=nm, rates=hx(rates), events=events, nsim=nsim, style=style,
                neartie=where, verbose=verbose)
    fore, cat = build_public(case)
    Fr, Or = public_inputs(case, fore, cat)
    masked = module != "poisson"
    ev = int(sum(Or)) if not masked else n_active(Or)
    if masked and ev > len(drawable([float(v) for v in Fr])):
        return None
    if conditional and rng.random() < 0.5:
        case["seed"] = None
        g = numpy.random.RandomState(rng.randrange(2 ** 32))
        case["rows"] = [hx(g.random_sample(ev).tolist()) for _ in range(nsim)]
    else:
        case["seed"] = rng.choice([0, 1, rng.randrange(2 ** 32)])
        case["rows"] = None
    return case


def do_neartie(run, drv, pending, case):
    res = do_public(run, drv, pending, case)
    if res is None:
        return
    ob = float(res.observed_statistic)
    sims = [float(v) for v in res.test_distribution]
    if math.isnan(ob) or math.isinf(ob):
        run.count("neartie:observed-not-finite")
        return
    band = 1e-4 * max(abs(ob), 1e-3)
    above = sum(1 for v in sims if ob < v <= ob + band)
    below = sum(1 for v in sims if ob - band <= v < ob)
    ties = sum(1 for v in sims if v == ob)
    run.count("neartie:" + ("+".join(k for k, c in (("above", above), ("below", below), ("tie", ties)) if c) or "none"))
    run.extra["neartie_sims_just_above"] = run.extra.get("neartie_sims_just_above", 0) + above
    run.extra["neartie_sims_just_below"] = run.extra.get("neartie_sims_just_below", 0) + below
    run.extra["neartie_sims_exact_tie"] = run.extra.get("neartie_sims_exact_tie", 0) + ties


# ----------------------------------------------------------------------------- catalog magnitude tests (seed handling)
def do_catalog_seed(run, drv, pending, case):
    from csep.core.catalog_evaluations import resampled_magnitude_test, MLL_magnitude_test
    from csep.core.catalogs import CSEPCatalog
    from csep.core.forecasts import CatalogForecast
    from csep.core.regions import CartesianGrid2D
    fn = dict(resampled_magnitude_test=resampled_magnitude_test, MLL_magnitude_test=MLL_magnitude_test)[case["test"]]
    mags = [1.0, 2.0, 3.0]
    keys = []
    for ambient in (case["ambient_a"], case["ambient_b"]):
        region = CartesianGrid2D.from_origins(numpy.array([[0.0, 0.0]]), dh=1.0, magnitudes=mags)
        cats = [CSEPCatalog(data=[(str(i), 1, 0.5, 0.5, 0.0, float(m)) for i, m in enumerate(ms)], catalog_id=j)
                for j, ms in enumerate(case["cats"])]
        fore = CatalogForecast(catalogs=cats, region=region, n_cat=len(cats))
        obs = CSEPCatalog(data=[(str(i), 1, 0.5, 0.5, 0.0, float(m)) for i, m in enumerate(case["obs"])], region=region)
        numpy.random.seed(ambient)
        numpy.random.rand(3)
        try:
            res = fn(fore, obs, seed=case["seed"])
            keys.append((tuple(bits(v) for v in res.test_distribution), bits(res.observed_statistic),
                         tuple(bits(v) for v in res.quantile)))
        except Exception as e:
            keys.append(("exc", type(e).__name__))
    run.case(case, ("catseed", case["test"], case["seed"], json.dumps(case["cats"])))
    run.count(f"catalog-{case['test']}-seed-{case['seed'] if case['seed'] in (0, 1, 2 ** 32 - 1) else 'random'}")
    if keys[0] != keys[1]:
        run.oracle_failure(case, f"{case['test']}(seed={case['seed']}) gives different results from different ambient "
                                 f"generator states: the seed was not applied")
    elif keys[0][0] == "exc":
        run.oracle_failure(case, f"{case['test']} raised {keys[0][1]}")
    else:
        td = [float(numpy.uint64(b).view(numpy.float64)) for b in keys[0][0]]
        ob = float(numpy.uint64(keys[0][1]).view(numpy.float64))
        q = [float(numpy.uint64(b).view(numpy.float64)) for b in keys[0][2]]
        if td and not any(math.isnan(v) for v in td + [ob]):
            kle = sum(1 for v in td if v <= ob)
            kge = sum(1 for v in td if v >= ob)
            if not (q[1] == kle / len(td) and q[0] == kge / len(td) and 0 <= q[0] <= 1 and 0 <= q[1] <= 1):
                run.oracle_failure(case, f"quantile {q} is not ({kge}/{len(td)}, {kle}/{len(td)})")
    i = drv.ask(f"c06_seed {case['seed']}")
    pending.append(("seedflag", case, i, None))


def gen_catalog_seed_case(rng, seed):
    ncat = rng.randint(2, 6)
    cats = [[rng.choice([1.5, 2.5, 3.5]) for _ in range(rng.randint(1, 6))] for _ in range(ncat)]
    obs = [rng.choice([1.5, 2.5, 3.5]) for _ in range(rng.randint(2, 6))]
    return dict(kind="catseed", test=rng.choice(["resampled_magnitude_test", "MLL_magnitude_test"]), cats=cats, obs=obs,
                seed=seed, ambient_a=rng.randrange(2 ** 31), ambient_b=rng.randrange(2 ** 31))


# ----------------------------------------------------------------------------- direct _simulate_catalog calls
def do_direct(run, drv, pending, case):
    """the three `_simulate_catalog` functions called directly with given weights and draws"""
    mods = _mods()
    module = case["module"]
    mod = mods[module]
    rates = unhx(case["rates"])
    masked = module != "poisson"
    w = ref_weights(rates, masked)
    draws = unhx(case["draws"])
    n = len(draws)
    run.case(case, ("direct", module, tuple(case["rates"]), tuple(case["draws"])))
    run.count(f"direct-{module}")
    sim = numpy.full(w.shape, 7.0)  # stale content must be cleared
    try:
        if module == "brier":
            out = mod._simulate_catalog(n, w, random_numbers=numpy.array(draws))
        else:
            out = mod._simulate_catalog(n, w, sim, random_numbers=numpy.array(draws))
        call = (n, w, numpy.array(draws), numpy.array(out).copy())
    except Exception as e:
        call = (n, w, numpy.array(draws), type(e).__name__)
    fail = oracle_call(rates, masked, call, n)
    if fail:
        run.oracle_failure(case, fail)
    i = drv.ask(f"c06_run {'m' if masked else 'p'} {flist(rates)} {flist(draws)}")
    pending.append(("run", case, i, call))


def gen_direct_case(rng):
    module = rng.choice(["poisson", "binary", "brier"])
    n = rng.choice([1, 2, 3, 5, 8, 16, 40])
    rates, style = gen_rates(rng, n)
    w = ref_weights(rates, module != "poisson")
    cands = boundary_draws(w)
    k = rng.choice([0, 1, 2, 5, 20])
    if rng.random() < 0.3:
        draws = list(cands)   # every boundary and neighbour at once
    else:
        draws = gen_row(rng, cands, k)
    return dict(kind="direct", module=module, rates=hx(rates), draws=hx(draws), style=style)


# ----------------------------------------------------------------------------- sizes beyond 2^16
def gen_big_case(rng, which):
    module = rng.choice(["poisson", "binary", "brier"]) if which == "bins" else "poisson"
    if which == "bins":
        n = 65536 + rng.randint(1, 5000)                     # more than 65536 bins, not a multiple of 65536
        pattern = [rng.choice([0.5, 1e-3, 2.0, 0.25, 1e-9, 0.0]) for _ in range(rng.randint(3, 7))]
        if not any(v > 0 for v in pattern):
            pattern[0] = 0.5
        return dict(kind="big", which=which, module=module, n=n, pattern=hx(pattern), nev=rng.randint(1, 4), nsim=2,
                    draw_seed=rng.randrange(2 ** 31))
    return dict(kind="big", which=which, module=module, n=3, pattern=hx([1e-9, 1.0, 1e-9]), nev=65536 + rng.randint(1, 9000),
                nsim=1, draw_seed=rng.randrange(2 ** 31))


def do_big(run, drv, pending, case):
    """more than 65536 bins / more than 65535 events in one bin (and in one catalog): exact oracle only (bisect on the
    implementation's own float weights); the Lean ops are not asked (exact rational arithmetic on 70 000 weights is slow)"""
    import bisect
    mods = _mods()
    module = case["module"]
    mod = mods[module]
    masked = module != "poisson"
    pat = unhx(case["pattern"])
    n, nev, nsim = case["n"], case["nev"], case["nsim"]
    rates = numpy.array([pat[k % len(pat)] for k in range(n)], dtype=float)
    g = numpy.random.RandomState(case["draw_seed"])
    pos = numpy.flatnonzero(rates > 0)
    obs = numpy.zeros(n)
    if case["which"] == "bins":
        idx = sorted(set(int(pos[q]) for q in g.randint(0, len(pos), size=nev)) | {int(pos[-1])})
        for q in idx:
            obs[q] = 1
        ev = len(idx)
    else:
        obs[1] = nev
        ev = nev
    w_ref = ref_weights(rates.tolist(), masked)
    rows = g.random_sample((nsim, ev))
    if case["which"] == "bins":
        # direct some draws to boundaries beyond index 65536
        for r in range(nsim):
            k = int(pos[-1 - r])
            rows[r, 0] = float(w_ref[k - 1]) if k > 0 else 0.0
    shape = (n, 1) if module == "brier" else (n,)
    fn = dict(poisson="_poisson_likelihood_test", binary="_binary_likelihood_test", brier="_brier_score_test")[module]
    kw = dict(num_simulations=nsim, random_numbers=rows, seed=None, verbose=False)
    if module != "brier":
        kw.update(use_observed_counts=True, normalize_likelihood=False)
    run.case(dict(kind="big", which=case["which"], module=module, n=n, events=ev), ("big", case["which"], module, n, ev, case["draw_seed"]))
    run.count(f"big-{case['which']}-{module}")
    with capture(mod) as rec:
        try:
            res = getattr(mod, fn)(rates.reshape(shape), obs.reshape(shape), **kw)
        except Exception as e:
            run.oracle_failure(case, f"{fn} raised {type(e).__name__} on {n} bins / {ev} events")
            return
    if len(rec) != nsim:
        run.oracle_failure(case, f"{len(rec)} catalogs simulated for {nsim} simulations")
        return
    for q, (cn, w, rn, out) in enumerate(rec):
        if isinstance(out, str):
            run.oracle_failure(case, f"_simulate_catalog raised {out}")
            return
        wl = [float(x) for x in w]
        if len(wl) != n or len(out) != n or not all(math.isfinite(x) for x in wl) or any(wl[k] > wl[k + 1] for k in range(n - 1)):
            run.oracle_failure(case, "weights / result do not have the forecast's shape, are not finite or decrease")
            return
        exp = numpy.zeros(n)
        for r in rows[q]:
            k = bisect.bisect_right(wl, float(r))
            if k >= n:
                run.oracle_failure(case, f"draw {float(r)!r} beyond the last weight")
                return
            exp[k] += 1
        if cn != ev or float(numpy.sum(out)) != ev or not numpy.array_equal(numpy.asarray(out, dtype=float), exp):
            bad = numpy.flatnonzero(numpy.asarray(out, dtype=float) != exp)[:5].tolist()
            run.oracle_failure(case, f"simulated catalog {q} differs from the inverse-CDF placement of its numbers on {n} bins / "
                                     f"{ev} events (first differing bins {bad}; sum {float(numpy.sum(out))!r}, prescribed {ev})")
            return
        if numpy.any((numpy.asarray(out) != 0) & ~(rates > 0)):
            run.oracle_failure(case, "event in a zero-rate bin")
            return
    fail = quantile_oracle(res[0], res[1], res[2], nsim)
    if fail:
        run.oracle_failure(case, fail)


# ----------------------------------------------------------------------------- run / replay
def flush_all(run, drv, pending):
    flush(run, drv, pending)


def do_public_any(run, drv, pending, case):
    return (do_neartie if case.get("neartie") else do_public)(run, drv, pending, case)


def guarded(fn):
    """a harness crash is a missed detection: anything unexpected while an implementation output is processed is reported
    as a deviation with the case as replay (on the unchanged tree nothing of this kind happens)"""
    def wrapped(run, drv, pending, case):
        try:
            return fn(run, drv, pending, case)
        except (KeyboardInterrupt, SystemExit):
            raise
        except Exception as e:
            run.oracle_failure(case, f"output of the implementation could not be processed ({type(e).__name__}: {str(e)[:200]})")
            return None
    return wrapped


DISPATCH = dict(array=guarded(do_array), public=guarded(do_public_any), seed=guarded(do_seed),
                catseed=guarded(do_catalog_seed), direct=guarded(do_direct), big=guarded(do_big))


def run(run, rng, tier):
    drv, pending = Driver(), []
    run.extra["csep_file"] = __import__("csep").__file__
    run.extra["weights_not_bitexact"] = 0
    # corpus: witnesses of the repaired defects D7, D8, D9 (must stay repaired) and hand-made boundary cases
    for path in sorted(glob.glob(os.path.join(VERIF, "corpus", "C06", "*.json"))):
        case = json.load(open(path))
        DISPATCH[case["kind"]](run, drv, pending, case)
        run.count("corpus")
    flush_all(run, drv, pending)
    quick = tier == "quick"
    n_array, n_direct, n_public, n_seed, n_cat, n_d10 = (1200, 500, 700, 20, 8, 6) if quick else (40000, 16000, 24000, 200, 80, 60)
    for which in (["bins", "count"] if quick else ["bins"] * 6 + ["count"] * 3):
        DISPATCH["big"](run, drv, pending, gen_big_case(rng, which))
    for k in range(2 * n_d10):
        case = gen_array_case(rng, tier, module=rng.choice(["binary", "brier"]), want_d10=True if k % 2 == 0 else "b")
        if case:
            DISPATCH["array"](run, drv, pending, case)
    for k in range(n_array):
        DISPATCH["array"](run, drv, pending, gen_array_case(rng, tier))
        if k % 200 == 199:
            flush_all(run, drv, pending)
    flush_all(run, drv, pending)
    for k in range(n_direct):
        DISPATCH["direct"](run, drv, pending, gen_direct_case(rng))
    flush_all(run, drv, pending)
    for k in range(n_public):
        case = gen_public_case(rng, seeded=rng.random() < 0.25)
        if case:
            DISPATCH["public"](run, drv, pending, case)
        if k % 200 == 199:
            flush_all(run, drv, pending)
    flush_all(run, drv, pending)
    # near ties: smooth forecasts, many simulations, every public test
    for test in PUBLIC:
        for idx in range(8 if quick else 120):
            # the first case of every test is a long verbose run (>= 100 simulations, progress printing on)
            case = gen_neartie_case(rng, test, tier, force_verbose=(idx == 0))
            for _ in range(20):
                if case or idx != 0:
                    break
                case = gen_neartie_case(rng, test, tier, force_verbose=True)
            if case:
                if case.get("verbose"):
                    run.count("public-verbose-long-run")
                DISPATCH["public"](run, drv, pending, case)
        flush_all(run, drv, pending)
    # determinism for every seed incl. 0, every public test
    for test in PUBLIC:
        for seed in [0, 1, 2 ** 32 - 1] + [rng.randrange(2 ** 32) for _ in range(1 if quick else 4)]:
            for _ in range(max(1, n_seed // 10)):
                case = None
                while case is None:
                    case = gen_public_case(rng, test=test, seeded=True)
                    if case and (case.get("rows") is not None or not sensitive(case)):
                        case = None
                case = dict(case, kind="seed", seed=seed, ambient_a=rng.randrange(2 ** 31), ambient_b=rng.randrange(2 ** 31),
                            burn=rng.randint(0, 5))
                DISPATCH["seed"](run, drv, pending, case)
    for seed in [0, 1, 2 ** 32 - 1] + [rng.randrange(2 ** 32) for _ in range(1 if quick else 4)]:
        for test in ("resampled_magnitude_test", "MLL_magnitude_test"):
            for _ in range(max(1, n_cat // 4)):
                DISPATCH["catseed"](run, drv, pending, dict(gen_catalog_seed_case(rng, seed), test=test))
    flush_all(run, drv, pending)
    # sanity of the determinism check itself: without a seed the ambient state shows (counted, no verdict)
    sens = 0
    for _ in range(5):
        case = None
        while case is None or case.get("rows") is not None or not sensitive(case):
            case = gen_public_case(rng, test="conditional_likelihood_test", seeded=True)
        fore, cat = build_public(case)
        mods = _mods()
        ks = []
        for amb in (1, 2):
            numpy.random.seed(amb)
            ks.append(result_key(mods["poisson"].conditional_likelihood_test(fore, cat, num_simulations=5, seed=None)))
        sens += ks[0] != ks[1]
    run.extra["unseeded_runs_differing_of_5"] = sens
    run.assumptions.append("bit-exactness of the sampling weights with Soft64 is reported (weights_not_bitexact); the "
                           "verdict rests on placements / counts / quantile / determinism")


def replay(run, payload):
    case = payload["case"]
    drv, pending = Driver(), []
    DISPATCH[case["kind"]](run, drv, pending, case)
    flush_all(run, drv, pending)
