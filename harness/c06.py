"""C06 — inverse-CDF simulation, count conservation, quantile score, determinism.

Correspondence of csep.core.{poisson,binomial,brier,catalog}_evaluations with Model/Sampler.lean + direct oracle.
The harness observes every call of the three `_simulate_catalog` functions from outside (the module attribute is
wrapped while a test runs; nothing in /repo is edited): number of events, the sampling weights the test built,
the random numbers and the returned array.  For the binary/Brier rejection loop the global
`numpy.random.uniform` is replaced by a feeder of a prepared stream while the call runs.
"""
import contextlib
import glob
import io
import json
import math
import os
from fractions import Fraction

import numpy

from .core import Driver, VERIF, flist, frac

LEVEL_TEXT = ("Proof: placement <=> F_(k-1) <= r < F_k on non-decreasing weights, the binary64 weights (sequential cumsum, "
              "division by their own last element) are non-decreasing with last weight exactly 1, a zero-rate (or masked) bin "
              "has an empty interval for every r, every r<1 is in range, counts are conserved, the rejection loop ends with "
              "exactly N distinct positive-rate cells (and can not end with fewer positive-rate cells: D10), quantile = "
              "#{<=}/n in [0,1], seed 0 applied, result independent of the ambient generator state; all for every rate "
              "array / draw / stream (induction, Soft64 rounding lemmas), tied to the code by bit-exact weight comparison and "
              "placement comparison on boundary-directed draws. Round 4: (i) numpy.searchsorted(side='right') is no longer taken by "
              "its specification: the branch-free binary search numpy runs is modelled and proved to return #{w <= r} on every "
              "non-decreasing array (bsearch_eq_searchRight), so every placement theorem holds for the algorithm; (ii) the random "
              "stream is no longer an input: MT19937 seeded like numpy.random.seed(int), the 53-bit doubles of rand / uniform(0,1) "
              "and numpy's multiplication-method Poisson sampler (mean < 10) are in the model; EVERY number the generator yields is "
              "proved to be a float64 in [0, 1-2^-53], hence the seeded conditional Poisson test is proved total with the prescribed "
              "count and no event in a zero-rate bin for EVERY seed (poisson_test_seeded_total), the seeded binary / Brier and L "
              "tests satisfy their count clauses whenever they return, and a whole session of calls on the global generator is "
              "deterministic from the first seeded call on (session_deterministic_after_seed). The seeded public tests are compared "
              "with the model given NOTHING but rates, observed counts and the seed. Round 6 prep: the L-test count clause is proved "
              "for ANY sampler of the number of events (l_test_seeded_spec_any_sampler), and numpy's PTRS Poisson sampler (means >= 10, "
              "Float layer, executable only) is in the model, so the seeded L-test is compared from the seed alone for every mean.")
LEVEL_NOTE = ("Modelled: weights (Soft64), binary search, add.at, count assertion, rejection loop, quantile, seed handling, MT19937 + "
              "random_sample + Poisson(mean<10, exp(-mean) supplied). Trusted: Soft64 = binary64 (validated every run), the model of "
              "numpy's generator and binary search (validated bit for bit against numpy every run: c06_mt, c06_bsearch on unsorted "
              "arrays; a disagreement is reported and the seed-only correspondence skipped, never a verdict), numpy's Poisson samplers "
              "(multiplication method and PTRS with its own log-gamma, Float layer: validated against RandomState.poisson every run), "
              "libm exp / log / sqrt, the test statistics (C05/C16; they enter through the "
              "quantile and through the harness-level reference statistic of the public-path oracle). Outside the property (derived-method "
              "hook, coordinator's ruling of round 7): WHICH derived public method of the forecast the tests call internally "
              "(spatial_counts() / magnitude_counts() vs summing forecast.data) - no forecast subclass overriding a derived method is "
              "generated, seeded C06_14 stays unreported; user catalog subclasses override only the basic data accessors.")
DESIGN_REF = "DESIGN.md §4 C06"
TECHNIQUE = "Lean 4 model (Soft64 binary64 on Rat + exact lists) with kernel-checked theorems; differential correspondence + exact oracle"

THEOREMS = ["Sampler.place_iff", "Sampler.last_weight_is_one", "Sampler.weights_monotone",
            "Sampler.weightsMasked_monotone", "Sampler.zero_rate_interval_empty", "Sampler.never_in_zero_rate_bin",
            "Sampler.never_in_masked_bin", "Sampler.in_range", "Sampler.count_conserved", "Sampler.simulate_total", "Sampler.simulated_zero_in_zero_rate_bin", "Sampler.binary_sim_consumes_prefix",
            "Sampler.binary_sim_distinct_count", "Sampler.binary_sim_needs_enough_cells", "Sampler.binary_sim_needs_drawable_cells", "Sampler.quantile_def",
            "Sampler.quantile_bounds", "Sampler.quantile_counts_ties", "Sampler.quantile_no_tolerance",
            "Sampler.seed_zero_applied",
            "Sampler.result_is_function", "Sampler.injected_result_is_function", "Sampler.rounding_monotone",
            "Sampler.fdiv_self_eq_one",
            # round 4 (Properties/C06_Chain.lean)
            "Sampler.simulate_is_bincount", "Sampler.simulate_entry_interval", "Sampler.simulate_entry_interval_weights",
            "Sampler.simulated_array_zero_in_zero_rate_bin", "Sampler.injected_test_total",
            "Sampler.poisson_test_prescribed_count", "Sampler.binary_sim_terminates_iff",
            "Sampler.binary_sim_exhausted_iff", "Sampler.hit_iff_draw_in_interval", "Sampler.testBinaryStream_spec",
            "Sampler.binary_test_prescribed_count",
            # round 4 deepening (Properties/C06_Search.lean, Properties/C06_Rng.lean)
            "SamplerSearch.narrow_inv", "SamplerSearch.bsearch_eq_searchRight", "SamplerSearch.searchsortedRight_eq_placements",
            "SamplerSearch.simulateBS_eq_simulate", "SamplerSearch.bsearch_place_iff",
            "SamplerSearch.bsearch_never_zero_rate_in_range",
            "SamplerRng.nextDouble_dyadic", "SamplerRng.uniform_unit_interval", "SamplerRng.uniform_is_float64",
            "SamplerRng.rand_spec", "SamplerRng.rowsFrom_spec", "SamplerRng.poisson_test_seeded_total",
            "SamplerRng.binary_test_seeded_spec", "SamplerRng.l_test_seeded_spec", "SamplerRng.l_test_seeded_spec_any_sampler",
            "SamplerRng.seeded_call_ignores_ambient",
            "SamplerRng.session_deterministic_after_seed"]
TRUSTED = ["Lean 4.33 kernel", "axioms: propext, Classical.choice, Quot.sound at most",
           "Soft64.fl64 is IEEE-754 binary64 round-to-nearest-even and numpy + / cumsum on float64 are that arithmetic "
           "(validated bit-exactly on every generated rate vector)",
           "numpy.searchsorted(side='right') runs the branch-free binary search of Model/SamplerSearch.lean (identified and re-validated on "
           "unsorted arrays every run); numpy.add.at adds 1 per index",
           "numpy.random legacy global generator = MT19937 with init_genrand seeding and 53-bit doubles as in Model/SamplerRng.lean "
           "(validated bit for bit every run); the Poisson samplers of Model/SamplerRng.lean `poissonFloat` (PTRS from mean 10 on) are "
           "validated against RandomState.poisson every run; libm exp / log / sqrt",
           "harness/c06.py generators, wrappers and comparison; driver parsing (Proto.lean)"]
RULE = ("rate vectors of 1..40 bins (1-D and 2-D) with leading / trailing / interior zeros, values 10^U(-12,3), decimal "
        "and equal rates; draws = 0, the smallest subnormal, every cumulative boundary and its two neighbours, midpoints, "
        "1-2^-53, random; 1..5 simulations; Poisson / binary / Brier array-level tests and the seven public tests with "
        "injected numbers, the rejection loop fed with a prepared stream; seeds {0,1,2^32-1,random} run twice from "
        "different ambient generator states incl. the two catalog magnitude tests; near-tie class: smooth forecasts "
        "(neighbouring bins differ by 10^U(-13,-5) relative, plateaus of exactly equal bins) with 1..3 observed events in "
        "the lowest / highest / a random bin and 20..400 simulations for all seven public tests, so that simulated "
        "statistics lie a few ulps .. 1e-5 relative above and below the observed one and on it; the quantile must be the "
        "exact fraction #{sim <= obs}/n of the RETURNED test_distribution; round 4: array-level rate / observed arrays in "
        "Fortran, transposed, sliced and reversed layouts and as int64, verbose runs of 100-125 simulations for every public "
        "test, whole array-level tests compared with the model computing the prescribed number itself; round 4b: seeds as Python int / "
        "numpy.int64 / uint32 / uint64, injected numbers in C / Fortran / strided layouts, num_simulations as numpy.int64, histories on "
        "one forecast + catalog object incl. the catalog losing events in place before the checked call (prescribed number recomputed "
        "from the case), every draw of the global generator logged (pass-through) so that the numbers are attributed to the simulations "
        "whatever the order / batching / entry point (uniform, random, random_sample, rand ...), public-path oracle: every entry of "
        "the returned distribution is the documented statistic of the inverse-CDF placement of its simulation's numbers (no private "
        "hook needed), finite simulated log-likelihoods (no event in a zero-rate bin); round 6 prep: zero rates spelled -0.0, subnormal "
        "rates, rates beyond 2^53, 129 / 257 bins for every driver in every run and 127..257 bins / events at random, public keyword "
        "arguments handed over positionally (order of the current signature), observed catalog as UCERF3Catalog (big-endian rows), "
        "array-level functions with their default verbose, caller-owned arrays (forecast array and the array it was built from, "
        "observed array / catalog rows, injected numbers, weights) byte-identical after every call; round 7: (h) forecast and catalog "
        "replaced by copy.copy / copy.deepcopy / a pickle image before the public test, (i) a rejected call (random_numbers of the "
        "wrong width) on the same objects before the judged call, (j) observed "
        "catalogs of a user subclass whose accessors present the events in time order, (k) numpy.errstate(divide/invalid='raise') "
        "around the judged call where the unchanged code computes no log(0) (all rates >= 1e-10, >= 1 event, float64). "
        "A case is non-trivial when a draw "
        "sits on or next to a cumulative boundary, a zero-rate bin exists, or a simulated statistic lies within 1e-4 "
        "relative of the observed one; distinct by (kind, rates, draws)")

D10_SIG = "binary-sim:active-cells-exceed-positive-rate-cells"
D10B_SIG = "binary-sim:active-cells-exceed-drawable-cells"
NEG_INF = Fraction(-10 ** 400)
ONE_MINUS = 1.0 - 2.0 ** -53


# ----------------------------------------------------------------------------- small helpers
def hx(xs):
    return [float(x).hex() for x in xs]


def unhx(xs):
    return [float.fromhex(x) for x in xs]


def bits(x):
    return numpy.float64(x).view(numpy.uint64).item()


def fr_stat(x):
    x = float(x)
    if x == -math.inf:
        return NEG_INF
    if x == math.inf:
        return -NEG_INF
    return Fraction(x)


class StreamExhausted(Exception):
    pass


class Feeder:
    """stands in for numpy.random.uniform(0, 1) while the rejection loop runs"""

    def __init__(self, stream):
        self.stream, self.pos = list(stream), 0

    def _next(self):
        if self.pos >= len(self.stream):
            raise StreamExhausted()
        v = self.stream[self.pos]
        self.pos += 1
        return v

    def __call__(self, low=0.0, high=1.0, size=None):
        """same interface as numpy.random.uniform: scalar or any `size`; numbers are taken from the stream in order
        (a batched draw consumes the same numbers as that many scalar draws), mapped to [low, high) like numpy does"""
        if size is None:
            shape, n = None, 1
        else:
            shape = (int(size),) if numpy.ndim(size) == 0 else tuple(int(k) for k in size)
            n = int(numpy.prod(shape)) if shape else 1
        if self.pos + n > len(self.stream):
            self.pos = len(self.stream)
            raise StreamExhausted()
        vals = numpy.array([self._next() for _ in range(n)], dtype=float)
        vals = low + (high - low) * vals
        if shape is None:
            return float(vals[0])
        return vals.reshape(shape)


UNIFORM_NAMES = ("uniform", "random", "random_sample", "ranf", "sample", "rand")


def _adapt(name, core):
    """`core(low, high, size)` behind the signature of numpy.random.<name>"""
    if name == "uniform":
        return lambda low=0.0, high=1.0, size=None: core(low, high, size)
    if name == "rand":
        return lambda *dims: core(0.0, 1.0, dims if dims else None)
    return lambda size=None: core(0.0, 1.0, size)


@contextlib.contextmanager
def _patched_uniforms(core_of):
    """replace every entry point of the legacy global generator that yields uniform numbers in [0,1) (uniform, random,
    random_sample, ranf, sample, rand): a rewrite that draws its uniforms through another of them behaves the same"""
    orig = {n: getattr(numpy.random, n) for n in UNIFORM_NAMES if hasattr(numpy.random, n)}
    for n, f in orig.items():
        setattr(numpy.random, n, _adapt(n, core_of(n, f)))
    try:
        yield
    finally:
        for n, f in orig.items():
            setattr(numpy.random, n, f)


@contextlib.contextmanager
def feed_uniform(stream):
    f = Feeder(stream)
    with _patched_uniforms(lambda name, orig: f):
        yield f


HELPER_MISSING = set()     # private helpers of the tree under test that are gone / re-shaped: direct cases skipped


def _sig_ok(fn, mod):
    """the private helper still takes (n, weights[, buffer], random_numbers=...)"""
    import inspect
    try:
        names = list(inspect.signature(fn).parameters)
    except (TypeError, ValueError):
        return False
    want = 3 if mod.__name__.endswith("brier_evaluations") else 4
    return len(names) == want and names[-1] == "random_numbers"


def private_fn(mod, name, params):
    """the private array-level function `name` of the tree under test, or None (counted) when it is gone / takes other arguments"""
    import inspect
    fn = getattr(mod, name, None)
    ok = callable(fn)
    if ok:
        try:
            have = set(inspect.signature(fn).parameters)
            ok = all(p in have for p in params)
        except (TypeError, ValueError):
            ok = False
    if not ok:
        HELPER_MISSING.add(mod.__name__.split(".")[-1] + "." + name)
        return None
    return fn


DRAWLOG = []      # every draw of the legacy global generator made while a public test runs: ("u", size, values) / ("p", lam, size, values)


@contextlib.contextmanager
def capped_uniform(cap=300000):
    """let numpy.random's uniform entry points (and numpy.random.poisson) work as usual - pass-through, the real global generator
    answers - but (a) stop a rejection loop that does not finish (a changed test may ask for more active cells than exist: it
    would draw forever) and (b) LOG what is drawn, in order, so that the oracle can attribute the numbers to the simulations
    whatever the order / batching in which the test draws them"""
    state = dict(n=0)
    del DRAWLOG[:]

    def core_of(name, orig):
        def core(low, high, size):
            state["n"] += 1
            if state["n"] > cap:
                raise StreamExhausted(f"more than {cap} uniform draws in one test: the rejection loop does not finish")
            if name == "uniform":
                out = orig(low, high, size)
            elif name == "rand":
                out = orig(*(size or ()))
            else:
                out = orig(size)
            if len(DRAWLOG) < 400000:
                DRAWLOG.append(("u", size if name != "uniform" or (low == 0 and high == 1) else ("scaled", low, high, size),
                                numpy.array(out, dtype=float).ravel().copy()))
            return out
        return core

    orig_p = numpy.random.poisson

    def poisson(lam=1.0, size=None):
        out = orig_p(lam, size)
        DRAWLOG.append(("p", lam, size, numpy.array(out).ravel().copy()))
        return out

    numpy.random.poisson = poisson
    try:
        with _patched_uniforms(core_of):
            yield state
    finally:
        numpy.random.poisson = orig_p


def replay_log_from_seed(seed, log):
    """None when the logged draws are exactly what the legacy generator yields after numpy.random.seed(seed) for the same
    sequence of calls (any order, any batching); else a text"""
    g = numpy.random.RandomState(seed)
    for k, e in enumerate(log):
        if e[0] == "p":
            ref = numpy.array(g.poisson(e[1], e[2])).ravel()
            got = e[3]
        else:
            if isinstance(e[1], tuple) and e[1] and e[1][0] == "scaled":
                return None if k == 0 else None     # uniform(low, high) with other bounds: not interpreted
            ref = numpy.array(g.random_sample(e[1])).ravel()
            got = e[2]
        if len(ref) != len(got) or any(bits(a) != bits(b) for a, b in zip(numpy.asarray(ref, dtype=float), numpy.asarray(got, dtype=float))):
            return (f"draw {k} of the test ({'poisson' if e[0] == 'p' else 'uniform'}) is not what the generator seeded with {seed} "
                    f"yields at that point")
    return None


def _mods():
    from csep.core import poisson_evaluations as pe, binomial_evaluations as be, brier_evaluations as br
    return dict(poisson=pe, binary=be, brier=br)


@contextlib.contextmanager
def capture(mod):
    """record every call of mod._simulate_catalog: (n, weights, random_numbers|None, result|exception name)"""
    class Rec(list):
        pass
    rec = Rec()
    rec.spans = []          # per recorded call: the slice of DRAWLOG drawn while the call ran
    rec.missing = False
    orig = getattr(mod, "_simulate_catalog", None)
    if orig is None or not callable(orig) or not _sig_ok(orig, mod):
        # the private helper this harness observes is gone or has another shape on the tree under test: nothing is
        # recorded, the public-path oracles (statistics of the model's catalogs, quantile, determinism) decide alone
        rec.missing = True
        HELPER_MISSING.add(mod.__name__.split(".")[-1] + "._simulate_catalog")
        yield rec
        return

    def wrap(*a, **k):
        n, w = a[0], a[1]
        rn = k.get("random_numbers", a[3] if len(a) > 3 else None)
        if mod.__name__.endswith("brier_evaluations"):
            rn = k.get("random_numbers", a[2] if len(a) > 2 else None)
        lo = len(DRAWLOG)
        try:
            out = orig(*a, **k)
        except StreamExhausted:
            rec.partial_w = numpy.array(w, dtype=float)      # the weights of a simulation that ran out of fed numbers
            raise
        except Exception as e:
            rec.spans.append((lo, len(DRAWLOG)))
            rec.append((int(n), numpy.array(w, dtype=float), None if rn is None else numpy.array(rn, dtype=float),
                        type(e).__name__))
            raise
        rec.spans.append((lo, len(DRAWLOG)))
        rec.append((int(n), numpy.array(w, dtype=float), None if rn is None else numpy.array(rn, dtype=float),
                    numpy.array(out).copy()))
        return out

    mod._simulate_catalog = wrap
    try:
        yield rec
    finally:
        mod._simulate_catalog = orig


# ----------------------------------------------------------------------------- generators
def gen_rates(rng, n, force_zero=None):
    style = rng.choice(["decades", "decades", "uniform", "decimal", "equal", "tiny-tail", "integers", "subeps", "subeps", "subnormal",
                        "huge"])
    out = []
    for i in range(n):
        if style == "decades":
            v = 10.0 ** rng.uniform(-12, 3)
        elif style == "uniform":
            v = rng.random()
        elif style == "decimal":
            v = rng.choice([0.1, 0.2, 0.3, 0.25, 0.5, 1.0, 3.0, 0.7, 1e-3])
        elif style == "equal":
            v = 0.1
        elif style == "integers":
            v = float(rng.choice([1, 1, 2, 3, 5, 10, 100, 1000]))
        elif style == "subeps":
            # positive rates at or far below 1e-8 (still with a non-empty float interval when >= ~1e-16 of the total)
            # next to ordinary rates
            v = rng.choice([10.0 ** rng.uniform(-1, 1), 10.0 ** rng.uniform(-13, -8), 10.0 ** rng.uniform(-13, -8), 1e-8, 1e-9,
                            10.0 ** rng.uniform(-300, -13)])
        elif style == "subnormal":
            # subnormal rates (multiples of 5e-324 below 2.2e-308) next to ordinary ones
            v = rng.choice([10.0 ** rng.uniform(-2, 1), rng.randint(1, 2 ** 40) * 5e-324, 5e-324, 2.2250738585072014e-308])
        elif style == "huge":
            # rates beyond 2^53 next to small ones (their float cumulative sum absorbs everything below half an ulp)
            v = rng.choice([10.0 ** rng.uniform(15.96, 18), float(2 ** 53), float(2 ** 53 + 2), 10.0 ** rng.uniform(-3, 2), 1.0])
        else:
            v = 10.0 ** rng.uniform(-1, 1) if i < max(1, n // 2) else 10.0 ** rng.uniform(-17, -13)
        out.append(v)
    zero = rng.random() < 0.75 if force_zero is None else force_zero
    if zero and n > 1:
        lead = rng.choice([0, 0, 1, 2])
        trail = rng.choice([0, 0, 1, 2])
        for i in range(min(lead, n - 1)):
            out[i] = 0.0
        for i in range(min(trail, n - 1)):
            out[n - 1 - i] = 0.0
        for i in range(n):
            if rng.random() < 0.2:
                out[i] = 0.0
    if not any(v > 0 for v in out):
        out[rng.randrange(n)] = 10.0 ** rng.uniform(-3, 1)
    if rng.random() < 0.25:
        out = [(-0.0 if v == 0.0 else v) for v in out]          # a zero rate spelled as NEGATIVE zero
    return out, style


PRECISION = dict(single=False, dt=float)
LOW = {"float32": numpy.float32, "float16": numpy.float16}


def set_precision(case):
    """low-precision forecasts (rate array of dtype float32 / float16): the library keeps the dtype, so cumulative rates and weights
    are numbers of that type; the reference weights are then computed the same way and tolerances are those of that precision"""
    PRECISION["dt"] = LOW.get(case.get("rdtype"), float)
    PRECISION["single"] = PRECISION["dt"] is not float
    return PRECISION["single"]


def _eps():
    return float(numpy.finfo(PRECISION["dt"]).eps)


def wtol(n):
    """how far sampling weights may be from the reference cumulative rates and still count as the cumulative rates up to rounding"""
    return (_eps() * max(n, 8) + 8 * _eps()) if PRECISION["single"] else 1e-9


def stat_tol():
    return 200 * _eps() if PRECISION["single"] else 1e-9


def ref_weights(rates, masked):
    dt = PRECISION["dt"]
    r = numpy.array(rates, dtype=dt)
    if masked:
        r = numpy.where(r <= 0, dt(0.0), r).astype(dt)
    c = numpy.cumsum(r)
    with numpy.errstate(all="ignore"):
        return (c / c[-1]).astype(float)


def boundary_draws(w):
    """candidate draws in [0,1): boundaries, their neighbours, midpoints, extremes"""
    c = [0.0, 5e-324, ONE_MINUS, 0.5, 1.0 - 2.0 ** -25, 1.0 - 2.0 ** -26, 1.0 - 2.0 ** -12, float(numpy.nextafter(numpy.float32(1.0), numpy.float32(0.0)))]
    prev = 0.0
    for x in sorted(set(float(v) for v in w)):
        low = []
        for dt in (numpy.float32, numpy.float16):
            # one ulp of the lower precision away, and LESS THAN HALF such an ulp away (rounds onto the boundary in that precision)
            u = float(numpy.spacing(dt(x)))
            low += [float(numpy.nextafter(dt(x), dt(-1.0))), float(numpy.nextafter(dt(x), dt(2.0))), x - 0.4 * u, x + 0.4 * u,
                    x - 0.01 * u]
        for v in [x, numpy.nextafter(x, -1.0), numpy.nextafter(x, 2.0), (prev + x) / 2] + low:
            v = float(v)
            if 0.0 <= v < 1.0:
                c.append(v)
        prev = x
    return c


def gen_row(rng, cands, n):
    return [rng.choice(cands) if rng.random() < 0.8 else rng.random() for _ in range(n)]


def is_boundary_case(w, rows):
    ws = set(float(v) for v in w)
    near = set()
    for x in ws:
        near.update((x, float(numpy.nextafter(x, -1.0)), float(numpy.nextafter(x, 2.0))))
    return any(float(r) in near for row in rows for r in row)


# ----------------------------------------------------------------------------- oracle on one recorded call
def oracle_call(rates, masked, call, expect_n, binary_loop=False):
    """returns None or a failure text; exact arithmetic on the implementation's own weights"""
    n, w, rn, out = call
    if isinstance(out, str):
        return f"_simulate_catalog raised {out}"
    if not all(math.isfinite(float(x)) for x in w):
        return "sampling weights are not finite numbers"
    if not all(math.isfinite(float(v)) for v in numpy.ravel(out)):
        return "simulated array holds non-finite entries"
    W = [Fraction(float(x)) for x in w]
    if len(W) != len(rates) or len(out) != len(rates):
        return "weights / result do not have the shape of the forecast"
    if any(W[i] > W[i + 1] for i in range(len(W) - 1)):
        return "sampling weights decrease"
    ref = ref_weights(rates, masked)
    if any(abs(float(a) - float(b)) > wtol(len(ref)) * max(abs(float(b)), 1e-300) + 1e-15 for a, b in zip(w, ref)):
        return ("sampling weights are not the normalised cumulative rates of this forecast (beyond rounding): "
                f"{[float(x) for x in w][:6]} vs {[float(x) for x in ref][:6]}")
    if n != expect_n:
        return f"simulated {n} events, prescribed {expect_n}"
    if sum(Fraction(float(v)) for v in out) != n:
        return f"array sums to {float(numpy.sum(out))}, not {n}"
    for k, (r, v) in enumerate(zip(rates, out)):
        if v != 0 and not (r > 0):
            return f"event in bin {k} of rate {r!r}"
        if v < 0 or v != int(v):
            return "array entry is not a count"
    if binary_loop and any(v not in (0, 1) for v in out):
        return "rejection loop produced a cell count other than 0/1"
    if rn is not None:
        cnt = [0] * len(W)
        for r in rn:
            R = Fraction(float(r))
            k = sum(1 for x in W if x <= R)
            if k >= len(W):
                return f"draw {float(r)!r} is beyond the last weight {float(w[-1])!r}"
            lo = W[k - 1] if k > 0 else Fraction(0)
            if not (lo <= R < W[k]):
                return f"draw {float(r)!r} not inside [F_{k - 1}, F_{k})"
            cnt[k] += 1
        if [int(v) for v in out] != cnt:
            return f"array {[int(v) for v in out]} differs from inverse-CDF placement {cnt}"
    return None


def quantile_oracle(qs, obs, sims, nsim):
    if len(sims) != nsim:
        return f"{len(sims)} simulated statistics for {nsim} simulations"
    if any(math.isnan(float(s)) for s in sims) or math.isnan(float(obs)):
        return None
    k = sum(1 for s in sims if fr_stat(s) <= fr_stat(obs))
    if float(qs) != k / nsim:
        return f"quantile {float(qs)!r} is not {k}/{nsim}"
    if not (0.0 <= float(qs) <= 1.0):
        return "quantile outside [0,1]"
    return None


# ----------------------------------------------------------------------------- memory layout / dtype of the arrays handed to the tests
def with_layout(a, layout):
    """an array equal to `a` element by element (same shape, same logical C order) with another memory layout"""
    a = numpy.asarray(a)
    if layout == "C" or a.ndim != 2:
        return a.copy()
    if layout == "F":
        out = numpy.asfortranarray(a.copy())
    elif layout == "T":
        out = numpy.ascontiguousarray(a.T).T
    elif layout == "slice":
        big = numpy.full((2 * a.shape[0] + 1, a.shape[1] + 2), 777, dtype=a.dtype)
        big[1::2, 1:a.shape[1] + 1] = a
        out = big[1::2, 1:a.shape[1] + 1]
    else:
        out = a[::-1, ::-1].copy()[::-1, ::-1]
    assert out.shape == a.shape and numpy.array_equal(out, a)
    return out


# ----------------------------------------------------------------------------- array-level case
def n_active(obs):
    return len([v for v in obs if v != 0])


def n_positive(rates):
    return len([v for v in rates if v > 0])


def drawable(rates, masked=True):
    """indices of the cells whose float interval [F_(k-1), F_k) is non-empty (reference weights)"""
    w = ref_weights(rates, masked)
    return [i for i in range(len(w)) if float(w[i]) > (float(w[i - 1]) if i else 0.0)]


def infeasible(run, case, rates, expect_n):
    """D10 / D10b: the rejection loop can not terminate; detected structurally. Returns True when infeasible."""
    if expect_n > n_positive(rates):
        run.count("d10-structural")
        run.oracle_failure(case, f"{expect_n} observed active cells but only {n_positive(rates)} positive-rate cells: "
                                 "the rejection loop of the binary/Brier simulation can not terminate "
                                 "(with injected numbers two events must share a cell)", signature=D10_SIG)
        return True
    nd = len(drawable(rates))
    if expect_n > nd:
        run.count("d10b-structural")
        run.oracle_failure(case, f"{expect_n} observed active cells but only {nd} cells with a non-empty float interval "
                                 f"({n_positive(rates)} positive rates, some absorbed by the float cumulative sum): the "
                                 "rejection loop can not terminate", signature=D10B_SIG)
        return True
    return False


def do_array(run, drv, pending, case):
    """case: kind=array, module, rates(hex), shape, obs, rows(hex)|None, stream(hex)|None, normalize"""
    mods = _mods()
    module = case["module"]
    mod = mods[module]
    rates = unhx(case["rates"])
    shape = tuple(case["shape"])
    obs = [int(v) for v in case["obs"]]
    masked = module != "poisson"
    rows = None if case.get("rows") is None else [unhx(r) for r in case["rows"]]
    stream = None if case.get("stream") is None else unhx(case["stream"])
    nsim = case["nsim"]
    expect_n = sum(obs) if module == "poisson" else n_active(obs)
    set_precision(case)
    w_ref = ref_weights(rates, masked)
    nontriv = (tuple(case["rates"]), json.dumps(case.get("rows") or case.get("stream"))) if (
        any(v <= 0 for v in rates) or is_boundary_case(w_ref, rows or [stream or []])) else None
    run.case(case, nontriv)
    run.count(f"array-{module}-{'injected' if rows is not None else 'stream'}")
    # D10 / D10b: structural detection, the implementation is never called without injected numbers
    if masked and infeasible(run, case, rates, expect_n):
        if rows is None:
            if not PRECISION["single"]:
                i = drv.ask(f"c06_rejm {flist(rates)} {expect_n} {flist(stream)}")
                pending.append(("d10", case, i, None))
            return
        # with injected numbers the call is safe (no loop): fall through
    # round 4: the same numbers in another memory layout / dtype (the tests flatten with .ravel(): logical C order)
    F = numpy.array(rates, dtype=float).reshape(shape)
    if case.get("rdtype") == "int64" and all(float(v).is_integer() for v in rates):
        F = F.astype(numpy.int64)
    if case.get("rdtype") in LOW:
        F = F.astype(LOW[case["rdtype"]])
        if not numpy.array_equal(F.astype(float).ravel(), numpy.array(rates)):
            raise RuntimeError("low-precision case with rates that are not values of that precision")
        run.count(f"low-precision-forecast:array:{case['rdtype']}")
    F = with_layout(F, case.get("layout", "C"))
    O = with_layout(numpy.array(obs, dtype=float if case.get("odtype", "float") == "float" else numpy.int64).reshape(shape),
                    case.get("olayout", "C"))
    run.count(f"array-layout-{case.get('layout', 'C')}-{case.get('rdtype', 'float64')}-obs-{case.get('odtype', 'float')}")
    R = None if rows is None else rn_layout(numpy.array(rows, dtype=float).reshape(nsim, -1), case.get("rnlayout"))
    if R is not None:
        run.count(f"injected-numbers-layout-{case.get('rnlayout', 'C')}")
    fn = dict(poisson="_poisson_likelihood_test", binary="_binary_likelihood_test", brier="_brier_score_test")[module]
    kw = dict(num_simulations=numpy.int64(nsim) if case.get("nsim_form") == "numpy.int64" else nsim, random_numbers=R, seed=None,
              verbose=False)
    if case.get("verbose_form") == "default":
        del kw["verbose"]                     # the array-level functions print progress by default (every 100 simulations)
    owned = snap(F, O, R)
    if module != "brier":
        kw.update(use_observed_counts=True, normalize_likelihood=bool(case.get("normalize", False)))
    exc, res, consumed = None, None, None
    if private_fn(mod, fn, ["forecast_data", "observed_data", "num_simulations", "random_numbers", "seed", "verbose"] if module == "brier" else
                  ["forecast_data", "observed_data", "num_simulations", "random_numbers", "seed", "verbose", "use_observed_counts",
                   "normalize_likelihood"]) is None:
        run.count(f"helper-missing:{module}.{fn}")
        return
    with capture(mod) as rec:
        try:
            if rows is None:
                with feed_uniform(stream) as fd:
                    try:
                        res = getattr(mod, fn)(F, O, **kw)
                    finally:
                        consumed = fd.pos
            else:
                res = getattr(mod, fn)(F, O, **kw)
        except StreamExhausted:
            exc = "exhausted"
        except Exception as e:
            exc = type(e).__name__
    hook_check(run, rec, len(rates), module)
    touched = changed(owned, ["forecast array", "observed array", "injected random numbers"], F, O, R)
    if touched:
        run.oracle_failure(case, f"{fn} modified the caller's {touched} (a later call on the same arrays no longer sees the same "
                                 "forecast / catalog / numbers)")
    if exc == "exhausted":
        run.count("stream-exhausted")
    elif exc is not None:
        run.oracle_failure(case, f"{fn} raised {exc} on valid rates and draws in [0,1)")
    fail = None
    if exc is None and res is not None:
        # public-path oracle on the returned distribution (no private hook): statistic of the placement of the numbers
        from types import SimpleNamespace
        fail = public_stat_oracle(run, case, module, ("space" if case.get("normalize") else "cellmag") if module == "poisson" else "cellmag",
                                  True, rates, numpy.array(obs, dtype=float), None, rows, None, nsim,
                                  SimpleNamespace(test_distribution=res[2]), fed_stream=stream)
    for idx, call in enumerate(rec):
        fail = fail or oracle_call(rates, masked, call, expect_n, binary_loop=(masked and rows is None))
        if rows is not None and not isinstance(call[3], str):
            if call[2] is None or [bits(v) for v in call[2]] != [bits(v) for v in rows[idx]]:
                fail = fail or "the injected random numbers of this simulation were not the ones used"
    if exc is None:
        if len(rec) == 0 and not rec.missing:
            # the private helper exists but this driver never calls it (a rewrite that simulates inline): nothing recorded at the
            # hook; the public-path oracle above and the quantile oracle below carry the clause
            run.count(f"helper-not-called:{module}._simulate_catalog")
        elif len(rec) != nsim and not rec.missing:
            fail = fail or f"{len(rec)} catalogs simulated for {nsim} simulations"
        qs, ob, sims = res
        fail = fail or quantile_oracle(qs, ob, sims, nsim)
    if fail:
        run.oracle_failure(case, fail)
    # correspondence
    if rec.missing or (exc is None and len(rec) == 0):
        # the hook is absent, or present but never called (inline simulation): nothing to hand to the per-call models
        run.count(f"helper-missing:{module}._simulate_catalog" if rec.missing else f"helper-not-called:{module}._simulate_catalog:model-skipped")
        if exc is None and res is not None:
            qs, ob, sims = res
            if not (any(math.isnan(float(s)) for s in sims) or math.isnan(float(ob))):
                i = drv.ask(f"c06_quantile {flist([fr_stat(s) for s in sims])} {frac(fr_stat(ob))}")
                pending.append(("quantile", case, i, (float(qs), nsim)))
        return
    if rec:
        w_impl = rec[0][1]
        run.extra["weights_compared"] = run.extra.get("weights_compared", 0) + 1
    obstxt = ",".join(str(int(v)) for v in obs) if obs else "-"
    if rows is not None:
        for idx, call in enumerate(rec):
            i = drv.ask(f"c06_run {'m' if masked else 'p'} {flist(rates)} {flist(rows[idx])}")
            pending.append(("run", case, i, call))
            ask_on_impl_weights(drv, pending, case, call)
        # the whole injected test: the prescribed number (sum(obs) / number of active cells) is computed by the model
        rowtxt = ";".join(flist(r) for r in rows) if rows else "-"
        if rows and all(len(r) for r in rows) and not weights_bitexact(rates, masked, rec):
            run.count("whole-test-model-skipped:weights-not-bitexact")      # the per-call placement model on the own weights decides
        elif rows and all(len(r) for r in rows):
            i = drv.ask(f"c06_test {'m' if masked else 'p'} {flist(rates)} {obstxt} {rowtxt}")
            pending.append(("test", case, i, (rec, exc)))
    else:
        # the whole stream: simulations consume it one after another; the number of active cells to reach is computed
        # by the model from the observed array
        if not weights_bitexact(rates, masked, rec):
            run.count("whole-test-model-skipped:weights-not-bitexact")
            for idx, call in enumerate(rec):
                if not isinstance(call[3], str) and idx == 0:
                    # first simulation: the rejection loop of the model on the implementation's own weights
                    i = drv.ask(f"c06_rej {flist(call[1])} {expect_n} {flist(stream)}")
                    pending.append(("rej-seeded", case, i, [int(v) for v in call[3]]))
        else:
            i = drv.ask(f"c06_bintest {flist(rates)} {obstxt} {nsim} {flist(stream)}")
            pending.append(("chain", case, i, (rec, len(stream), consumed, exc)))
    if exc is None and res is not None:
        qs, ob, sims = res
        if not (any(math.isnan(float(s)) for s in sims) or math.isnan(float(ob))):
            i = drv.ask(f"c06_quantile {flist([fr_stat(s) for s in sims])} {frac(fr_stat(ob))}")
            pending.append(("quantile", case, i, (float(qs), nsim)))


def hook_check(run, rec, nbins, module):
    """the recorded calls of the private sampler are interpreted only when they have the shape this harness knows (weights and
    result over ALL bins of the forecast). A tree that calls its private helper with other arrays (e.g. over the support of
    the forecast only) is judged through the public path alone - the call shape of a private helper is not part of the property."""
    if rec.missing:
        return
    for c in rec:
        if len(numpy.ravel(c[1])) != nbins or (not isinstance(c[3], str) and len(numpy.ravel(c[3])) != nbins):
            rec.missing = True
            del rec[:]
            del rec.spans[:]
            HELPER_MISSING.add(module + "_evaluations._simulate_catalog (called with arrays of another shape)")
            run.count(f"helper-other-call-shape:{module}._simulate_catalog")
            return


def ask_on_impl_weights(drv, pending, case, call):
    """the exact-layer model (`Sampler.simulate`: searchsorted right + add.at) on the weights the IMPLEMENTATION built: decides
    when those weights are not bit-identical to the Soft64 weights (another, equally legitimate rounding of the cumulative rates)"""
    n, w, rn, res = call
    if rn is None or isinstance(res, str) or not all(math.isfinite(float(x)) for x in w):
        return
    j = drv.ask(f"c06_sim {flist(w)} {flist(rn)}")
    pending[-1] = pending[-1] + (j,)


def weights_bitexact(rates, masked, rec):
    """the implementation's sampling weights are the reference float computation (cumsum, division by the last element)"""
    if PRECISION["single"]:
        return False              # the Lean weights are the float64 computation; a float32 forecast is judged on its own weights
    ref = ref_weights(rates, masked)
    ws = [r[1] for r in rec] + ([rec.partial_w] if getattr(rec, "partial_w", None) is not None else [])
    return all(len(w) == len(ref) and all(bits(a) == bits(b) for a, b in zip(w, ref)) for w in ws)


def parse_run(line):
    ws, pl, arr = line.split("|")
    W = [] if ws == "-" else [Fraction(x) for x in ws.split(",")]
    P = [] if pl == "-" else [int(x) for x in pl.split(",")]
    A = arr if arr == "index-error" else ([] if arr == "-" else [int(x) for x in arr.split(",")])
    return W, P, A


def parse_rej(line):
    t = line.split(" ")
    if t[0] == "done":
        return "done", ([] if t[1] == "-" else [int(x) for x in t[1].split(",")]), int(t[2])
    return t[0], None, None


def _flush_item(run, out, kind, case, i, data, j=None):
    if kind == "run":
        n, w, rn, res = data
        W, P, A = parse_run(out[i])
        exact = [Fraction(float(x)) for x in w] == W
        if not exact:
            run.count("weights-not-bitexact")
            run.extra["weights_not_bitexact"] = run.extra.get("weights_not_bitexact", 0) + 1
        else:
            run.count("weights-bitexact")
        impl = res if isinstance(res, str) else [int(v) for v in res]
        model = "IndexError" if A == "index-error" else A
        if not exact and j is not None:
            # other rounding of the cumulative rates: the placement model on the implementation's own weights decides
            model = "IndexError" if out[j] == "index-error" else ([] if out[j] == "-" else [int(x) for x in out[j].split(",")])
            run.count("placement-model-on-implementation-weights")
        if impl != model and (exact or j is not None):
            run.mismatch(case, dict(array=impl), dict(array=model, placements=P))
    elif kind == "chain":
        rec, nstream, consumed, exc = data
        t = out[i].split(" ")
        st, rest = t[0], int(t[2])
        arrs = [] if t[1] == "-" else [[] if a == "-" else [int(x) for x in a.split(",")] for a in t[1].split(";")]
        impl_arrs = [r[3] if isinstance(r[3], str) else [int(v) for v in r[3]] for r in rec]
        impl_st = "ok" if exc is None else ("exhausted" if exc == "exhausted" else exc)
        impl = dict(status=impl_st, arrays=impl_arrs, consumed=consumed if exc is None else None)
        model = dict(status=st, arrays=arrs, consumed=(nstream - rest) if st == "ok" else None)
        if impl != model:
            run.mismatch(case, impl, model)
    elif kind == "chain-seeded":
        rec = data
        t = out[i].split(" ")
        if t[0] != "ok":
            run.count("default-path-stream-too-short")
        else:
            arrs = [] if t[1] == "-" else [[] if a == "-" else [int(x) for x in a.split(",")] for a in t[1].split(";")]
            impl_arrs = [r[3] if isinstance(r[3], str) else [int(v) for v in r[3]] for r in rec]
            if not rec:
                run.count("helper-not-called:seed-stream-model-skipped")      # nothing was recorded at the private hook
            elif impl_arrs != arrs:
                run.mismatch(case, dict(simulated_catalogs=impl_arrs), dict(simulated_catalogs_from_seed_stream=arrs))
    elif kind in ("seeded-model", "seeded-model-m"):
        if out[i] == "not-finished":
            run.count("seed-only-model-stream-too-short")
        else:
            model = out[i] if out[i] == "exception" else (
                [] if out[i] == "-" else [[] if a == "-" else [int(x) for x in a.split(",")] for a in out[i].split(";")])
            if data != model:
                run.mismatch(case, dict(simulated_catalogs=data), dict(simulated_catalogs_from_seed_alone=model))
    elif kind == "seeded-model-l":
        impl, impl_n, ref_n = data
        if out[i] == "exception":
            run.count("seed-only-model-l-test-no-result")
        else:
            pairs = [] if out[i] == "-" else [a.split(":") for a in out[i].split(";")]
            model_n = [int(a[0]) for a in pairs]
            model = [[] if a[1] == "-" else [int(x) for x in a[1].split(",")] for a in pairs]
            if model_n != ref_n:
                run.count("seed-only-model-poisson-numbers-differ-from-numpy")   # trusted base (libm exp), no verdict
            elif impl != model or impl_n != model_n:
                run.mismatch(case, dict(events=impl_n, simulated_catalogs=impl),
                             dict(events=model_n, simulated_catalogs_from_seed_alone=model))
    elif kind == "bsearch":
        if [int(v) for v in data] != ([] if out[i] == "-" else [int(x) for x in out[i].split(",")]):
            run.count("bsearch-algorithm-differs-from-numpy")                    # trusted base, no verdict
            run.extra["bsearch_algorithm_differs"] = run.extra.get("bsearch_algorithm_differs", 0) + 1
        else:
            run.count("bsearch-algorithm-agrees")
    elif kind == "rej-seeded":
        st, arr, rest = parse_rej(out[i])
        if st != "done" or arr != data:
            run.mismatch(case, dict(simulated_catalog=data), dict(status=st, rejection_loop_on_the_numbers_drawn=arr))
    elif kind == "test":
        rec, exc = data
        impl = "exception" if exc is not None else [[int(v) for v in r[3]] for r in rec]
        model = out[i] if out[i] == "exception" else (
            [] if out[i] == "-" else [[] if a == "-" else [int(x) for x in a.split(",")] for a in out[i].split(";")])
        if impl != model:
            run.mismatch(case, dict(simulated_catalogs=impl), dict(simulated_catalogs=model))
    elif kind == "d10":
        st, arr, rest = parse_rej(out[i])
        if st != "exhausted":
            run.mismatch(case, "can not terminate", dict(status=st, array=arr))
    elif kind == "weights":
        W, _, _ = parse_run(out[i])
        if [Fraction(float(x)) for x in data[1]] != W:
            run.count("weights-not-bitexact")
            run.extra["weights_not_bitexact"] = run.extra.get("weights_not_bitexact", 0) + 1
        else:
            run.count("weights-bitexact")
    elif kind == "seedflag":
        if out[i] != "true":
            run.mismatch(case, "seed applied", out[i])
    elif kind == "quantile":
        q, nsim = data
        k, m = out[i].split(":")
        if int(m) != nsim or q != int(k) / int(m):
            run.mismatch(case, dict(quantile=q), dict(quantile=out[i]))


def flush(run, drv, pending):
    out = drv.run()
    drv.lines.clear()
    for item in pending:
        kind, case, i, data = item[:4]
        try:
            _flush_item(run, out, kind, case, i, data, *(item[4:5]))
        except (KeyboardInterrupt, SystemExit):
            raise
        except Exception as e:
            run.oracle_failure(case, f"output of the implementation could not be compared with the model "
                                     f"({type(e).__name__}: {str(e)[:200]})")
    pending.clear()


def gen_array_case(rng, tier, module=None, want_d10=False, force_n=None):
    module = module or rng.choice(["poisson", "poisson", "binary", "brier"])
    masked = module != "poisson"
    n = rng.choice([1, 2, 3, 4, 5, 6, 8, 12, 20, 40])
    if force_n:
        n = force_n
    elif not want_d10 and rng.random() < 0.02:
        n = rng.choice([7, 8, 9, 127, 128, 129, 130, 136, 256, 257])      # block boundaries of numpy's pairwise summation
    two_d = n >= 4 and n % 2 == 0 and rng.random() < 0.5
    shape = [n // 2, 2] if two_d else [n]
    if module == "brier" and not two_d:
        shape = [n, 1]
    rates, style = gen_rates(rng, n)
    single = (not want_d10) and style not in ("subnormal", "huge", "integers") and rng.random() < 0.15
    lowdt = None
    if single:
        # a LOW-PRECISION forecast: the rates are float32 (float16: only styles inside its range) numbers, the library's weights keep the dtype
        lowdt = "float16" if style in ("uniform", "decimal", "equal") and rng.random() < 0.4 else "float32"
        rates = [float(LOW[lowdt](v)) for v in rates]
        if not any(v > 0 for v in rates):
            rates[0] = 0.5
    set_precision(dict(rdtype=lowdt))
    nsim = rng.randint(1, 5)
    pos = [i for i, v in enumerate(rates) if v > 0]
    obs = [0] * n
    if want_d10 == "b":
        # D10b: positive rates absorbed by the float cumulative sum; active cells > drawable cells, <= positive cells
        n = rng.choice([2, 3, 4, 6])
        shape = [n, 1] if module == "brier" else [n]
        rates = [0.0] * n
        big = rng.sample(range(n), rng.randint(1, n - 1))
        for i in range(n):
            rates[i] = 10.0 ** rng.uniform(-1, 1) if i in big else rng.choice([0.0, 10.0 ** rng.uniform(-20, -18)])
        if rates[0] == 0.0 or 0 not in big:
            rates[0] = 10.0 ** rng.uniform(-1, 1)   # a large first rate absorbs every tiny one after it
        pos = [i for i, v in enumerate(rates) if v > 0]
        nd = len(drawable(rates))
        if not (nd < len(pos)):
            return None
        obs = [0] * n
        for i in rng.sample(pos, rng.randint(nd + 1, len(pos))):
            obs[i] = 1
        style = "absorbed"
    elif want_d10:
        # more active cells than positive-rate cells
        k = min(n, len(pos) + rng.randint(1, 2))
        if k <= len(pos):
            rates = [0.0] * n
            rates[0] = 0.5
            pos = [0]
            k = min(n, 2)
        if k <= len(pos):  # n == 1: impossible to build
            return None
        for i in rng.sample(range(n), k):
            obs[i] = rng.randint(1, 3)
    else:
        if module == "poisson":
            ntot = rng.choice([0, 1, 2, 3, 5, 8, 12] + ([127, 128, 129, 255, 256, 257, 600] if rng.random() < 0.04 else []))
            for _ in range(ntot):
                obs[rng.randrange(n)] += 1
        else:
            k = rng.randint(0, min(len(pos), 6))
            if rng.random() < 0.9:
                k = min(k, len(drawable(rates)))   # mostly feasible; the rest exercises D10b
            # observed active cells may sit in zero-rate cells as long as their number is feasible
            for i in rng.sample(range(n), k):
                obs[i] = rng.randint(1, 3)
    w = ref_weights(rates, masked)
    cands = boundary_draws(w)
    ev = sum(obs) if module == "poisson" else n_active(obs)
    injected = want_d10 and rng.random() < 0.3 or (not want_d10 and (module == "poisson" or rng.random() < 0.5))
    case = dict(kind="array", module=module, rates=hx(rates), shape=shape, obs=obs, nsim=nsim, style=style,
                normalize=rng.random() < 0.5)
    if len(shape) == 2:
        case["layout"] = rng.choice(["C", "C", "F", "T", "slice", "rev"])
        case["olayout"] = rng.choice(["C", "C", "C", "F", "T"])
    case["odtype"] = rng.choice(["float", "float", "int"])
    case["rdtype"] = lowdt if single else ("int64" if style == "integers" and rng.random() < 0.6 else "float64")
    if injected:
        case["rows"] = [hx(gen_row(rng, cands, ev)) for _ in range(nsim)]
        case["stream"] = None
        case["rnlayout"] = rng.choice(["C", "C", "F", "strided"])
        case["nsim_form"] = rng.choice(["int", "int", "numpy.int64"])
        case["verbose_form"] = rng.choice(["False", "False", "default"])
    else:
        # a stream that lets the loop finish: boundary-directed numbers first, then the lower end of every
        # positive cell (guarantees termination when feasible), then random numbers
        stream = gen_row(rng, cands, rng.randint(0, 3 * ev + 2))
        for _ in range(nsim):
            lows = [0.0 if i == 0 else float(w[i - 1]) for i in drawable(rates)]
            rng.shuffle(lows)
            stream += gen_row(rng, cands, rng.randint(0, 4)) + lows
        if rng.random() < 0.15 and ev > 0:
            stream = stream[:rng.randint(0, max(0, ev - 1))]  # too short: both sides must report exhaustion
        case["rows"] = None
        case["stream"] = hx(stream)
    return case


# ----------------------------------------------------------------------------- sessions on sibling forecasts
def sibling_rates(rng, rates):
    """another forecast on the same grid with the same dtype, first rate, last rate and (exactly) the same total: the interior
    entries permuted / one interior bin's rate moved to another. Values are dyadic so that sums are exact in every order."""
    n = len(rates)
    if n < 4:
        return None
    inner = list(rates[1:-1])
    for _ in range(20):
        cand = list(inner)
        if rng.random() < 0.5:
            rng.shuffle(cand)
        else:
            i, j = rng.sample(range(len(cand)), 2)
            if cand[i] > 0:
                cand[j] += cand[i]
                cand[i] = 0.0
        if cand != inner:
            return [rates[0]] + cand + [rates[-1]]
    return None


def gen_session_case(rng, tier):
    module = rng.choice(["poisson", "binary", "brier"])
    n = rng.choice([4, 5, 6, 8, 12])
    vals = [0.0, 0.0, 0.125, 0.25, 0.5, 1.0, 2.0, 3.5]
    rates = [rng.choice(vals[2:])] + [rng.choice(vals) for _ in range(n - 2)] + [rng.choice(vals[2:])]
    if len(set(rates[1:-1])) < 2:
        rates[1], rates[2] = 0.0, 2.0
    forecasts = [rates]
    for _ in range(rng.randint(1, 2)):
        sib = sibling_rates(rng, forecasts[-1])
        if sib:
            forecasts.append(sib)
    order = list(range(len(forecasts))) + [0]                   # A, B, (C,) A again
    steps = []
    for k in order:
        r = forecasts[k]
        masked = module != "poisson"
        shape = [n, 1] if module == "brier" else ([n // 2, 2] if n % 2 == 0 and rng.random() < 0.4 else [n])
        pos = [i for i, v in enumerate(r) if v > 0]
        obs = [0] * n
        if module == "poisson":
            for _ in range(rng.choice([1, 2, 3, 5])):
                obs[rng.randrange(n)] += 1
            ev = sum(obs)
        else:
            for i in rng.sample(pos, rng.randint(1, max(1, min(len(pos), 3)))):
                obs[i] = rng.randint(1, 2)
            ev = n_active(obs)
        nsim = rng.randint(1, 3)
        w = ref_weights(r, masked)
        cands = boundary_draws(w)
        step = dict(kind="array", module=module, rates=hx(r), shape=shape, obs=obs, nsim=nsim, style="session", normalize=rng.random() < 0.5,
                    odtype="float", rdtype="float64")
        if module == "poisson" or rng.random() < 0.5:
            step["rows"] = [hx(gen_row(rng, cands, ev)) for _ in range(nsim)]
            step["stream"] = None
        else:
            stream = []
            for _ in range(nsim):
                lows = [0.0 if i == 0 else float(w[i - 1]) for i in drawable(r)]
                rng.shuffle(lows)
                stream += gen_row(rng, cands, rng.randint(0, 3)) + lows
            step["rows"] = None
            step["stream"] = hx(stream)
        steps.append(step)
    return dict(kind="session", module=module, steps=steps)


def do_session(run, drv, pending, case):
    """several evaluations in ONE process on DIFFERENT forecasts that share grid, dtype, total, first and last rate: every call is
    judged like a first call (exact oracle on its own rates, whole-test model, public-path oracle) - state kept between
    evaluations of different forecasts shows as a deviation of a later step; the whole session is the replay"""
    run.count("session-sibling-forecasts")
    for k, step in enumerate(case["steps"]):
        proxy = _SessionRun(run, case, k)
        do_array(proxy, drv, pending, step)
        flush(proxy, drv, pending)


class _SessionRun:
    """forwards to the real run object, but reports failures with the WHOLE session as the replay case"""

    def __init__(self, run, session, k):
        self._run, self._session, self._k = run, session, k

    def __getattr__(self, name):
        return getattr(self._run, name)

    def case(self, case, key=None):
        return self._run.case(dict(self._session, at_step=self._k), None if key is None else ("session", self._k) + tuple(key))

    def oracle_failure(self, case, detail, signature=None):
        return self._run.oracle_failure(self._session, f"session step {self._k}: {detail}", signature=signature)

    def mismatch(self, case, impl, model, oracle_ok=True):
        return self._run.mismatch(dict(self._session, at_step=self._k), impl, model, oracle_ok)


# ----------------------------------------------------------------------------- public tests
COPY_UNSUPPORTED = set()


def build_public(case):
    from csep.core.regions import CartesianGrid2D
    from csep.core.forecasts import GriddedForecast
    from csep.core.catalogs import CSEPCatalog
    nx, ny, nm = case["nx"], case["ny"], case["nm"]
    origins = numpy.array([[0.1 * i, 0.1 * j] for j in range(ny) for i in range(nx)])
    mags = numpy.array([4.0 + k for k in range(nm)])
    region = CartesianGrid2D.from_origins(origins, dh=0.1, magnitudes=mags)
    rates = numpy.array(unhx(case["rates"]), dtype=LOW.get(case.get("rdtype"), float)).reshape(nx * ny, nm)
    if case.get("rdtype") == "int64":
        rates = rates.astype(numpy.int64)
    fore = GriddedForecast(data=rates, region=region, magnitudes=mags, name="f")
    ev = []
    for t, (cell, mb) in enumerate(case["events"]):
        lon, lat = origins[cell][0] + 0.05, origins[cell][1] + 0.05
        ev.append((str(t), 1000 * t, lat, lon, 10.0, 4.5 + mb))
    if case.get("cat_class") == "UCERF3Catalog":
        # the other concrete catalog class (big-endian structured rows with further columns)
        from csep.core.catalogs import UCERF3Catalog
        a = numpy.zeros(len(ev), dtype=UCERF3Catalog._get_catalog_dtype(3))
        for k, e in enumerate(ev):
            a[k]["origin_time"], a[k]["latitude"], a[k]["longitude"], a[k]["depth"], a[k]["magnitude"] = e[1], e[2], e[3], e[4], e[5]
        cat = UCERF3Catalog(data=a, region=region, name="c")
    else:
        cat = CSEPCatalog(data=ev, region=region, name="c")
    if case.get("cat_class") == "accessor-order":
        # (j) a USER SUBCLASS of CSEPCatalog whose documented accessors present the events in TIME order, not in storage order
        rows = list(ev)
        rot = len(rows) // 2
        rows = rows[rot:] + rows[:rot]                         # storage order differs from time order

        class TimeOrderCatalog(CSEPCatalog):
            def _order(self):
                return numpy.argsort(self.catalog["origin_time"], kind="stable")

            def get_longitudes(self):
                return self.catalog["longitude"][self._order()]

            def get_latitudes(self):
                return self.catalog["latitude"][self._order()]

            def get_magnitudes(self):
                return self.catalog["magnitude"][self._order()]

            def get_epoch_times(self):
                return self.catalog["origin_time"][self._order()]
        cat = TimeOrderCatalog(data=rows, region=region, name="c")
    # (h) COPIES BEFORE USE: the objects handed to the test are images of the ones built here
    form = case.get("copy_form")
    if form:
        import copy
        import pickle
        try:
            if form == "copy":
                fore, cat = copy.copy(fore), copy.copy(cat)
            elif form == "deepcopy":
                fore, cat = copy.deepcopy(fore), copy.deepcopy(cat)
            elif form == "pickle" and case.get("cat_class") in (None, "UCERF3Catalog"):
                fore, cat = pickle.loads(pickle.dumps(fore)), pickle.loads(pickle.dumps(cat))     # (local classes do not pickle)
        except Exception as e:
            COPY_UNSUPPORTED.add(f"{form}:{type(e).__name__}")
        rates = numpy.asarray(fore._data) if hasattr(fore, "_data") and form == "copy" else rates
    fore.c06_source_array = rates             # the caller's own array the forecast was built from
    return fore, cat


PUBLIC = {
    "likelihood_test": ("poisson", "cellmag", False),
    "conditional_likelihood_test": ("poisson", "cellmag", True),
    "spatial_test": ("poisson", "space", True),
    "magnitude_test": ("poisson", "mag", True),
    "binary_spatial_test": ("binary", "space", True),
    "binary_conditional_likelihood_test": ("binary", "cellmag", True),
    "brier_score_test": ("brier", "cellmag", True),
}


def public_inputs(case, fore, cat):
    """the rate and count arrays the public function hands to the array-level test"""
    module, view, _ = PUBLIC[case["test"]]
    if view == "cellmag":
        F, O = fore.data, cat.spatial_magnitude_counts()
    elif view == "space":
        F, O = fore.spatial_counts(), cat.spatial_counts()
    else:
        F, O = fore.magnitude_counts(), cat.magnitude_counts()
    return numpy.asarray(F, dtype=float).ravel(), numpy.asarray(O, dtype=float).ravel()


def call_form(f, args, kw, form):
    """call `f(*args, **kw)` - or, form 'positional', the same call with the keyword arguments handed over POSITIONALLY in the
    order of the function's current signature (defaults filled in between); falls back to the keyword call when that is not
    possible (keyword-only parameters, *args)"""
    if form != "positional":
        return f(*args, **kw)
    import inspect
    try:
        params = list(inspect.signature(f).parameters.values())
    except (TypeError, ValueError):
        return f(*args, **kw)
    out, rest = list(args), dict(kw)
    for p in params[len(args):]:
        if not rest:
            break
        if p.kind not in (p.POSITIONAL_ONLY, p.POSITIONAL_OR_KEYWORD):
            return f(*args, **kw)
        if p.name in rest:
            out.append(rest.pop(p.name))
        elif p.default is not inspect.Parameter.empty:
            out.append(p.default)
        else:
            return f(*args, **kw)
    return f(*out, **rest)


def snap(*arrays):
    """bytes of the caller-owned arrays handed to a call (None entries allowed)"""
    return [None if a is None else (numpy.asarray(a).shape, str(numpy.asarray(a).dtype), numpy.ascontiguousarray(a).tobytes())
            for a in arrays]


def changed(before, names, *arrays):
    after = snap(*arrays)
    for b, a, nm in zip(before, after, names):
        if b != a:
            return nm
    return None


def seed_arg(case):
    """the seed in the argument form of the case: Python int, numpy.int64, numpy.uint32, 0-d array (all accepted by
    numpy.random.seed and equal to the same integer)"""
    sd, form = case.get("seed"), case.get("seed_form", "int")
    if sd is None or form == "int":
        return sd
    if form == "numpy.int64":
        return numpy.int64(sd)
    if form == "numpy.uint32":
        return numpy.uint32(sd)
    if form == "numpy.uint64":
        return numpy.uint64(sd)
    return sd


def pick_seed_form(rng):
    return rng.choice(["int", "int", "numpy.int64", "numpy.uint32", "numpy.uint64"])


def rn_layout(R, layout):
    """the injected numbers, element by element the same, in another memory layout (row idx is still R[idx, :])"""
    if R is None or layout in (None, "C") or R.ndim != 2:
        return R
    if layout == "F":
        out = numpy.asfortranarray(R.copy())
    else:
        big = numpy.full((R.shape[0], 2 * R.shape[1] + 1), 0.5)
        big[:, 1::2] = R
        out = big[:, 1::2]
    assert out.shape == R.shape and numpy.array_equal(out, R)
    return out


def result_key(res):
    q = res.quantile
    td = [bits(v) for v in res.test_distribution]
    return (bits(q), bits(res.observed_statistic), tuple(td))


def do_public(run, drv, pending, case):
    """public test with injected numbers (rows) or with a seed (rows None)"""
    mods = _mods()
    module, view, conditional = PUBLIC[case["test"]]
    mod = mods[module]
    if set_precision(case):
        run.count("single-precision-forecast:public")
    fore, cat = build_public(case)
    # history on the SAME forecast / catalog objects before the checked call: other tests (their results are not looked at
    # here), scale() calls; the checked call must behave like a first call on objects in the state they are in now
    events_now = [tuple(e) for e in case["events"]]
    for h in case.get("history") or []:
        try:
            if h[0] == "scale":
                fore.scale(h[1])
            elif h[0] == "sibling":
                # ANOTHER forecast on the same region (same total, first and last rate; interior rates reversed) is evaluated first
                from csep.core.forecasts import GriddedForecast
                d = numpy.array(fore.data, dtype=float).copy()
                flat = d.ravel()
                if flat.size >= 4:
                    flat[1:-1] = flat[1:-1][::-1].copy()
                sib = GriddedForecast(data=flat.reshape(d.shape), region=fore.region, magnitudes=fore.magnitudes, name="sibling")
                hm = mods[PUBLIC[h[1]][0]]
                with capped_uniform(), contextlib.redirect_stdout(io.StringIO()):
                    getattr(hm, h[1])(sib, cat, num_simulations=h[3], seed=h[2])
            elif h[0] == "drop":
                # the catalog object loses its last events (public API, in place): later calls see the catalog as it is NOW
                cat.filter(f"origin_time < {1000 * h[1]}", in_place=True)
                events_now = events_now[:h[1]]
            else:
                hm = mods[PUBLIC[h[1]][0]]
                with capped_uniform(), contextlib.redirect_stdout(io.StringIO()):
                    getattr(hm, h[1])(fore, cat, num_simulations=h[3], seed=h[2])
            run.count("history-step-" + h[0])
        except Exception as e:
            run.oracle_failure(case, f"history step {h!r} raised {type(e).__name__}")
            return None
    Fr, Or = public_inputs(case, fore, cat)
    rates = [float(v) for v in Fr]
    masked = module != "poisson"
    nsim = case["nsim"]
    rows = None if case.get("rows") is None else [unhx(r) for r in case["rows"]]
    seed = case.get("seed")
    expect_n = int(sum(Or)) if module == "poisson" else n_active(Or)
    # the prescribed number from the CASE (every generated event lies inside the region and the magnitude range), not from
    # the gridded counts the library hands to the test
    if module == "poisson":
        expect_case = len(events_now)
    else:
        expect_case = len({(e if view == "cellmag" else e[0]) for e in events_now})
    if expect_case != expect_n:
        run.oracle_failure(case, f"the observed counts handed to the test hold {expect_n} events / active cells, the catalog "
                                 f"holds {expect_case} now")
        return None
    w_ref = ref_weights(rates, masked)
    nontriv = (case["test"], tuple(case["rates"]), json.dumps(case.get("rows")), seed) if (
        any(v <= 0 for v in rates) or (rows and is_boundary_case(w_ref, rows)) or case.get("neartie")) else None
    run.case(case, nontriv)
    run.count(f"public-{case['test']}-{'injected' if rows is not None else 'seeded'}")
    if masked and infeasible(run, case, rates, expect_n):
        if rows is None:
            return
    R = None if rows is None else rn_layout(numpy.array(rows, dtype=float).reshape(nsim, -1), case.get("rnlayout"))
    if case.get("seed_form", "int") != "int":
        run.count(f"seed-argument-form-{case['seed_form']}")
    fn = getattr(mod, case["test"])
    exc, res = None, None
    if seed is None and rows is None:
        raise RuntimeError("public case needs rows or a seed")
    kw = {}
    if case.get("verbose"):
        kw["verbose"] = True          # the progress-printing branch (every 100 simulations)
    if case.get("bad_call_first") and expect_n >= 1:
        # (i) STATE AFTER A CAUGHT EXCEPTION: the same test on the same objects with random_numbers of the wrong width is rejected
        # (too few numbers for the prescribed count); the judged call that follows must behave like a first call
        try:
            with capped_uniform(), contextlib.redirect_stdout(io.StringIO()):
                fn(fore, cat, num_simulations=2, seed=seed_arg(case), random_numbers=numpy.full((2, expect_n + 1), 0.5))
            run.count("bad-call-first:accepted")
        except StreamExhausted:
            run.count("bad-call-first:loop")
        except Exception as e:
            run.count(f"bad-call-first:raised-{type(e).__name__}")
    robust = all(v >= 1e-10 for v in rates) and expect_n >= 1 and float(numpy.sum(Or)) > 0 and not PRECISION["single"]
    use_err = bool(case.get("errstate")) and robust
    if use_err:
        run.count("errstate-divide-invalid-raise")
    owned_names = ["array the forecast was built from", "forecast data", "catalog rows", "injected random numbers"]
    owned = snap(fore.c06_source_array, fore.data, cat.catalog, R)
    if case.get("call_form") == "positional":
        run.count("public-call-positional")
    if case.get("cat_class"):
        run.count(f"observed-catalog-class-{case['cat_class']}")
    if case.get("copy_form"):
        run.count(f"copy-before-use:{case['copy_form']}")
    with capture(mod) as rec:
        try:
            numpy.random.seed(case.get("ambient", 12345))
            # (k) GLOBAL NUMERIC STATE: divide / invalid raise (only for inputs on which the unchanged tree computes no log(0))
            with capped_uniform(), contextlib.redirect_stdout(io.StringIO()), \
                    (numpy.errstate(divide="raise", invalid="raise") if use_err else contextlib.nullcontext()):
                res = call_form(fn, (fore, cat), dict(num_simulations=nsim, seed=seed_arg(case), random_numbers=R, **kw),
                                case.get("call_form"))
        except StreamExhausted as e:
            exc = "rejection loop did not finish: " + str(e)
        except Exception as e:
            exc = type(e).__name__
    hook_check(run, rec, len(rates), module)
    if exc is not None:
        run.oracle_failure(case, f"{case['test']} raised {exc}")
        return None
    touched = changed(owned, owned_names, fore.c06_source_array, fore.data, cat.catalog, R)
    if touched:
        run.oracle_failure(case, f"{case['test']} modified the caller's {touched}")
    fail = None
    if rec.missing:
        run.count(f"helper-missing:{module}._simulate_catalog")
    elif len(rec) == 0:
        run.count(f"helper-not-called:{module}._simulate_catalog")     # simulated inline: the public-path oracle decides
    elif len(rec) != nsim:
        fail = f"{len(rec)} catalogs simulated for {nsim} simulations"
    fail = fail or public_stat_oracle(run, case, module, view, conditional, rates, Or, fore, rows, seed, nsim, res)
    for idx, call in enumerate(rec):
        exp = expect_n
        if not conditional:
            exp = call[0]  # Poisson draw: checked below against the generator stream for the first simulation
        fail = fail or oracle_call(rates, masked, call, exp, binary_loop=(masked and rows is None))
    if not conditional and seed is not None and rec:
        first = int(numpy.random.RandomState(seed).poisson(float(numpy.sum(fore.data))))
        if rec[0][0] != first:
            fail = fail or (f"L-test: first simulated catalog has {rec[0][0]} events, the Poisson draw with the "
                            f"forecast mean from seed {seed} is {first}")
    fail = fail or quantile_oracle(res.quantile, res.observed_statistic, res.test_distribution, nsim)
    if fail:
        run.oracle_failure(case, fail)
    if rows is not None:
        for idx, call in enumerate(rec):
            i = drv.ask(f"c06_run {'m' if masked else 'p'} {flist(rates)} {flist(rows[idx])}")
            pending.append(("run", case, i, call))
            ask_on_impl_weights(drv, pending, case, call)
    else:
        for call in (rec[:1] if case.get("neartie") else rec):   # weights only (bit-exactness) + zero draws
            i = drv.ask(f"c06_run {'m' if masked else 'p'} {flist(rates)} -")
            pending.append(("weights", case, i, call))
        if seed is not None and not case.get("neartie") and not rec.missing:
            default_path(run, drv, pending, case, mod, module, masked, conditional, rates, Or, fore, seed, nsim, rec, res)
    sims, ob = res.test_distribution, res.observed_statistic
    if not (any(math.isnan(float(s)) for s in sims) or math.isnan(float(ob))):
        i = drv.ask(f"c06_quantile {flist([fr_stat(s) for s in sims])} {frac(fr_stat(ob))}")
        pending.append(("quantile", case, i, (float(res.quantile), nsim)))
    if case.get("repeat") and (rows is not None or seed is not None):
        # ALIASING OF RETURNED OBJECTS: everything the public API handed out is overwritten in place, then the SAME call (same
        # forecast / catalog objects, same random_numbers ARRAY, same seed) is repeated: nothing may change
        first = result_key(res)
        saved_td = [float(v) for v in res.test_distribution]
        run.count("public-repeat-after-overwriting-returned-objects")
        try:
            td = res.test_distribution
            if isinstance(td, list):
                for k in range(len(td)):
                    td[k] = -12345.0
            else:
                numpy.asarray(td)[...] = -12345.0
            for arr in (fore.data, fore.spatial_counts(), fore.magnitude_counts(), cat.spatial_counts(), cat.magnitude_counts(),
                        cat.spatial_magnitude_counts()):
                a = numpy.asarray(arr)
                if a.flags.writeable:
                    a[...] = 7
        except Exception as e:
            run.count(f"public-repeat:could-not-overwrite:{type(e).__name__}")
        try:
            numpy.random.seed(case.get("ambient", 12345) + 1)
            with capped_uniform(), contextlib.redirect_stdout(io.StringIO()):
                res2 = call_form(fn, (fore, cat), dict(num_simulations=nsim, seed=seed_arg(case), random_numbers=R, **kw),
                                 "keyword" if case.get("call_form") == "positional" else "positional")
            if result_key(res2) != first:
                run.oracle_failure(case, f"{case['test']}: the same call repeated on the same objects (after the arrays / lists the API "
                                         "returned were overwritten by the caller) gives another result")
        except StreamExhausted:
            run.count("public-repeat:rejection-loop-too-long")
        except Exception as e:
            run.oracle_failure(case, f"{case['test']}: the repeated call raised {type(e).__name__}")
        try:
            td = res.test_distribution
            for k in range(len(saved_td)):
                td[k] = saved_td[k]
        except Exception:
            pass
    return res


REF_SCALE = dict(v=0.0)


def ref_stat(module, view, conditional, rates, Or, arr):
    """the statistic of a simulated count array `arr` as the public test documents it (harness-level reference, float64)"""
    r = numpy.asarray(rates, dtype=float)
    a = numpy.asarray(arr, dtype=float)
    if module == "poisson":
        n_obs, n_fore = float(numpy.sum(Or)), float(numpy.sum(r))
        normalize = view in ("space", "mag")
        if conditional and normalize:
            with numpy.errstate(all="ignore"):
                logr = numpy.log(r * (n_obs / n_fore))
            expected = float(int(n_obs))
        else:
            with numpy.errstate(all="ignore"):
                logr = numpy.log(r)
            expected = n_fore
        idx = a > 0
        lg = sum(math.lgamma(v + 1.0) for v in a[idx])
        REF_SCALE["v"] = float(numpy.sum(numpy.abs(logr[idx] * a[idx]))) + lg + abs(expected)     # size of the terms that cancel
        return float(numpy.sum(logr[idx] * a[idx]) - lg - expected)
    y = (a > 0).astype(float)
    if module == "binary":
        if not numpy.all(r > 0):
            return None
        terms = y * numpy.log(1.0 - numpy.exp(-r)) + (1 - y) * (-r)
        REF_SCALE["v"] = float(numpy.sum(numpy.abs(terms)))
        return float(numpy.sum(terms))
    prob = 1.0 - numpy.exp(-numpy.where(r > 0, r, 0.0))
    REF_SCALE["v"] = 2.0
    return float(-2.0 * numpy.sum(numpy.square(prob - y)) / len(r))


def ref_simulate(rates, masked, row, loop_target=None):
    """inverse-CDF placement of `row` on the reference weights (exact comparison of doubles); None when a number lies within
    4 ulps of a cumulative boundary (a legitimate other rounding of the weights may place it on either side). With
    `loop_target` the numbers feed the rejection loop: returns (array, numbers used)"""
    import bisect
    w = [float(x) for x in ref_weights(rates, masked)]
    arr = [0] * len(w)
    used = 0
    for r in row:
        if loop_target is not None and sum(arr) >= loop_target:
            break
        used += 1
        r = float(r)
        k = bisect.bisect_right(w, r)
        if k >= len(w):
            return None
        for b in (w[k - 1] if k else None, w[k]):
            if b is not None and abs(r - b) <= (2 * wtol(len(w)) * abs(b) if PRECISION["single"] else 4 * numpy.spacing(max(abs(b), 1e-300))):
                return None
        if loop_target is None:
            arr[k] += 1
        elif arr[k] == 0:
            arr[k] = 1
    if loop_target is not None:
        return (arr, used) if sum(arr) >= loop_target else None
    return arr


def public_stat_oracle(run, case, module, view, conditional, rates, Or, fore, rows, seed, nsim, res, fed_stream=None):
    """PUBLIC PATH, no private hook: entry idx of the returned test distribution is the documented statistic of the catalog
    that the inverse-CDF placement of the simulation's random numbers gives - the injected rows, or (seeded, plain drawing
    pattern) the numbers the test drew from the global generator, attributed by their order. Returns None or a text."""
    dist = [float(v) for v in res.test_distribution]
    masked = module != "poisson"
    # never in a zero-rate bin, seen from outside: the log-likelihood of a simulated catalog is finite (an event in a bin of
    # rate 0 makes it -inf / nan) - theorem `sim_entries_finite` of C05 + `never_in_zero_rate_bin`
    posr = [v for v in rates if v > 0]
    if module == "poisson" and all(v >= 0 for v in rates) and posr and min(posr) >= 1e-290 and max(posr) <= 1e290:
        # (rates near the ends of the float range are left out: there a scaled rate may underflow to 0 or overflow)
        bad = [k for k, v in enumerate(dist) if math.isnan(v) or v == -math.inf]
        if bad and (rows is not None or seed is not None):
            return (f"entry {bad[0]} of the simulated distribution is {dist[bad[0]]!r}: a simulated catalog has an event in a "
                    f"zero-rate bin (or outside every bin)")
    sims = []
    if rows is not None:
        if not conditional and len(rows) != nsim:
            return None
        for row in rows:
            sims.append(ref_simulate(rates, masked, row))
    elif seed is not None:
        log = list(DRAWLOG)
        if not masked:
            us = [e for e in log if e[0] == "u"]
            ps = [int(v) for e in log if e[0] == "p" for v in e[3]]
            if len(us) != nsim or (not conditional and len(ps) < nsim):
                run.count("public-path-oracle:draws-not-attributable")
                return None
            for idx, e in enumerate(us):
                n = int(sum(Or)) if conditional else ps[idx]
                if len(e[2]) != n:
                    run.count("public-path-oracle:draws-not-attributable")
                    return None
                sims.append(ref_simulate(rates, masked, e[2]))
        else:
            if any(e[0] != "u" for e in log):
                return None
            stream = [float(v) for e in log for v in e[2]]
            target, pos = n_active(Or), 0
            for _ in range(nsim):
                got = ref_simulate(rates, True, stream[pos:], loop_target=target) if target else ([0] * len(rates), 0)
                if got is None:
                    run.count("public-path-oracle:draws-not-attributable")
                    return None
                sims.append(got[0])
                pos += got[1]
    elif fed_stream is not None and masked:
        target, pos = n_active(Or), 0
        for _ in range(nsim):
            got = ref_simulate(rates, True, fed_stream[pos:], loop_target=target) if target else ([0] * len(rates), 0)
            if got is None:
                run.count("public-path-oracle:draws-not-attributable")
                return None
            sims.append(got[0])
            pos += got[1]
    else:
        return None
    if len(dist) != len(sims):
        return None          # the number of entries is judged by the quantile oracle
    for idx, (arr, val) in enumerate(zip(sims, dist)):
        if arr is None:
            run.count("public-path-oracle:near-boundary-skipped")
            continue
        ref = ref_stat(module, view, conditional, rates, Or, arr)
        if ref is None or math.isnan(ref) or math.isnan(val):
            continue
        run.count("public-path-oracle:entry-checked")
        # rounding of the forecast's precision acts on the TERMS of the sum, which may cancel: absolute part relative to their size
        slack = (32 * _eps() if PRECISION["single"] else 1e-13) * REF_SCALE["v"]
        if not (val == ref or abs(val - ref) <= stat_tol() * max(abs(val), abs(ref)) + slack + 1e-12):
            return (f"entry {idx} of the test distribution is {val!r}; the statistic of the catalog that the inverse-CDF placement "
                    f"of this simulation's random numbers gives is {ref!r}")
    return None


def default_path(run, drv, pending, case, mod, module, masked, conditional, rates, Or, fore, seed, nsim, rec, res):
    """no injected numbers: the simulated catalogs must be the model's placement of the numbers the legacy global generator
    yields after numpy.random.seed(seed) — Poisson tests: [poisson(N_fore) for the L-test, then] rand(n) per simulation; binary
    / Brier: one uniform per iteration of the rejection loop (drawing them in batches yields the same numbers). And every
    entry of the returned distribution must be the statistic of ITS simulated catalog (a reused buffer must not alias)."""
    run.count(f"default-path-{module}")
    log = list(DRAWLOG)
    spans = list(getattr(rec, "spans", []))
    # (a) whatever the order / batching: the numbers the test drew are the stream of the generator seeded with `seed`
    why = replay_log_from_seed(seed, log)
    if why:
        run.oracle_failure(case, f"default random path: {why} (the seed does not determine the random numbers of the test)")
        return
    # (b) the numbers drawn while simulation idx ran belong to that simulation
    inside = [numpy.concatenate([log[k][2] for k in range(lo, hi) if log[k][0] == "u"] or [numpy.zeros(0)]) for lo, hi in spans]
    covered = sum(hi - lo for lo, hi in spans)
    n_unif_entries = sum(1 for e in log if e[0] == "u")
    all_inside = covered >= n_unif_entries and len(spans) == len(rec)
    pois = [e for e in log if e[0] == "p"]
    if not masked:
        lam = float(numpy.sum(fore.data))
        if not conditional:
            # L-test: every catalog has the number of events of a Poisson draw with the forecast mean, in drawing order
            drawn = [int(v) for e in pois for v in e[3]]
            if any(not (abs(float(e[1]) - lam) <= 1e-12 * max(1.0, abs(lam))) for e in pois):
                run.oracle_failure(case, f"L-test: Poisson numbers drawn with mean {[float(e[1]) for e in pois][:3]}, the forecast mean is {lam!r}")
                return
            if [c[0] for c in rec] != drawn[:len(rec)]:
                run.oracle_failure(case, f"L-test: simulated catalogs have {[c[0] for c in rec][:6]} events, the Poisson numbers drawn "
                                         f"with the forecast mean were {drawn[:6]}")
                return
        plain = all_inside and weights_bitexact(rates, masked, rec)
        for idx, call in enumerate(rec):
            if isinstance(call[3], str):
                continue
            n = call[0]
            row = call[2] if call[2] is not None else (inside[idx] if idx < len(inside) else numpy.zeros(0))
            if len(row) != n:
                run.count("default-path-draws-not-attributable")
                plain = False
                continue
            call2 = (call[0], call[1], numpy.array(row, dtype=float), call[3])
            fail = oracle_call(rates, masked, call2, n if not conditional else int(sum(Or)))
            if fail:
                run.oracle_failure(case, f"default random path, simulation {idx}: {fail}")
                return
            i = drv.ask(f"c06_run p {flist(rates)} {flist(row)}")
            pending.append(("run", case, i, call2))
            ask_on_impl_weights(drv, pending, case, call2)
        # (c) the seed-only model (Model/SamplerRng.lean) draws [poisson,] rand(n) per simulation: compared when the test draws so
        pattern = []
        for e in log:
            pattern.append("p" if e[0] == "p" and e[2] is None else ("P" if e[0] == "p" else "u"))
        want = "".join(("" if conditional else "p") + "u" for _ in range(nsim))
        if plain and "".join(pattern) == want:
            seeded_model(run, drv, pending, case, module, masked, conditional, rates, Or, fore, seed, nsim, rec)
        else:
            run.count("seed-only-model-skipped-other-draw-order")
    else:
        expect_n = n_active(Or)
        plain = all_inside and all(e[0] == "u" for e in log) and weights_bitexact(rates, masked, rec)
        for idx, call in enumerate(rec):
            if isinstance(call[3], str) or idx >= len(inside):
                continue
            if not plain:
                continue
            if len(inside[idx]) == 0 and expect_n > 0:
                run.count("default-path-draws-not-attributable")
                plain = False
                continue
            # the rejection loop on the numbers drawn while this simulation ran (one by one or in batches; unused ones stay)
            i = drv.ask(f"c06_rejm {flist(rates)} {expect_n} {flist(inside[idx])}")
            pending.append(("rej-seeded", case, i, [int(v) for v in call[3]]))
        if plain:
            g = numpy.random.RandomState(seed)
            stream = g.random_sample(4000).tolist()
            obstxt = ",".join(str(int(v)) for v in Or) if len(Or) else "-"
            i = drv.ask(f"c06_bintest {flist(rates)} {obstxt} {nsim} {flist(stream)}")
            pending.append(("chain-seeded", case, i, rec))
            seeded_model(run, drv, pending, case, module, masked, conditional, rates, Or, fore, seed, nsim, rec)
        else:
            run.count("seed-only-model-skipped-other-draw-order")
        # aliasing: entry k of the distribution is the statistic of the k-th simulated catalog
        try:
            F = numpy.asarray(fore.spatial_counts() if PUBLIC[case["test"]][1] == "space" else fore.data, dtype=float)
            for idx, call in enumerate(rec):
                if isinstance(call[3], str):
                    continue
                if module == "binary":
                    ref = float(mod.binary_joint_log_likelihood_ndarray(F, numpy.array(call[3], dtype=float)))
                else:
                    ref = float(mod._brier_score_ndarray(F, numpy.array(call[3], dtype=float)))
                val = float(res.test_distribution[idx])
                if not (val == ref or (math.isnan(val) and math.isnan(ref)) or
                        abs(val - ref) <= (stat_tol() if PRECISION["single"] else 1e-11) * max(abs(val), abs(ref))):
                    run.oracle_failure(case, f"default random path: entry {idx} of the simulated distribution ({val!r}) is not the "
                                             f"statistic of the {idx}-th simulated catalog ({ref!r})")
                    return
        except AttributeError:
            run.count("default-path-statistic-function-not-found")


RNG_MODEL = dict(ok=None)


def rng_model_ok(run):
    """the generator of Model/SamplerRng.lean (MT19937 seeded like numpy.random.seed(int), 53-bit doubles) against numpy's legacy
    global generator, bit for bit, for the seed classes used here. Trusted-base validation: a disagreement is NOT a verdict — the
    seed-only correspondence (`c06_seeded_*`) is then skipped and the recorded-stream correspondence decides as before."""
    if RNG_MODEL["ok"] is None:
        drv = Driver()
        seeds = [0, 1, 2 ** 32 - 1, 12345, 2 ** 31, 1812433253]
        ids = [drv.ask(f"c06_mt {s} 700") for s in seeds]
        try:
            out = drv.run()
            ok = True
            for s, i in zip(seeds, ids):
                ref = numpy.random.RandomState(s).random_sample(700)
                got = [Fraction(x) for x in out[i].split(",")]
                ok = ok and len(got) == 700 and all(Fraction(float(a)) == b for a, b in zip(ref, got))
        except Exception:
            ok = False
        RNG_MODEL["ok"] = ok
        run.extra["rng_model_bitexact_with_numpy"] = ok
        try:
            drv = Driver()
            qs = [(lam, sd, drv.ask(f"c06_poisson {bits(lam)} {sd} 40")) for lam in (0.7, 9.5, 10.0, 10.5, 37.25, 480.0, 12345.6)
                  for sd in (0, 1, 2 ** 32 - 1, 987654321)]
            out = drv.run()
            good = sum(1 for lam, sd, i in qs if [int(v) for v in numpy.random.RandomState(sd).poisson(lam, size=40)] ==
                       ([] if out[i] == "-" else [int(x) for x in out[i].split(",")]))
            run.extra["poisson_sampler_model_agrees_with_numpy"] = f"{good}/{len(qs)}"
        except Exception as e:
            run.extra["poisson_sampler_model_agrees_with_numpy"] = f"not checked ({type(e).__name__})"
        if not ok:
            run.assumptions.append("Model/SamplerRng.lean does not reproduce this numpy's legacy generator: seed-only correspondence skipped")
    return RNG_MODEL["ok"]


def seeded_model(run, drv, pending, case, module, masked, conditional, rates, Or, fore, seed, nsim, rec):
    """the seeded test as ONE model function of (rate array, observed array, seed): nothing but the seed is handed to the model,
    which seeds its own MT19937, draws rand(n) / uniform(0,1) / (forecast mean < 10) the Poisson numbers, and simulates."""
    if not rng_model_ok(run) or not (0 <= int(seed) < 2 ** 32):
        return
    if not rec:
        run.count("helper-not-called:seed-only-model-skipped")          # nothing was recorded at the private hook
        return
    impl = [r[3] if isinstance(r[3], str) else [int(v) for v in r[3]] for r in rec]
    obstxt = ",".join(str(int(v)) for v in Or) if len(Or) else "-"
    if not masked and conditional:
        if int(sum(Or)) * nsim > 20000:
            return
        i = drv.ask(f"c06_seeded_p {flist(rates)} {obstxt} {nsim} {int(seed)}")
        pending.append(("seeded-model", case, i, impl))
        run.count("seed-only-model-poisson-conditional")
    elif not masked:
        lam = float(numpy.sum(fore.data))
        if not (0.0 < lam <= 3000.0) or lam * nsim > 20000:
            run.count("seed-only-model-l-test-skipped-mean>3000")
            return
        enlam = math.exp(-lam)
        # the model's Poisson numbers must be numpy's (libm exp, multiplication method): validated without /repo
        gg = numpy.random.RandomState(int(seed))
        ref_n = []
        for _ in range(nsim):
            n = int(gg.poisson(lam))
            ref_n.append(n)
            gg.random_sample(n)
        if lam < 10.0:
            i = drv.ask(f"c06_seeded_l {flist(rates)} {frac(Fraction(enlam))} {nsim} {int(seed)}")
            run.count("seed-only-model-l-test")
        else:
            # numpy's PTRS sampler (Model/SamplerRng.lean `poissonFloat`, Float layer) draws the numbers of events
            i = drv.ask(f"c06_seeded_lf {flist(rates)} {bits(lam)} {nsim} {int(seed)}")
            run.count("seed-only-model-l-test-ptrs")
        pending.append(("seeded-model-l", case, i, (impl, [r[0] for r in rec], ref_n)))
    else:
        i = drv.ask(f"c06_seeded_m {flist(rates)} {obstxt} {nsim} {int(seed)} 4000")
        pending.append(("seeded-model-m", case, i, impl))
        run.count("seed-only-model-binary")


def do_seed(run, drv, pending, case):
    """determinism: the same seed from two different ambient generator states gives the same result"""
    set_precision(case)
    keys = []
    for ambient in (case["ambient_a"], case["ambient_b"]):
        c = dict(case, ambient=ambient, kind="public", rows=None)
        fore, cat = build_public(c)
        mods = _mods()
        module, _, _ = PUBLIC[case["test"]]
        numpy.random.seed(ambient)
        numpy.random.rand(case.get("burn", 3))
        try:
            with capped_uniform():
                res = getattr(mods[module], case["test"])(fore, cat, num_simulations=case["nsim"], seed=seed_arg(case))
            keys.append(result_key(res))
        except Exception as e:
            keys.append(("exc", type(e).__name__))
    run.case(case, ("seed", case["test"], case["seed"], tuple(case["rates"])))
    run.count(f"seed-{case['seed'] if case['seed'] in (0, 1, 2 ** 32 - 1) else 'random'}")
    if keys[0] != keys[1]:
        run.oracle_failure(case, f"{case['test']}(seed={case['seed']}) gives different results from different ambient "
                                 f"generator states: the seed was not applied")
    elif keys[0][0] == "exc":
        run.oracle_failure(case, f"{case['test']} raised {keys[0][1]}")
    i = drv.ask(f"c06_seed {case['seed']}")
    pending.append(("seedflag", case, i, None))


def sensitive(case):
    """a seeded case whose result depends on the random stream: >= 3 drawable bins of comparable weight, >= 2 events"""
    fore, cat = build_public(case)
    Fr, Or = public_inputs(case, fore, cat)
    module = PUBLIC[case["test"]][0]
    w = ref_weights([float(v) for v in Fr], module != "poisson")
    widths = [float(w[i]) - (float(w[i - 1]) if i else 0.0) for i in range(len(w))]
    ev = int(sum(Or)) if module == "poisson" else n_active(Or)
    big = len([x for x in widths if x > 0.05])
    if module != "poisson":
        return big >= 3 and 1 <= ev < big and case["nsim"] >= 2
    return big >= 3 and ev >= 2 and case["nsim"] >= 2


def feasible_sibling(case):
    """binary / Brier history on the sibling forecast only when its rejection loop is cheap: all rates positive and comparable"""
    r = unhx(case["rates"])
    return all(v > 0 for v in r) and max(r) / min(r) < 100


def gen_public_case(rng, test=None, seeded=False):
    test = test or rng.choice(list(PUBLIC))
    module, view, conditional = PUBLIC[test]
    nx, ny, nm = rng.choice([(1, 1, 1), (2, 1, 2), (3, 2, 1), (3, 2, 3), (5, 2, 3), (4, 3, 2)])
    n = nx * ny * nm
    rates, style = gen_rates(rng, n, force_zero=rng.random() < 0.6)
    single = style not in ("subnormal", "huge", "integers") and rng.random() < 0.15
    lowdt = None
    if single:
        lowdt = "float16" if style in ("uniform", "decimal", "equal") and rng.random() < 0.4 else "float32"
        rates = [float(LOW[lowdt](v)) for v in rates]           # a low-precision forecast
        if not any(v > 0 for v in rates):
            rates[0] = 0.5
    elif style == "integers" and rng.random() < 0.5:
        lowdt = "int64"                                           # an integer-valued forecast stored as integers
    set_precision(dict(rdtype=lowdt))
    nsim = rng.randint(1, 5)
    nev = rng.choice([0, 1, 2, 3, 5, 8] + ([9, 30, 600] if rng.random() < 0.08 else []))   # > 8 per bin, >= bins, > 500 events
    events = [[rng.randrange(nx * ny), rng.randrange(nm)] for _ in range(nev)]
    case = dict(kind="public", test=test, nx=nx, ny=ny, nm=nm, rates=hx(rates), events=events, nsim=nsim, style=style)
    if lowdt:
        case["rdtype"] = lowdt
    if rng.random() < 0.2 and len(events) >= 2:
        case["cat_class"] = "accessor-order"
    fore, cat = build_public(case)
    Fr, Or = public_inputs(case, fore, cat)
    masked = module != "poisson"
    if masked:
        # keep the binary tests feasible (D10 cases are generated separately at array level and below)
        pos = len(drawable([float(v) for v in Fr]))
        if n_active(Or) > pos:
            keep, seen = [], set()
            for e in events:
                key = tuple(e) if view == "cellmag" else e[0]
                if key in seen or len(seen) < pos:
                    seen.add(key)
                    keep.append(e)
            case["events"] = events = keep
            fore, cat = build_public(case)
            Fr, Or = public_inputs(case, fore, cat)
    if not any(v > 0 for v in Fr):
        return None
    ev = int(sum(Or)) if not masked else n_active(Or)
    if seeded or not conditional:
        case["seed"] = rng.choice([0, 1, 2 ** 32 - 1, rng.randrange(2 ** 32)])
        case["rows"] = None
        if not conditional:
            first = int(numpy.random.RandomState(case["seed"]).poisson(float(numpy.sum(fore.data))))
            if first > 2000:
                return None
            if rng.random() < 0.6:
                # inject numbers for ONE simulation whose length is the Poisson draw of this seed
                case["nsim"] = 1
                cands = boundary_draws(ref_weights(list(Fr), masked))
                case["rows"] = [hx(gen_row(rng, cands, first))]
        elif masked:
            # seeded rejection loop with the real generator: keep it fast (every needed cell is likely enough)
            w = ref_weights(list(Fr), True)
            widths = sorted([float(w[i] - (w[i - 1] if i else 0.0)) for i in range(len(w)) if Fr[i] > 0], reverse=True)
            if ev > 0 and widths[ev - 1] < 1e-3:
                return None
    else:
        case["seed"] = None
        cands = boundary_draws(ref_weights(list(Fr), masked))
        case["rows"] = [hx(gen_row(rng, cands, ev)) for _ in range(nsim)]
    if rng.random() < 0.3:
        # earlier calls on the same objects: Poisson-family tests (they always terminate; a seeded rejection loop may need
        # astronomically many draws on a forecast with a nearly empty cell)
        pool = ["likelihood_test", "conditional_likelihood_test", "spatial_test", "magnitude_test"]
        if style == "huge":
            pool = pool[1:]              # numpy.random.poisson refuses means beyond ~9.2e18 and needs memory for 1e16 events
        hist = []
        for _ in range(rng.randint(1, 3)):
            if rng.random() < 0.25:
                hist.append(["scale", rng.choice([0.5, 2.0, 4.0])])
            else:
                hist.append(["test", rng.choice(pool), rng.randrange(2 ** 31), rng.randint(1, 3)])
        if any(h[0] == "scale" for h in hist):
            hist.append(["scale", 1])          # back to the forecast's own rates (scale factors are absolute)
        if rng.random() < 0.6:
            # the SAME test on a sibling forecast (same grid / total / end rates, other interior) right before the checked call
            hist.append(["sibling", test if module == "poisson" else rng.choice(pool + [test] if feasible_sibling(case) else pool),
                         rng.randrange(2 ** 31), rng.randint(1, 2)])
        if case.get("rows") is None and len(events) >= 2 and rng.random() < 0.5:
            # the catalog loses events between the earlier calls and the checked one (seeded cases: no row widths to keep)
            hist.insert(rng.randint(1, len(hist)), ["drop", rng.randint(1, len(events) - 1)])
        if not (not conditional and case.get("rows") is not None):
            case["history"] = hist
    case["call_form"] = rng.choice(["keyword", "keyword", "positional"])
    case["repeat"] = rng.random() < 0.3
    if rng.random() < 0.3:
        case["copy_form"] = rng.choice(["copy", "deepcopy", "pickle"])          # (h)
    if rng.random() < 0.25 and case.get("rows") is None and not case.get("history"):
        case["bad_call_first"] = True                                            # (i)
    if rng.random() < 0.3:
        case["errstate"] = True                                                  # (k), applied only where the unchanged tree is robust
    if rng.random() < 0.25 and not case.get("cat_class"):
        case["cat_class"] = "UCERF3Catalog"
    if case.get("seed") is not None:
        case["seed_form"] = pick_seed_form(rng)
    if case.get("rows") is not None:
        case["rnlayout"] = rng.choice(["C", "C", "F", "strided"])
    return case


# ----------------------------------------------------------------------------- near ties of simulated and observed statistic
def gen_smooth_rates(rng, n):
    """a smooth forecast: neighbouring bins differ by a relative step of 10^U(-13,-5); plateaus give exact ties"""
    base = 10.0 ** rng.uniform(-3, 1.5)
    step = 10.0 ** rng.uniform(-13, -5)
    style = rng.choice(["ramp", "ramp-down", "wiggle", "plateaus", "two-level"])
    out = []
    for i in range(n):
        if style == "ramp":
            f = 1.0 + i * step
        elif style == "ramp-down":
            f = 1.0 + (n - 1 - i) * step
        elif style == "wiggle":
            f = 1.0 + step * rng.uniform(-1, 1)
        elif style == "plateaus":
            f = 1.0 + (i // 2) * step          # pairs of exactly equal bins, neighbouring pairs nearly equal
        else:
            f = 1.0 + (i % 2) * step
        out.append(base * f)
    return out, "smooth-" + style


def gen_neartie_case(rng, test, tier, force_verbose=False):
    module, view, conditional = PUBLIC[test]
    nx, ny, nm = rng.choice([(2, 1, 2), (3, 1, 1), (3, 2, 1), (3, 2, 2), (4, 2, 2), (6, 1, 2), (5, 2, 3)])
    n = nx * ny * nm
    rates, style = gen_smooth_rates(rng, n)
    if not conditional:
        # L-test: the number of events is a Poisson draw; a total near the observed count makes equal counts frequent
        tot = sum(rates)
        want = rng.choice([0.7, 1.0, 2.0])
        rates = [v * want / tot for v in rates]
    if rng.random() < 0.25 and n > 3:
        rates[rng.randrange(n)] = 0.0              # a zero-rate bin inside a smooth forecast
    pos = [i for i, v in enumerate(rates) if v > 0]
    where = rng.choice(["low", "low", "high", "high", "random"])
    nev = rng.choice([1, 1, 2, 2, 3])
    order = sorted(pos, key=lambda i: (rates[i], i))
    if where == "high":
        order = order[::-1]
    elif where == "random":
        rng.shuffle(order)
    if module != "poisson" or rng.random() < 0.5:
        flat = order[:nev]                           # distinct bins (binary tests: distinct active cells)
    else:
        flat = [order[0]] * nev                      # several events in one bin
    events = [[i // nm, i % nm] for i in flat]
    nsim = rng.choice([20, 30, 40, 60]) if tier == "quick" else rng.choice([40, 100, 200, 400])
    verbose = force_verbose or rng.random() < 0.25
    if verbose:
        nsim = 100 + rng.randint(0, 25)          # reaches the `(idx + 1) % 100 == 0` progress branch
    case = dict(kind="public", test=test, nx=nx, ny=ny, nm=nm, rates=hx(rates), events=events, nsim=nsim, style=style,
                neartie=where, verbose=verbose)
    fore, cat = build_public(case)
    Fr, Or = public_inputs(case, fore, cat)
    masked = module != "poisson"
    ev = int(sum(Or)) if not masked else n_active(Or)
    if masked and ev > len(drawable([float(v) for v in Fr])):
        return None
    if conditional and rng.random() < 0.5:
        case["seed"] = None
        g = numpy.random.RandomState(rng.randrange(2 ** 32))
        case["rows"] = [hx(g.random_sample(ev).tolist()) for _ in range(nsim)]
    else:
        case["seed"] = rng.choice([0, 1, rng.randrange(2 ** 32)])
        case["rows"] = None
    return case


def do_neartie(run, drv, pending, case):
    res = do_public(run, drv, pending, case)
    if res is None:
        return
    ob = float(res.observed_statistic)
    sims = [float(v) for v in res.test_distribution]
    if math.isnan(ob) or math.isinf(ob):
        run.count("neartie:observed-not-finite")
        return
    band = 1e-4 * max(abs(ob), 1e-3)
    above = sum(1 for v in sims if ob < v <= ob + band)
    below = sum(1 for v in sims if ob - band <= v < ob)
    ties = sum(1 for v in sims if v == ob)
    run.count("neartie:" + ("+".join(k for k, c in (("above", above), ("below", below), ("tie", ties)) if c) or "none"))
    run.extra["neartie_sims_just_above"] = run.extra.get("neartie_sims_just_above", 0) + above
    run.extra["neartie_sims_just_below"] = run.extra.get("neartie_sims_just_below", 0) + below
    run.extra["neartie_sims_exact_tie"] = run.extra.get("neartie_sims_exact_tie", 0) + ties


# ----------------------------------------------------------------------------- catalog magnitude tests (seed handling)
def do_catalog_seed(run, drv, pending, case):
    set_precision(case)
    from csep.core.catalog_evaluations import resampled_magnitude_test, MLL_magnitude_test
    from csep.core.catalogs import CSEPCatalog
    from csep.core.forecasts import CatalogForecast
    from csep.core.regions import CartesianGrid2D
    fn = dict(resampled_magnitude_test=resampled_magnitude_test, MLL_magnitude_test=MLL_magnitude_test)[case["test"]]
    mags = [1.0, 2.0, 3.0]
    keys = []
    for ambient in (case["ambient_a"], case["ambient_b"]):
        region = CartesianGrid2D.from_origins(numpy.array([[0.0, 0.0]]), dh=1.0, magnitudes=mags)
        cats = [CSEPCatalog(data=[(str(i), 1, 0.5, 0.5, 0.0, float(m)) for i, m in enumerate(ms)], catalog_id=j)
                for j, ms in enumerate(case["cats"])]
        fore = CatalogForecast(catalogs=cats, region=region, n_cat=len(cats))
        obs = CSEPCatalog(data=[(str(i), 1, 0.5, 0.5, 0.0, float(m)) for i, m in enumerate(case["obs"])], region=region)
        numpy.random.seed(ambient)
        numpy.random.rand(3)
        try:
            res = fn(fore, obs, seed=seed_arg(case))
            keys.append((tuple(bits(v) for v in res.test_distribution), bits(res.observed_statistic),
                         tuple(bits(v) for v in res.quantile)))
        except Exception as e:
            keys.append(("exc", type(e).__name__))
    run.case(case, ("catseed", case["test"], case["seed"], json.dumps(case["cats"])))
    run.count(f"catalog-{case['test']}-seed-{case['seed'] if case['seed'] in (0, 1, 2 ** 32 - 1) else 'random'}")
    if keys[0] != keys[1]:
        run.oracle_failure(case, f"{case['test']}(seed={case['seed']}) gives different results from different ambient "
                                 f"generator states: the seed was not applied")
    elif keys[0][0] == "exc":
        run.oracle_failure(case, f"{case['test']} raised {keys[0][1]}")
    else:
        td = [float(numpy.uint64(b).view(numpy.float64)) for b in keys[0][0]]
        ob = float(numpy.uint64(keys[0][1]).view(numpy.float64))
        q = [float(numpy.uint64(b).view(numpy.float64)) for b in keys[0][2]]
        if td and not any(math.isnan(v) for v in td + [ob]):
            kle = sum(1 for v in td if v <= ob)
            kge = sum(1 for v in td if v >= ob)
            if not (q[1] == kle / len(td) and q[0] == kge / len(td) and 0 <= q[0] <= 1 and 0 <= q[1] <= 1):
                run.oracle_failure(case, f"quantile {q} is not ({kge}/{len(td)}, {kle}/{len(td)})")
    i = drv.ask(f"c06_seed {case['seed']}")
    pending.append(("seedflag", case, i, None))


def gen_catalog_seed_case(rng, seed):
    ncat = rng.randint(2, 6)
    cats = [[rng.choice([1.5, 2.5, 3.5]) for _ in range(rng.randint(1, 6))] for _ in range(ncat)]
    obs = [rng.choice([1.5, 2.5, 3.5]) for _ in range(rng.randint(2, 6))]
    return dict(kind="catseed", test=rng.choice(["resampled_magnitude_test", "MLL_magnitude_test"]), cats=cats, obs=obs,
                seed=seed, seed_form=pick_seed_form(rng), ambient_a=rng.randrange(2 ** 31), ambient_b=rng.randrange(2 ** 31))


# ----------------------------------------------------------------------------- direct _simulate_catalog calls
def do_direct(run, drv, pending, case):
    """the three `_simulate_catalog` functions called directly with given weights and draws"""
    set_precision(case)
    mods = _mods()
    module = case["module"]
    mod = mods[module]
    rates = unhx(case["rates"])
    masked = module != "poisson"
    w = ref_weights(rates, masked)
    draws = unhx(case["draws"])
    n = len(draws)
    run.case(case, ("direct", module, tuple(case["rates"]), tuple(case["draws"])))
    run.count(f"direct-{module}")
    sim = numpy.full(w.shape, 7.0)  # stale content must be cleared
    darr = numpy.array(draws)
    owned = snap(w, darr)
    direct = getattr(mod, "_simulate_catalog", None)
    if direct is None or not callable(direct) or not _sig_ok(direct, mod):
        HELPER_MISSING.add(module + "_evaluations._simulate_catalog")
        run.count(f"helper-missing:{module}._simulate_catalog")
        return
    try:
        if module == "brier":
            out = mod._simulate_catalog(n, w, random_numbers=darr)
        else:
            out = mod._simulate_catalog(n, w, sim, random_numbers=darr)
        call = (n, w, numpy.array(draws), numpy.array(out).copy())
    except Exception as e:
        call = (n, w, numpy.array(draws), type(e).__name__)
    fail = oracle_call(rates, masked, call, n)
    touched = changed(owned, ["sampling weights", "random numbers"], w, darr)
    if touched:
        fail = fail or f"_simulate_catalog modified the caller's {touched}"
    if fail:
        run.oracle_failure(case, fail)
    i = drv.ask(f"c06_run {'m' if masked else 'p'} {flist(rates)} {flist(draws)}")
    pending.append(("run", case, i, call))
    ask_on_impl_weights(drv, pending, case, call)
    # the binary search numpy runs (Model/SamplerSearch.lean) against numpy.searchsorted itself: on the weights, and on the
    # unsorted array of the rates (where different binary searches give different answers). Report about the trusted base only.
    if draws:
        for arr in (w, numpy.array(rates, dtype=float)):
            i = drv.ask(f"c06_bsearch {flist(arr)} {flist(draws)}")
            pending.append(("bsearch", case, i, numpy.searchsorted(arr, numpy.array(draws), side="right").tolist()))


def gen_direct_case(rng):
    module = rng.choice(["poisson", "binary", "brier"])
    n = rng.choice([1, 2, 3, 5, 8, 16, 40])
    rates, style = gen_rates(rng, n)
    w = ref_weights(rates, module != "poisson")
    cands = boundary_draws(w)
    k = rng.choice([0, 1, 2, 5, 20])
    if rng.random() < 0.3:
        draws = list(cands)   # every boundary and neighbour at once
    else:
        draws = gen_row(rng, cands, k)
    return dict(kind="direct", module=module, rates=hx(rates), draws=hx(draws), style=style)


# ----------------------------------------------------------------------------- sizes beyond 2^16
def gen_big_case(rng, which):
    module = rng.choice(["poisson", "binary", "brier"]) if which == "bins" else "poisson"
    if which == "bins":
        n = 65536 + rng.randint(1, 5000)                     # more than 65536 bins, not a multiple of 65536
        pattern = [rng.choice([0.5, 1e-3, 2.0, 0.25, 1e-9, 0.0]) for _ in range(rng.randint(3, 7))]
        if not any(v > 0 for v in pattern):
            pattern[0] = 0.5
        return dict(kind="big", which=which, module=module, n=n, pattern=hx(pattern), nev=rng.randint(1, 4), nsim=2,
                    draw_seed=rng.randrange(2 ** 31))
    return dict(kind="big", which=which, module=module, n=3, pattern=hx([1e-9, 1.0, 1e-9]), nev=65536 + rng.randint(1, 9000),
                nsim=1, draw_seed=rng.randrange(2 ** 31))


def do_big(run, drv, pending, case):
    """more than 65536 bins / more than 65535 events in one bin (and in one catalog): exact oracle only (bisect on the
    implementation's own float weights); the Lean ops are not asked (exact rational arithmetic on 70 000 weights is slow)"""
    set_precision(case)
    import bisect
    mods = _mods()
    module = case["module"]
    mod = mods[module]
    masked = module != "poisson"
    pat = unhx(case["pattern"])
    n, nev, nsim = case["n"], case["nev"], case["nsim"]
    rates = numpy.array([pat[k % len(pat)] for k in range(n)], dtype=float)
    g = numpy.random.RandomState(case["draw_seed"])
    pos = numpy.flatnonzero(rates > 0)
    obs = numpy.zeros(n)
    if case["which"] == "bins":
        idx = sorted(set(int(pos[q]) for q in g.randint(0, len(pos), size=nev)) | {int(pos[-1])})
        for q in idx:
            obs[q] = 1
        ev = len(idx)
    else:
        obs[1] = nev
        ev = nev
    w_ref = ref_weights(rates.tolist(), masked)
    rows = g.random_sample((nsim, ev))
    if case["which"] == "bins":
        # direct some draws to boundaries beyond index 65536
        for r in range(nsim):
            k = int(pos[-1 - r])
            rows[r, 0] = float(w_ref[k - 1]) if k > 0 else 0.0
    shape = (n, 1) if module == "brier" else (n,)
    fn = dict(poisson="_poisson_likelihood_test", binary="_binary_likelihood_test", brier="_brier_score_test")[module]
    kw = dict(num_simulations=nsim, random_numbers=rows, seed=None, verbose=False)
    if module != "brier":
        kw.update(use_observed_counts=True, normalize_likelihood=False)
    run.case(dict(kind="big", which=case["which"], module=module, n=n, events=ev), ("big", case["which"], module, n, ev, case["draw_seed"]))
    run.count(f"big-{case['which']}-{module}")
    if private_fn(mod, fn, ["forecast_data", "observed_data", "num_simulations", "random_numbers", "seed", "verbose"]) is None:
        run.count(f"helper-missing:{module}.{fn}")
        return
    with capture(mod) as rec:
        try:
            res = getattr(mod, fn)(rates.reshape(shape), obs.reshape(shape), **kw)
        except Exception as e:
            run.oracle_failure(case, f"{fn} raised {type(e).__name__} on {n} bins / {ev} events")
            return
    hook_check(run, rec, n, module)
    if rec.missing:
        run.count(f"helper-missing:{module}._simulate_catalog")
    elif len(rec) == 0:
        run.count(f"helper-not-called:{module}._simulate_catalog")     # simulated inline: nothing to read at the hook
        return
    elif len(rec) != nsim:
        run.oracle_failure(case, f"{len(rec)} catalogs simulated for {nsim} simulations")
        return
    for q, (cn, w, rn, out) in enumerate(rec):
        if isinstance(out, str):
            run.oracle_failure(case, f"_simulate_catalog raised {out}")
            return
        wl = [float(x) for x in w]
        if len(wl) != n or len(out) != n or not all(math.isfinite(x) for x in wl) or any(wl[k] > wl[k + 1] for k in range(n - 1)):
            run.oracle_failure(case, "weights / result do not have the forecast's shape, are not finite or decrease")
            return
        exp = numpy.zeros(n)
        for r in rows[q]:
            k = bisect.bisect_right(wl, float(r))
            if k >= n:
                run.oracle_failure(case, f"draw {float(r)!r} beyond the last weight")
                return
            exp[k] += 1
        if cn != ev or float(numpy.sum(out)) != ev or not numpy.array_equal(numpy.asarray(out, dtype=float), exp):
            bad = numpy.flatnonzero(numpy.asarray(out, dtype=float) != exp)[:5].tolist()
            run.oracle_failure(case, f"simulated catalog {q} differs from the inverse-CDF placement of its numbers on {n} bins / "
                                     f"{ev} events (first differing bins {bad}; sum {float(numpy.sum(out))!r}, prescribed {ev})")
            return
        if numpy.any((numpy.asarray(out) != 0) & ~(rates > 0)):
            run.oracle_failure(case, "event in a zero-rate bin")
            return
    fail = quantile_oracle(res[0], res[1], res[2], nsim)
    if fail:
        run.oracle_failure(case, fail)


# ----------------------------------------------------------------------------- run / replay
def flush_all(run, drv, pending):
    flush(run, drv, pending)


def do_public_any(run, drv, pending, case):
    return (do_neartie if case.get("neartie") else do_public)(run, drv, pending, case)


def guarded(fn):
    """a harness crash is a missed detection: anything unexpected while an implementation output is processed is reported
    as a deviation with the case as replay (on the unchanged tree nothing of this kind happens)"""
    def wrapped(run, drv, pending, case):
        try:
            return fn(run, drv, pending, case)
        except (KeyboardInterrupt, SystemExit):
            raise
        except Exception as e:
            run.oracle_failure(case, f"output of the implementation could not be processed ({type(e).__name__}: {str(e)[:200]})")
            return None
    return wrapped


DISPATCH = dict(session=guarded(do_session), array=guarded(do_array), public=guarded(do_public_any), seed=guarded(do_seed),
                catseed=guarded(do_catalog_seed), direct=guarded(do_direct), big=guarded(do_big))


def run(run, rng, tier):
    drv, pending = Driver(), []
    run.extra["csep_file"] = __import__("csep").__file__
    run.extra["weights_not_bitexact"] = 0
    # corpus: witnesses of the repaired defects D7, D8, D9 (must stay repaired) and hand-made boundary cases
    for path in sorted(glob.glob(os.path.join(VERIF, "corpus", "C06", "*.json"))):
        case = json.load(open(path))
        DISPATCH[case["kind"]](run, drv, pending, case)
        run.count("corpus")
    flush_all(run, drv, pending)
    quick = tier == "quick"
    n_array, n_direct, n_public, n_seed, n_cat, n_d10 = (1200, 500, 700, 20, 8, 6) if quick else (40000, 16000, 24000, 200, 80, 60)
    for which in (["bins", "count"] if quick else ["bins"] * 6 + ["count"] * 3):
        DISPATCH["big"](run, drv, pending, gen_big_case(rng, which))
    for k in range(2 * n_d10):
        case = gen_array_case(rng, tier, module=rng.choice(["binary", "brier"]), want_d10=True if k % 2 == 0 else "b")
        if case:
            DISPATCH["array"](run, drv, pending, case)
    for module in ("poisson", "binary", "brier"):
        for force_n in (129, 257):                  # just beyond numpy's summation block sizes, every run, every driver
            DISPATCH["array"](run, drv, pending, gen_array_case(rng, tier, module=module, force_n=force_n))
            run.count("array-size-beyond-block-boundary")
    for k in range(n_array):
        DISPATCH["array"](run, drv, pending, gen_array_case(rng, tier))
        if k % 200 == 199:
            flush_all(run, drv, pending)
    flush_all(run, drv, pending)
    for k in range(60 if quick else 1500):
        DISPATCH["session"](run, drv, pending, gen_session_case(rng, tier))
    flush_all(run, drv, pending)
    for k in range(n_direct):
        DISPATCH["direct"](run, drv, pending, gen_direct_case(rng))
    flush_all(run, drv, pending)
    for k in range(n_public):
        case = gen_public_case(rng, seeded=rng.random() < 0.25)
        if case:
            DISPATCH["public"](run, drv, pending, case)
        if k % 200 == 199:
            flush_all(run, drv, pending)
    flush_all(run, drv, pending)
    # near ties: smooth forecasts, many simulations, every public test
    for test in PUBLIC:
        for idx in range(8 if quick else 120):
            # the first case of every test is a long verbose run (>= 100 simulations, progress printing on)
            case = gen_neartie_case(rng, test, tier, force_verbose=(idx == 0))
            for _ in range(20):
                if case or idx != 0:
                    break
                case = gen_neartie_case(rng, test, tier, force_verbose=True)
            if case:
                if case.get("verbose"):
                    run.count("public-verbose-long-run")
                DISPATCH["public"](run, drv, pending, case)
        flush_all(run, drv, pending)
    # determinism for every seed incl. 0, every public test
    for test in PUBLIC:
        for seed in [0, 1, 2 ** 32 - 1] + [rng.randrange(2 ** 32) for _ in range(1 if quick else 4)]:
            for _ in range(max(1, n_seed // 10)):
                case = None
                while case is None:
                    case = gen_public_case(rng, test=test, seeded=True)
                    if case and (case.get("rows") is not None or not sensitive(case)):
                        case = None
                case = dict(case, kind="seed", seed=seed, seed_form=pick_seed_form(rng), ambient_a=rng.randrange(2 ** 31),
                            ambient_b=rng.randrange(2 ** 31),
                            burn=rng.randint(0, 5))
                DISPATCH["seed"](run, drv, pending, case)
    for seed in [0, 1, 2 ** 32 - 1] + [rng.randrange(2 ** 32) for _ in range(1 if quick else 4)]:
        for test in ("resampled_magnitude_test", "MLL_magnitude_test"):
            for _ in range(max(1, n_cat // 4)):
                DISPATCH["catseed"](run, drv, pending, dict(gen_catalog_seed_case(rng, seed), test=test))
    flush_all(run, drv, pending)
    # sanity of the determinism check itself: without a seed the ambient state shows (counted, no verdict)
    sens = 0
    for _ in range(5):
        case = None
        while case is None or case.get("rows") is not None or not sensitive(case):
            case = gen_public_case(rng, test="conditional_likelihood_test", seeded=True)
        fore, cat = build_public(case)
        mods = _mods()
        ks = []
        for amb in (1, 2):
            numpy.random.seed(amb)
            ks.append(result_key(mods["poisson"].conditional_likelihood_test(fore, cat, num_simulations=5, seed=None)))
        sens += ks[0] != ks[1]
    run.extra["unseeded_runs_differing_of_5"] = sens
    if COPY_UNSUPPORTED:
        run.extra["copy_forms_unsupported_by_the_tree"] = sorted(COPY_UNSUPPORTED)
    if HELPER_MISSING:
        run.extra["helpers_missing"] = sorted(HELPER_MISSING)
        run.assumptions.append("private helpers not found (or re-shaped) on the tree under test: " + ", ".join(sorted(HELPER_MISSING)) +
                               " - their direct cases were skipped; the public tests (statistics of the model's catalogs for the "
                               "injected / drawn numbers, quantile, determinism) decided")
    run.assumptions.append("bit-exactness of the sampling weights with Soft64 is reported (weights_not_bitexact); the "
                           "verdict rests on placements / counts / quantile / determinism")


def replay(run, payload):
    case = payload["case"]
    drv, pending = Driver(), []
    DISPATCH[case["kind"]](run, drv, pending, case)
    flush_all(run, drv, pending)
