"""C14 — catalog persistence round trips: correspondence of csep/core/catalogs.py (`write_ascii`, `to_dict/from_dict`,
`write_json/load_json`, `to_dataframe/from_dataframe`), csep/utils/readers.py (`csep_ascii`) and `csep.load_catalog`
with Model/Persist.lean + direct oracle.

Direct oracle (on the implementation's output alone, independent of the Lean model): the loaded catalog has the same
  number of events in the same order as the ORIGINAL catalog object and, event by event, the same id (decoded bytes),
  the same integer origin time and bitwise identical latitude, longitude, depth, magnitude (`struct.pack('<d', x)`, so
  -0.0 is not 0.0); an integer catalog id survives (ASCII / DataFrame: non-empty catalogs only, an empty catalog has no
  row that could carry it; dict/JSON: always); name and region survive dict/JSON. Codec checks on the written ASCII
  file: every float cell parses back to the bits that were written, every id cell to the id, every time cell parses
  (strptime + integer arithmetic) to the event's millisecond and has a fraction iff ms % 1000 != 0.
Correspondence (exact): records of the written file vs `c14_write`; what `csep.load_catalog` returns (or raises) vs
  `c14_read` on those records; dict / JSON and DataFrame round trips vs `c14_dict_rt` / `c14_frame_rt`; time cells vs
  `c14_timestr`; a malformed stream for the reader only.
"""
import contextlib
import csv
import datetime as _dt
import hashlib
import json
import math
import os
import shutil
import sys
import struct
import tempfile
import time

from .core import Driver, frac, VERIF

LEVEL_TEXT = ("Proof: the CSEP-ASCII writer followed by the reader returns every event (all six fields, order, count) and "
              "the integer catalog id for every list of events with times in 1900..2200, including the empty list; the "
              "time cell (epoch ms -> datetime -> str -> 'T' -> strptime with fraction sniffing -> epoch ms) is inverted "
              "by both reader formats and carries a fraction iff ms mod 1000 != 0; dict and DataFrame forms return the "
              "events, the catalog id, and (dict) name and region — the region's own dict form is modelled and proved to "
              "round-trip to a region with the same polygons and spacing that puts every point into the same cell; a "
              "catalog array without id column round-trips up to record-index ids; append mode without header is "
              "concatenation, also onto an empty first catalog. Round 5: the ASCII path is modelled down to the CHARACTERS of "
              "the file — the csv writer's QUOTE_MINIMAL quoting and the csv reader's state machine (proved inverse to each "
              "other for ALL cell contents, no hypothesis), the cell-by-cell conversion of csep_ascii (proved to refine the "
              "record model), and the float text str(numpy.float64(x)) (shortest round-trip digits, numpy/repr layout; proved "
              "to denote the shortest-repr decimal and to read back as x for every finite zero-or-normal double) — so "
              "ascii_file_roundtrip / ascii_file_append hold from catalog to characters to catalog with no codec hypothesis. Tied to "
              "the code by an exact correspondence of file records, loaded catalogs and raised exceptions on generated "
              "catalogs, all three formats, plus a direct field-by-field bitwise oracle on the real round trips.")
LEVEL_NOTE = ("Since round 5 csv quoting and the float text of the ASCII format are MODELLED and proved (Model/PersistText, "
              "Model/FloatText; compared with the bytes of every written file: c14_text_load on all, c14_text_write on a "
              "sample of ~20 000 float cells per quick run). Round 6: the float text theorem covers EVERY finite double "
              "(subnormals; on bit patterns also negative zero: float_bits_roundtrip), the digit search is proved to return "
              "THE shortest round-tripping decimal and the nearest among the shortest (digits_are_shortest / _nearest), so "
              "only 'numpy and CPython print the shortest repr' stays validated by correspondence; the whole JSON document "
              "(brackets, commas, indent, sort_keys, escapes, numbers) is proved to load back (json_document_roundtrip, on "
              "the C18 owner's Model/JsonText with the float instance proved here for all finite doubles); from_dataframe "
              "is modelled as selection BY COLUMN NAME (Model/FrameColumns). Still trusted: pandas' storage of the cells, "
              "NaN / inf (words NaN / Infinity in JSON; direct oracle). strptime is modelled for the canonical field widths that write_ascii produces. "
              "A None catalog id is outside the property (the ASCII loader turns it into -1): correspondence only.")
DESIGN_REF = "DESIGN.md §4 C14"
TECHNIQUE = "Lean 4 proof (list induction over the record model + Time codec lemmas) with differential correspondence"

THEOREMS = ["Persist.time_string_roundtrip", "Persist.time_string_fraction_iff", "Persist.ascii_roundtrip",
            "Persist.ascii_catalog_id", "Persist.dict_roundtrip", "Persist.dataframe_roundtrip", "Persist.append_concat",
            "Persist.ascii_keeps_duplicates", "Persist.dataframe_dict_keep_count",
            # round 4
            "Persist.ascii_roundtrip_no_id_column", "Persist.renumber_keeps_fields", "Persist.renumber_ids",
            "Persist.writeAsciiG_with_id", "Persist.append_concat_any", "Persist.region_dict_roundtrip",
            "Persist.region_dict_fixpoint", "Persist.region_name_survives_iff", "Persist.dict_roundtrip_concrete",
            "Persist.dict_roundtrip_bins_identically", "Persist.empty_catalog_region_survives",
            "Persist.class_id_defaults_to_cartesian", "Persist.finding_quadtree_form_loses_region",
            # phase 2
            "Persist.dataframe_dt_roundtrip", "Persist.frame_labels_irrelevant", "Persist.label_lookup_not_scalar",
            # round 5: text level (Properties/C14_Text.lean, C14_Float.lean)
            "PersistText.csv_roundtrip", "PersistText.csv_append", "PersistText.plain_cell_unquoted",
            "PersistText.quoted_cell_length", "PersistText.text_refines_records", "PersistText.ascii_text_roundtrip",
            "PersistText.ascii_text_roundtrip_no_id_column", "PersistText.ascii_text_append",
            "PersistText.float_text_roundtrip", "PersistText.float_text_denotes", "PersistText.floatStr_numeral",
            "PersistText.textCodec_headerSafe", "PersistText.ascii_file_roundtrip", "PersistText.ascii_file_append",
            # JSON tokens (Properties/C14_Json.lean)
            "CatalogJson.json_string_roundtrip", "CatalogJson.json_string_printable", "CatalogJson.json_event_roundtrip",
            "CatalogJson.json_catalog_id_roundtrip",
            # round 6: all finite doubles, THE shortest digits, bit patterns, the whole JSON document, named frame columns
            "CatalogDoc.float_text_roundtrip_all", "CatalogDoc.digits_are_shortest", "CatalogDoc.digits_at_level",
            "CatalogDoc.digits_are_nearest", "CatalogDoc.float_bits_roundtrip", "CatalogDoc.json_parse_render_all",
            "CatalogDoc.json_document_roundtrip", "FrameColumns.frame_columns_roundtrip",
            "FrameColumns.frame_column_order_irrelevant", "FrameColumns.frame_extra_column_irrelevant",
            "FrameColumns.frame_without_catalog_id"]
TRUSTED = ["Lean 4.33 kernel", "axioms: propext, Classical.choice, Quot.sound at most",
           "Model/FloatText.floatStr is what str(numpy.float64(x)) writes and DecimalText.pyFloat is what float(text) "
           "returns (hand transcriptions; the round trip between them is PROVED; tied to the code by comparing the bytes "
           "of written files and by the bitwise float-cell check on every cell)",
           "Model/PersistText is what csv.writer (QUOTE_MINIMAL, '\\r\\n') and csv.reader (default dialect) do (hand "
           "transcription of Modules/_csv.c; round trip PROVED; compared with csv on every written file and ~200 "
           "hand-made texts per run)",
           "json.dump/json.load and pandas column storage return what was stored (checked through the direct oracle on "
           "every generated catalog)",
           "CPython datetime/str/strptime for canonical field widths (hand transcription in Model/Time, validated by C15 "
           "and by the c14_timestr / c14_read correspondence)",
           "CartesianGrid2D.from_origins rebuilds the same lattice from the same origins and spacing (C01/C18; the dict "
           "form itself is modelled here and compared with the real to_dict / from_dict on every generated region)",
           "harness/c14.py generators, oracle and comparison; driver parsing (Proto.lean, Drive/C14.lean)"]
RULE = ("catalogs of 0..40 events (sizes 0, 1, 2, 40 always present) built with CSEPCatalog(data=...); ids over printable "
        "ASCII of length 1..30, sometimes up to the 256 bytes of the id field (longer ids are only observed: cut today; the constructed "
        "catalog is the reference), with ',' '\"' ';' quotes, leading/trailing/only spaces, number-like ids, 'lon', '#x', "
        "backslash; origin times uniform in 1900-01-01..2200-01-01, every millisecond phase 0..999 of random whole "
        "seconds, pre-1970, boundary values; coordinates/depth/magnitude as shortest-repr decimals, 17-digit doubles, "
        "nextafter neighbours, +-90/+-180, +-0.0, 5e-324, 1e-300, 1.7976931348623157e308, values within 1e-4 of zero "
        "(exponent notation in the file); catalog_id in {None, 0, 1, -1, -5, 7, 2^31, 2^53-1, 2^53, 2^53+1, 2^62, 2^62+1, "
        "2^63-1, -2^63, 2^63, 2^64+5, -2^70, random 54..63-bit, random}; name None/string; region None or a small "
        "CartesianGrid2D whose origins are a float array or an integer-dtype array (int64/int32 lattice built from "
        "range(), dh an int or a float). 30% of the catalogs with >= 2 events contain events identical in all six "
        "fields (adjacent copies, distant copies, a catalog of n copies of one event). Every catalog goes through ASCII "
        "(header/empty options, append pairs), dict, JSON and DataFrame, with the process's local time zone cycling "
        "through UTC, Asia/Tokyo, America/Los_Angeles, Europe/London and POSIX TZ strings (restored afterwards). A "
        "(catalog, format) evaluation is non-trivial when the catalog is empty, has an event with ms % 1000 != 0, an id "
        "containing one of , \" ; or a space, or two identical events; distinct by the SHA-1 of the replay case "
        "(catalog content + format + options + zone). Round 4: every catalog also through write_ascii(id_col=<a column "
        "the array does not have>) (empty id cells, ids become record indices); every catalog with a region: the "
        "region's dict form and the reloaded region (name, dh, polygon origins in order) against the model, the "
        "reloaded region must put every probe point (events, cell centres and quarter points, points outside) into "
        "the same cell as the original, per-cell counts against the model; hand-edited region dicts (class_id missing / "
        "None / unknown, region None, quadtree-like form, missing dh / polygons / name) against the model of the "
        "region branch of from_dict (recorded below the property level); append pairs with an empty first catalog. "
        "Phase 2: events sharing an origin time (duplicated labels of the datetime index, also at the head); every "
        "stored form (dict, frame, file) used twice and fingerprinted before/after loading; sessions of two catalog "
        "objects over shared file paths (write, load, append, edit the returned dict in place, serialise again); ASCII "
        "and JSON loaded through every documented entry point; NaN / infinite depths; structured arrays in non-native "
        "byte order; catalogs bound to a QuadtreeGrid2D (known finding D43); one catalog with more than 2^16 events. "
        "Round 5: the BYTES of every written ASCII file (<= 60 kB) go through the character-level model (c14_text_load "
        "must return what csep.load_catalog returned); for catalogs of <= 6 events and every 4th file the model predicts "
        "the bytes (c14_text_write; layout level); 29 hand-made raw texts per run (CR / LF / CRLF / mixed / missing line "
        "ends, empty lines, quoted cells with delimiters, doubled quotes and line ends, characters after a closing "
        "quote, unterminated quotes, records of 1..8 cells, blank-padded and exponent-spelled numbers); JSON also "
        "through the repository layer csep.write_json(obj, f) / csep.load_json(obj, f). Also round 5: catalogs built from "
        "non-contiguous / negative-stride views of structured arrays, a tuple of tuples, tuples of numpy scalars with bytes "
        "ids; file names as pathlib.Path with positional write_ascii options; 20% of the non-integer regions with a spacing "
        "that needs 17 digits (1/3, 1/7, nextafter(0.05), pi/20); the >2^16-event catalog with full-precision doubles; "
        "SECOND GENERATION: every third loaded catalog (every empty one) is persisted again through another form and must "
        "still hold the original events; 4 (16) catalogs with non-ASCII catalog / region names through all JSON routes, "
        "dict and ASCII in a child process under LC_ALL=C PYTHONUTF8=0 PYTHONCOERCECLOCALE=0. Property-level comparison "
        "is canonical (canon_load / canon_rt / canon_region): events always; the catalog id only for a non-empty catalog "
        "with an integer id (append pairs: only when all records carry the same id); invented ids of id-less files, the "
        "region's own name, index labels of frames, file layout, caller-side dict / frame mutation are recorded below "
        "the property level. Round 7 (classes h-m): 25% of the catalogs replaced by copy / deepcopy / pickle / dict image "
        "before use; rejected calls (unrepresentable time, non-utf-8 id, missing directory, bad option; malformed dict / "
        "frame) caught before the judged calls, incl. append=True to a file that does not exist; user subclass overriding "
        "the accessors with __len__ / __bool__; every fifth catalog under numpy.errstate(divide, invalid = raise) and a "
        "decimal context of 2..6 digits; a catalog appended to its own file; sub-check choices depend on the case only.")

# sub-classes on which the UNCHANGED pyCSEP contradicts the property: generated only once a decision (fix or known
# finding) has removed them from this list; see notes/C14.md "Awaiting decision"
AWAITING_DECISION = []
# "numpy-integer catalog_id through JSON" was fixed in /repo (D31, 532c783). "quadtree region through dict/JSON" is the
# KNOWN FINDING D43 (known_findings.json, signature below): catalogs bound to a QuadtreeGrid2D are generated and the loss of
# the region through dict / JSON is reported through run.oracle_failure(..., signature=QUADTREE_SIG) -> KNOWN-FINDING line.
QUADTREE_SIG = "quadtree-region-through-dict"

# ---- the process's local time zone must not matter (stored times are UTC epoch milliseconds)
ZONES = [None, "Asia/Tokyo", "America/Los_Angeles", None, "Europe/London", "JST-9", "PST8PDT,M3.2.0,M11.1.0",
         "NST3:30NDT,M3.2.0,M11.1.0", "Pacific/Kiritimati", "America/St_Johns", "Australia/Lord_Howe"]
_ZONE_OK = {}


@contextlib.contextmanager
def local_zone(zone):
    """run the body with the process's local time zone set to `zone` (None = leave as is); always restored"""
    if zone is None:
        yield
        return
    old = os.environ.get("TZ")
    try:
        os.environ["TZ"] = zone
        time.tzset()
        if zone not in _ZONE_OK:   # a zone name unknown to the C library silently means UTC
            _ZONE_OK[zone] = any(time.localtime(t).tm_gmtoff != 0 for t in (0, 15552000, 1600000000, 1610000000))
        yield
    finally:
        if old is None:
            os.environ.pop("TZ", None)
        else:
            os.environ["TZ"] = old
        time.tzset()

MS_LO = -2208988800000   # 1900-01-01
MS_HI = 7258118400000    # 2200-01-01
EPOCH = _dt.datetime(1970, 1, 1)
FLUSH_EVERY = 60         # catalogs per driver batch
MAX_SHRINKS = 6          # attempts to reduce a failing catalog to the single failing event


# ------------------------------------------------------------------------------------------------ small helpers
def hx(s):
    """driver form of a string: 'x' + lowercase hex of its bytes"""
    return "x" + s.encode("utf-8").hex()


def bits(x):
    return struct.pack("<d", float(x))


_RAT_CACHE = {}


def rat(x):
    """exact n/d of a double; a non-finite value (never generated, never expected) gives a token no model output equals.
    Memoised: the same events are written into several driver requests."""
    x = float(x)
    if not math.isfinite(x):
        return "nonfinite"
    r = _RAT_CACHE.get(x)
    if r is None:
        if len(_RAT_CACHE) > 500000:
            _RAT_CACHE.clear()
        r = _RAT_CACHE[x] = frac(x)
    return r


def is_int(x):
    import numpy
    return isinstance(x, (int, numpy.integer)) and not isinstance(x, (bool, numpy.bool_))


def catid_tok(x):
    if x is None:
        return "none"
    return str(int(x)) if is_int(x) else "other:" + type(x).__name__


def event_tok(e):
    return f"{hx(e[0])},{e[1]},{rat(e[2])},{rat(e[3])},{rat(e[4])},{rat(e[5])}"


def events_tok(evs):
    return ";".join(event_tok(e) for e in evs) if evs else "-"


TINY = 2.2250738585072014e-308     # smallest normal double: the float-text theorems cover zero and normal doubles


def text_model_ok(evs):
    """can Model/FloatText + Model/PersistText speak about these events: finite doubles, no negative zero (a rational
    has no sign of zero), zero or normal (the theorem's domain), ASCII ids"""
    for e in evs:
        for x in e[2:6]:
            if not math.isfinite(x) or (x == 0.0 and math.copysign(1.0, x) < 0) or (x != 0.0 and abs(x) < TINY):
                return False
        if not e[0].isascii():
            return False
    return True


def exc_tok(e):
    from csep.core.exceptions import CSEPIOException
    if isinstance(e, CSEPIOException):
        return "CSEPIOException"
    if isinstance(e, ValueError):
        return "ValueError"
    return type(e).__name__


def events_of(cat):
    """events of a CSEPCatalog in dtype order as Python values (id decoded, ms int, four floats)"""
    out = []
    data = cat.catalog
    if data is None:                 # a catalog object without event array: no events (reported by the comparison)
        return out
    for rec in data.tolist():
        i = rec[0]
        if isinstance(i, bytes):
            i = i.decode("utf-8")
        out.append((i if isinstance(i, str) else repr(i), int(rec[1]), float(rec[2]), float(rec[3]), float(rec[4]),
                    float(rec[5])))
    return out


def spec_event(i, ms, lat, lon, depth, mag):
    """JSON form of one generated event: id as hex, ms int, doubles as float.hex()"""
    return [i.encode("ascii").hex(), int(ms), float(lat).hex(), float(lon).hex(), float(depth).hex(), float(mag).hex()]


def event_of_spec(s):
    return (bytes.fromhex(s[0]).decode("ascii"), int(s[1]), float.fromhex(s[2]), float.fromhex(s[3]),
            float.fromhex(s[4]), float.fromhex(s[5]))


def build_region(rs):
    import numpy
    from csep.core.regions import CartesianGrid2D
    if rs is None:
        return None
    if rs.get("quadkeys"):
        from csep.core.regions import QuadtreeGrid2D
        return QuadtreeGrid2D.from_quadkeys(list(rs["quadkeys"]), name=rs.get("name"))
    origins = numpy.array([[float.fromhex(x), float.fromhex(y)] for x, y in rs["origins"]])
    dh = float.fromhex(rs["dh"])
    if rs.get("origins_dtype"):      # a lattice given as an integer-dtype array (grid built from range())
        origins = numpy.array([[int(float.fromhex(x)), int(float.fromhex(y))] for x, y in rs["origins"]],
                              dtype=rs["origins_dtype"])
    if rs.get("dh_kind") == "int":
        dh = int(dh)
    elif rs.get("dh_kind"):
        dh = getattr(numpy, rs["dh_kind"])(dh)
    mags = rs.get("magnitudes")
    mags = None if mags is None else numpy.array([float.fromhex(m) for m in mags])
    return CartesianGrid2D.from_origins(origins, dh=dh, magnitudes=mags, name=rs.get("name"))


def spec_events(spec):
    """the events of a spec; `tile` = n: the listed events repeated up to n events with ids e0, e1, … and times
    shifted by the event number (catalogs with more than 2^16 events at the cost of a short spec)"""
    evs = spec["events"]
    n = spec.get("tile")
    if not n or not evs:
        return evs
    out = []
    for k in range(n):
        e = list(evs[k % len(evs)])
        e[0] = f"e{k}".encode("ascii").hex()
        e[1] = int(e[1]) + (k // len(evs))
        out.append(e)
    return out


def build_catid(spec):
    """the catalog id of a spec: a Python int / None, or (spec['catalog_id_np'] = numpy type name) a numpy integer"""
    cid = spec["catalog_id"]
    if cid is not None and spec.get("catalog_id_np"):
        import numpy
        return getattr(numpy, spec["catalog_id_np"])(cid)
    return cid


def build(spec, with_region=True):
    """the catalog as the user hands it over: a list of tuples (default), a list of lists, a mixture, or a structured
    array of the catalog dtype (round 4: the branches of _get_catalog_as_ndarray, catalogs.py:284-293)"""
    from csep.core.catalogs import CSEPCatalog
    data = [event_of_spec(s) for s in spec_events(spec)]
    kind = spec.get("data_kind")
    if kind == "lists":
        data = [list(e) for e in data]
    elif kind == "mixed":
        data = [e if k % 2 == 0 else list(e) for k, e in enumerate(data)]
    elif kind == "ndarray":
        import numpy
        data = numpy.array(data, dtype=CSEPCatalog.dtype)
    elif kind == "ndarray-be":       # non-native byte order of the numeric columns ('>i8', '>f8'), as read from binary files
        import numpy
        data = numpy.array(data, dtype=CSEPCatalog.dtype.newbyteorder(">"))
    elif kind == "ndarray-strided":  # round 5: a non-contiguous view (every second record of a longer array)
        import numpy
        wide = numpy.zeros(2 * len(data), dtype=CSEPCatalog.dtype)
        wide["id"] = b"filler"
        wide["origin_time"] = -1
        for k, e in enumerate(data):
            wide[2 * k] = e
        data = wide[::2]
    elif kind == "ndarray-reversed-view":   # negative stride: the records are stored in reverse order in memory
        import numpy
        data = numpy.array(data[::-1], dtype=CSEPCatalog.dtype)[::-1]
    elif kind == "tuple-of-tuples":
        data = tuple(data)
    elif kind == "numpy-scalars":    # event tuples holding numpy scalars and bytes ids (what slicing another catalog gives)
        import numpy
        data = [(e[0].encode("ascii"), numpy.int64(e[1]), numpy.float64(e[2]), numpy.float64(e[3]), numpy.float64(e[4]),
                 numpy.float64(e[5])) for e in data]
    region = build_region(spec["region"]) if with_region else None
    if kind == "all-keywords":       # round 6: every constructor keyword spelled out (CSEPCatalog takes keywords only)
        return CSEPCatalog(filename=None, data=data, catalog_id=build_catid(spec), format=None, name=spec["name"],
                           region=region, compute_stats=True, filters=None, metadata=None, date_accessed=None)
    if kind == "subclass":           # a user's catalog class that inherits everything
        SubCatalog = user_classes()[0]
        cat = SubCatalog(data=data, catalog_id=build_catid(spec), name=spec["name"], region=region)
    elif kind == "accessor-subclass":
        # round 7 (j): a user subclass that overrides the documented accessors CONSISTENTLY (fresh arrays with the stored
        # values) and defines __len__ / __bool__ (an empty catalog is falsy)
        AccessorCatalog = user_classes()[1]
        cat = AccessorCatalog(data=data, catalog_id=build_catid(spec), name=spec["name"], region=region)
    else:
        cat = CSEPCatalog(data=data, catalog_id=build_catid(spec), name=spec["name"], region=region)
    return copied(cat, spec.get("copy_form"))


def user_classes():
    """the user's catalog classes, defined once at module level (so that pickle can find them by name)"""
    g = globals()
    if "SubCatalog" not in g or g["SubCatalog"].__mro__[1].__module__ not in sys.modules:
        import numpy
        from csep.core.catalogs import CSEPCatalog

        class SubCatalog(CSEPCatalog):
            pass

        class AccessorCatalog(CSEPCatalog):
            def get_magnitudes(self): return numpy.array(self.catalog["magnitude"], copy=True)
            def get_longitudes(self): return numpy.array(self.catalog["longitude"], copy=True)
            def get_latitudes(self): return numpy.array(self.catalog["latitude"], copy=True)
            def get_depths(self): return numpy.array(self.catalog["depth"], copy=True)
            def get_epoch_times(self): return numpy.array(self.catalog["origin_time"], copy=True)
            def get_number_of_events(self): return 0 if self.catalog is None else int(self.catalog.shape[0])
            def __len__(self): return self.get_number_of_events()
            def __bool__(self): return len(self) > 0
        for c in (SubCatalog, AccessorCatalog):
            c.__qualname__ = c.__name__
            c.__module__ = __name__
            g[c.__name__] = c
    return g["SubCatalog"], g["AccessorCatalog"]


COPY_FORMS = ["copy", "deepcopy", "pickle", "dict-image"]
_COPY_UNSUPPORTED = set()


def copied(cat, form):
    """round 7 (h): the object the operation is applied to is a copy / a pickle image / the to_dict -> from_dict image of
    the catalog; the expected result is that of the original. A form the tree cannot apply to this kind of catalog is
    skipped (counted once in run.extra through _COPY_UNSUPPORTED)."""
    if not form:
        return cat
    import copy
    import pickle
    try:
        if form == "copy":
            return copy.copy(cat)
        if form == "deepcopy":
            return copy.deepcopy(cat)
        if form == "pickle":
            return pickle.loads(pickle.dumps(cat))
        if form == "dict-image" and not hasattr(cat.region, "quadkeys"):     # (quadtree regions do not survive: D43)
            return type(cat).from_dict(cat.to_dict())
    except Exception as e:
        _COPY_UNSUPPORTED.add(f"{form}: {type(e).__name__}")
    return cat


def check_construction(ctx, case):
    """what the constructor stores is what was handed over (ids cut to the 256 bytes of the dtype), whatever container
    the events came in"""
    spec = case["cat"]
    want = [(e[0][:256],) + e[1:] for e in (event_of_spec(s) for s in spec_events(spec))]
    fails = []
    compare_events(f"construction from {spec.get('data_kind') or 'tuples'}", want, events_of(build(spec, with_region=False)), fails)
    ctx.run.case(summary(case), None)
    ctx.run.count("format:construct")
    ctx.run.count("construct:" + (spec.get("data_kind") or "tuples"))
    if fails:
        ctx.fail(case, *fails[0])
    # an id longer than the 256-byte field: observed only (cut to 256 bytes today; rejecting it would be as good)
    try:
        from csep.core.catalogs import CSEPCatalog
        long_id = "L" * 300
        got = events_of(CSEPCatalog(data=[(long_id, 0, 1.0, 2.0, 3.0, 4.0)]))
        ctx.run.count("construct:id of 300 characters " + ("cut to 256" if got and got[0][0] == long_id[:256] else
                                                             "kept" if got and got[0][0] == long_id else "other"))
    except Exception as e:
        ctx.run.count("construct:id of 300 characters rejected with " + type(e).__name__)


def nontrivial(spec, spec2=None):
    evs = list(spec["events"]) + (list(spec2["events"]) if spec2 else [])
    if not spec["events"] or (spec2 is not None and not spec2["events"]):
        return True
    for s in evs:
        if s[1] % 1000 != 0 or any(c in bytes.fromhex(s[0]).decode("ascii") for c in ',"; '):
            return True
    return has_duplicates(spec) or (spec2 is not None and has_duplicates(spec2))


def has_duplicates(spec):
    return len({tuple(s) for s in spec["events"]}) < len(spec["events"])


def case_key(case):
    return hashlib.sha1(json.dumps(case, sort_keys=True).encode()).hexdigest()[:20]


_SEL_CACHE = {}


def sel(case, n, salt=0):
    """a choice 0..n-1 that depends on the CASE only (not on how many files the run has written so far), so that a replay
    of the case takes the same branches"""
    k = id(case)
    hit = _SEL_CACHE.get(k)
    if hit is None or hit[0] is not case:
        if len(_SEL_CACHE) > 64:
            _SEL_CACHE.clear()
        hit = _SEL_CACHE[k] = (case, int(case_key(case), 16))
    return (hit[1] // (1 + 7919 * salt)) % n


def summary(case):
    """short description of a case for the evidence samples"""
    c = case["cat"]
    s = dict(fmt=case["fmt"], n=len(c["events"]), catalog_id=c["catalog_id"], name=c["name"],
             region=None if c["region"] is None else len(c["region"].get("origins") or c["region"].get("quadkeys")), opts=case.get("opts"), tz=case.get("tz"))
    if c["events"]:
        e = event_of_spec(c["events"][0])
        s["first"] = [e[0][:24], e[1], e[2], e[3], e[4], e[5]]
    if "cat2" in case:
        s["n2"] = len(case["cat2"]["events"])
    return s


# ------------------------------------------------------------------------------------------------ files -> records
def read_rows(path):
    with open(path, "r", newline="") as f:
        return [row for row in csv.reader(f, delimiter=",")]


def row_tok(row):
    """record form of one csv row; None when the row cannot be expressed in the record model"""
    if row and row[0] == "lon":
        return "H"
    if len(row) != 7:
        return None
    cells = []
    for k in (0, 1, 2, 4):
        try:
            v = float(row[k])
        except ValueError:
            cells.append("!")
            continue
        if not math.isfinite(v):
            return None
        cells.append(frac(v))
    return f"{cells[0]},{cells[1]},{cells[2]},{hx(row[3])},{cells[3]},{hx(row[5])},{hx(row[6])}"


def rows_tok(rows):
    toks = [row_tok(r) for r in rows]
    if any(t is None for t in toks):
        return None
    return ";".join(toks) if toks else "-"


def time_cell_ms(cell):
    """independent reading of a time cell: (epoch ms by integer arithmetic, has a fraction)"""
    has_frac = "." in cell
    dt = _dt.datetime.strptime(cell, "%Y-%m-%dT%H:%M:%S.%f" if has_frac else "%Y-%m-%dT%H:%M:%S")
    d = dt - EPOCH
    us = (d.days * 86400 + d.seconds) * 1000000 + d.microseconds
    return (us // 1000 if us % 1000 == 0 else None), has_frac


class _Probe:
    """stand-in for core.Run while a failing case is being reduced: records nothing"""
    extra = {}

    def case(self, *a, **k):
        pass

    def count(self, *a, **k):
        pass


def _mask_ids(events):
    """events token with the id cells blanked"""
    if events == "-":
        return events
    return ";".join("x," + e.split(",", 1)[1] if "," in e else e for e in events.split(";"))


def canon_load(demand_id, mask_ids=False):
    """PROPERTY-LEVEL view of an `ok <catalog id> <events>` response (c14_read / c14_text_load): the events always; the
    catalog id only where the property speaks ("an integer catalog id survives": integer id, non-empty catalog); the ids
    not when the format carried none. What the code happens to answer elsewhere (None for an empty file, -1 for a None id,
    record indices as invented ids) is incidental: a difference there is recorded below the property level."""
    def canon(resp):
        parts = resp.split(" ")
        if parts[0] != "ok" or len(parts) != 3:
            return resp
        return ("ok", parts[1] if demand_id else "*", _mask_ids(parts[2]) if mask_ids else parts[2])
    return canon


def canon_rt(demand_id):
    """property-level view of `<catalog id> <events> [extra]` (c14_dict_rt / c14_frame_rt / c14_frame_dt_rt)"""
    def canon(resp):
        parts = resp.split(" ")
        if len(parts) < 2:
            return resp
        return (parts[0] if demand_id else "*", parts[1])
    return canon


def canon_region(resp):
    """`<name> <dh> <origins>`: the region's own name is not part of the property (it goes through str() today)"""
    parts = resp.split(" ")
    return tuple(parts[1:]) if len(parts) == 3 else resp


class Ctx:
    def __init__(self, run, tmp, probe=False):
        self.run, self.tmp, self.probe = run, tmp, probe
        self.drv = Driver()
        self.pending = []            # (line index, expected response, case)
        self.failures = []           # probe mode: oracle failures seen
        self.seen_ms = set()
        self.nfile = 0
        self.shrinks = 0
        self.agree = self.total = 0
        self.layout_div = []         # model/impl differences finer than the property (evidence only)
        self.n_float_cells = self.n_id_cells = self.n_time_cells = self.n_events = 0
        self.n_text_cells = 0         # float cells whose characters were predicted by Model/FloatText

    def path(self, ext):
        self.nfile += 1
        return os.path.join(self.tmp, f"c{self.nfile}.{ext}")

    # -- correspondence
    def ask(self, line, expected, case, canon=None):
        if "nonfinite" in line or "nonfinite" in str(expected):
            self.run.count("model skipped: non-finite value (direct oracle only)")
            return
        if len(line) > 300000:
            self.run.count("model skipped: catalog too large for one driver line (direct oracle only)")
            return
        if not self.probe:
            self.pending.append((self.drv.ask(line), expected, case, canon))

    def flush(self):
        out = self.drv.run()
        for i, expected, case, canon in self.pending:
            self.total += 1
            if out[i] == expected:
                self.agree += 1
            else:
                op = self.drv.lines[i].split(" ", 1)[0]
                below = ((canon is not None and canon(out[i]) == canon(expected))
                         or op in ("c14_write", "c14_writeg", "c14_timestr", "c14_region_dict", "c14_region_load",
                                   "c14_text_write", "c14_json_str", "c14_json_unstr", "c14_floatstr", "c14_reprbits")
                         or case.get("kind") == "malformed"
                         or (case.get("fmt") == "append" and case.get("opts", {}).get("header2")))
                if below:
                    # file layout / reader behaviour on files the writer never produces: finer than the property
                    # (BUILD_GUIDE §4). Recorded in the evidence as loss of exact model agreement, not a verdict; the
                    # property-level ops (c14_read on written files, c14_dict_rt, c14_frame_rt) and the oracle decide.
                    self.layout_div.append((op, _clip(case, 300), _clip(expected, 200), _clip(out[i], 200)))
                else:
                    self.run.mismatch(dict(case, op=op), _clip(expected), _clip(out[i]))
        self.drv, self.pending = Driver(), []
        r = self.run
        r.extra["model_divergence_below_property_level"] = dict(count=len(self.layout_div), first=self.layout_div[:3])
        r.extra["bitexact_agreement"] = f"{self.agree}/{self.total}"
        r.extra["float_cells_codec_checked"] = self.n_float_cells
        r.extra["float_cells_text_predicted_by_model"] = self.n_text_cells
        r.extra["id_cells_codec_checked"] = self.n_id_cells
        r.extra["time_cells_checked"] = self.n_time_cells
        r.extra["events_compared_fieldwise"] = self.n_events

    # -- oracle
    def fail(self, case, detail, k=None, signature=None):
        """the real round trip contradicts the property on `case`; `k` = index of the offending event (if one);
        `signature` = the signature of a known finding (printed as KNOWN-FINDING, exit code unaffected)"""
        if self.probe:
            self.failures.append(detail)
            return
        if signature is not None:
            self.run.oracle_failure(case, detail, signature=signature)
            return
        evs = (case.get("cat") or {}).get("events", [])
        if k is not None and "cat2" not in case and len(evs) > 1 and k < len(evs) and self.shrinks < MAX_SHRINKS:
            self.shrinks += 1
            small = dict(case, cat=dict(case["cat"], events=[evs[k]]))
            probe = Ctx(_Probe(), self.tmp, probe=True)
            probe.nfile = self.nfile + 100000
            try:
                check_case(probe, small)
            except Exception:
                probe.failures = []
            if probe.failures:
                self.run.oracle_failure(small, probe.failures[0])
                return
        self.run.oracle_failure(case, detail)

    def account(self, case, *branches):
        spec = case["cat"]
        self.run.case(summary(case), case_key(case) if nontrivial(spec, case.get("cat2")) else None)
        self.run.count("format:" + case["fmt"])
        for b in branches:
            self.run.count(b)
        if has_duplicates(spec) or ("cat2" in case and has_duplicates(case["cat2"])):
            self.run.count("catalog with events identical in all six fields")
        cid = spec["catalog_id"]
        if cid is not None and abs(cid) > 2 ** 53:
            self.run.count("catalog_id beyond 2^53" + (" (beyond int64)" if not -2 ** 63 <= cid < 2 ** 63 else ""))
        if spec.get("catalog_id_np"):
            self.run.count("catalog_id numpy." + spec["catalog_id_np"])
        if spec["region"] is not None and spec["region"].get("quadkeys"):
            self.run.count("region QuadtreeGrid2D")
        if spec["region"] is not None and spec["region"].get("origins_dtype"):
            self.run.count(f"region origins {spec['region']['origins_dtype']}, dh {spec['region'].get('dh_kind') or 'float'}")


def _clip(s, lim=600):
    s = str(s)
    return s if len(s) <= lim else s[:lim] + f"...[{len(s)} chars]"


def compare_events(what, ref, got, fails):
    """direct oracle: same count, same order, identical fields (floats bitwise). Appends (detail, event index)."""
    if len(got) != len(ref):
        fails.append((f"{what}: event count {len(got)} after the round trip, {len(ref)} before", None))
        return
    names = ("id", "origin_time", "latitude", "longitude", "depth", "magnitude")
    for k, (a, b) in enumerate(zip(ref, got)):
        for j in (0, 1):
            if a[j] != b[j]:
                fails.append((f"{what}: {names[j]} of event {k}: {a[j]!r} -> {b[j]!r}", k))
        for j in (2, 3, 4, 5):
            if bits(a[j]) != bits(b[j]):
                fails.append((f"{what}: {names[j]} of event {k}: {a[j]!r} ({a[j].hex()}) -> {b[j]!r} ({b[j].hex()})", k))


def second_generation(what, loaded, ref, fails, how):
    """round 5: what a round trip returns is itself a catalog — it can be persisted again. The loaded object goes
    through ANOTHER form (`how`: 'dict' or 'frame') and must still hold the original events (count, order, fields)."""
    from csep.core.catalogs import CSEPCatalog
    if how == "frame" and getattr(loaded, "region", None) is not None:
        how = "dict"       # to_dataframe bins the events into the region and (correctly) refuses events outside it
    try:
        if how == "dict":
            again = CSEPCatalog.from_dict(loaded.to_dict())
        else:
            again = CSEPCatalog.from_dataframe(loaded.to_dataframe())
        compare_events(f"{what}, then the loaded catalog through {how} again", ref, events_of(again), fails)
    except Exception as e:
        fails.append((f"{what}: the loaded catalog cannot be persisted again through {how}: {type(e).__name__}: {e}", None))


def same_events(a, b):
    """count, order, ids, times equal and the four floats bitwise equal (NaN equals NaN)"""
    tmp = []
    compare_events("", a, b, tmp)
    return not tmp


def frame_fingerprint(df):
    """columns, index labels and values of a data frame as text (dtype / byte-order representation does not count)"""
    if len(df) > 5000:
        return (list(map(str, df.columns)), len(df))
    return (list(map(str, df.columns)), [str(i) for i in df.index],
            [[repr(v) for v in df[c].tolist()] for c in df.columns])


def compare_catid(what, want, got, fails):
    if not (is_int(got) and int(got) == want):
        fails.append((f"{what}: catalog_id {want!r} -> {got!r} ({type(got).__name__})", 0))


# ------------------------------------------------------------------------------------------------ ASCII
def written_file(ctx, path, ref, old_rows, fails):
    """Parse the file after a write_ascii call and run the codec checks on the data records this call added (`ref` =
    the events written, `old_rows` = the file's rows before the call). Whether and where header records appear is the
    model's business (c14_write), not the oracle's: a file whose new data records do not line up one-to-one with the
    events is left to the round-trip oracle and the correspondence. Returns (all rows, record text or None)."""
    rows = read_rows(path)
    new = [r for r in rows[len(old_rows):] if r[:1] != ["lon"]]
    if rows[:len(old_rows)] != old_rows or len(new) != len(ref) or any(len(r) != 7 for r in new):
        ctx.run.count("ascii:codec checks skipped (records do not line up with the events)")
        return rows, rows_tok(rows)
    for k, (row, e) in enumerate(zip(new, ref)):
        for col, j, name in ((0, 3, "lon"), (1, 2, "lat"), (2, 5, "mag"), (4, 4, "depth")):
            ctx.n_float_cells += 1
            try:
                v = float(row[col])
            except ValueError:
                v = None
            if v is None or bits(v) != bits(e[j]):
                fails.append((f"float text codec: {name} cell {row[col]!r} of event {k} is not the double {e[j]!r} "
                              f"({e[j].hex()}) that was written", k))
        ctx.n_id_cells += 1
        if row[6] != e[0]:
            fails.append((f"csv text codec: event_id cell {row[6]!r} of event {k} is not the id {e[0]!r}", k))
        ctx.n_time_cells += 1
        try:
            ms, has_frac = time_cell_ms(row[3])
        except ValueError:
            ms, has_frac = None, None
        if ms != e[1]:
            fails.append((f"time cell: {row[3]!r} written for origin_time {e[1]} of event {k} reads as {ms}", k))
        elif has_frac != (e[1] % 1000 != 0):
            fails.append((f"time cell: {row[3]!r} for origin_time {e[1]}: fraction present iff ms % 1000 != 0 fails", k))
        if e[1] not in ctx.seen_ms:
            ctx.seen_ms.add(e[1])
            ctx.ask(f"c14_timestr {e[1]}", row[3], dict(kind="timestr", ms=e[1]))
    return rows, rows_tok(rows)


ASCII_VIAS = ["default", "type", "format-csep", "loader", "class", "pathlib", "positional", "subclass"]


@contextlib.contextmanager
def strict_warnings():
    """warnings as errors, except deprecation notices (pyCSEP itself calls the deprecated datetime.utcnow())"""
    import warnings
    with warnings.catch_warnings():
        warnings.simplefilter("error")
        for c in (DeprecationWarning, PendingDeprecationWarning, FutureWarning):
            warnings.simplefilter("ignore", c)
        yield


def load_ascii(path, via="default"):
    """load a CSEP ASCII file through one of the documented entry points -> (catalog or None, canonical response for
    c14_read, exception)"""
    import csep
    try:
        if via == "type":
            cat = csep.load_catalog(path, type="csep-csv", format="native")
        elif via == "format-csep":
            cat = csep.load_catalog(path, format="csep")
        elif via == "loader":
            from csep.utils import readers
            cat = csep.load_catalog(path, loader=readers.csep_ascii)
        elif via == "class":
            from csep.core.catalogs import CSEPCatalog
            cat = CSEPCatalog.load_catalog(path)
        elif via == "pathlib":
            import pathlib
            cat = csep.load_catalog(pathlib.Path(path))
        elif via == "positional":          # round 6: csep.load_catalog(filename, type, format, loader, apply_filters) by position
            try:
                with strict_warnings():
                    cat = csep.load_catalog(path, "csep-csv", "native", None, False)
            except Warning:
                cat = csep.load_catalog(path, "csep-csv", "native", None, False)
        elif via == "subclass":            # a user's subclass of CSEPCatalog is the one that loads
            from csep.core.catalogs import CSEPCatalog
            class SubCatalog(CSEPCatalog):
                pass
            cat = SubCatalog.load_catalog(filename=path)
        else:
            cat = csep.load_catalog(path)
        resp = f"ok {catid_tok(cat.catalog_id)} {events_tok(events_of(cat))}"
    except Exception as e:
        return None, exc_tok(e), e
    return cat, resp, None


def poison_events(ref, kind):
    """the catalog's events with one event in the middle that cannot be written: an origin time datetime cannot hold, or an
    id that is not utf-8"""
    bad = ("broken", 2 ** 60, 1.0, 2.0, 3.0, 4.0) if kind.startswith("bad-time") else (b"\xff\xfe", 1500000000000, 1.0, 2.0, 3.0, 4.0)
    k = (len(ref) + 1) // 2
    return list(ref[:k]) + [bad] + list(ref[k:])


def failed_call_prelude(ctx, case, cat, ref, path, kind, hdr, emp):
    """round 7 (i): a call the library REJECTS on the same file name / the same object, caught by the caller, who removes
    whatever partial output there is; the legal calls that follow are judged as usual"""
    from csep.core.catalogs import CSEPCatalog
    try:
        if kind == "bad-path":
            cat.write_ascii(os.path.join(os.path.dirname(path), "no_such_directory", "c.csv"), write_header=hdr, write_empty=emp)
        elif kind == "bad-option":
            cat.write_ascii(path, write_header=hdr, write_empty=emp, id_col=["not", "hashable"])
        else:
            poison = CSEPCatalog(data=poison_events(ref, kind), catalog_id=case["cat"]["catalog_id"], compute_stats=False)
            poison.write_ascii(path, write_header=hdr, write_empty=emp, append=kind.endswith("append"))
        ctx.run.count(f"prelude {kind}: the call was NOT rejected")
    except Exception as e:
        ctx.run.count(f"prelude {kind}: rejected with {type(e).__name__}, caught")
    if os.path.exists(path):
        os.remove(path)


def leftovers(ctx, path):
    d, base = os.path.dirname(path), os.path.basename(path)
    extra = [f for f in os.listdir(d) if f != base and f.startswith(base)]
    if extra:
        ctx.run.count("observed: files left next to the target: " + ",".join(sorted(x[len(base):] for x in extra)))
        for f in extra:
            with contextlib.suppress(OSError):
                os.remove(os.path.join(d, f))


def check_ascii(ctx, case):
    spec, o = case["cat"], case["opts"]
    hdr, emp = bool(o["write_header"]), bool(o["write_empty"])
    noid = bool(o.get("no_id_col"))     # round 4: write_ascii(id_col=<a column the array does not have>)
    cat = build(spec, with_region=False)
    ref = events_of(cat)
    path = ctx.path("csv")
    fails, codec = [], []        # round-trip failures are reported before codec failures
    branches = [f"ascii:header={int(hdr)},write_empty={int(emp)}" + (",no id column" if noid else "")]
    app_new = bool(o.get("append_new")) and not noid
    if o.get("prelude") and not noid:
        failed_call_prelude(ctx, case, cat, ref, path, o["prelude"], hdr, emp)
        branches.append("ascii:after a rejected call (" + o["prelude"] + ")")
    try:
        if noid:
            cat.write_ascii(path, write_header=hdr, write_empty=emp, id_col="no_such_column")
        elif app_new:
            # append mode on a file that does not exist yet (how a stochastic event set is started) = a plain write
            cat.write_ascii(path, write_header=hdr, write_empty=emp, append=True)
            branches.append("ascii:append=True to a file that does not exist")
        elif o.get("via") == "pathlib":
            import pathlib
            cat.write_ascii(pathlib.Path(path), hdr, emp)          # positional options, a Path for the file name
        elif sel(case, 7, 1) == 0:
            # round 6: every option by position, and warnings (other than deprecation notices) turned into exceptions
            try:
                with strict_warnings():
                    cat.write_ascii(path, hdr, emp, False, "id")
            except Warning as w:       # an observation about the environment; the round trip is judged on the ordinary call
                ctx.run.count("observed: write_ascii raises only under warnings-as-errors: " + type(w).__name__)
                cat.write_ascii(path, hdr, emp, False, "id")
            branches.append("ascii:all options positional, warnings as errors")
        else:
            cat.write_ascii(path, write_header=hdr, write_empty=emp)
    except Exception as e:
        ctx.fail(case, f"ascii write: write_ascii raised {type(e).__name__}: {e}")
        ctx.account(case, *branches)
        return
    # without id column the id cells are empty and the reader numbers the records by their index in the file
    written = [("",) + e[1:] for e in ref] if noid else ref
    expect = [(str(k + (1 if hdr else 0)),) + e[1:] for k, e in enumerate(ref)] if noid else ref
    if o.get("prelude"):
        leftovers(ctx, path)
    rows, recs = written_file(ctx, path, written, [], codec)
    ctx.n_events += len(ref)
    if recs is not None:
        if noid:
            ctx.ask(f"c14_writeg {int(hdr)} {int(emp)} 0 {catid_tok(spec['catalog_id'])} {events_tok(ref)} - 0", recs, case)
        else:
            ctx.ask(f"c14_write {int(hdr)} {int(emp)} 0 {catid_tok(spec['catalog_id'])} {events_tok(ref)} -", recs, case)
    via = o.get("via", "default")
    branches.append(f"ascii:load via {via}")
    loaded, resp, exc = load_ascii(path, via)
    demand_id = bool(ref) and is_int(spec["catalog_id"])
    if recs is not None:
        ctx.ask(f"c14_read {recs}", resp, case, canon_load(demand_id, mask_ids=noid))
    # text level (round 5): the BYTES of the file against Model/PersistText + Model/FloatText — csv quoting, line ends and
    # the float text are inside the model, nothing is pre-parsed by the harness
    with open(path, "rb") as f:
        raw = f.read()
    if len(raw) <= 60000 and raw.isascii():
        # what csep.load_catalog makes of these bytes = what the text model makes of them (property level)
        ctx.ask(f"c14_text_load x{raw.hex()}", resp, case, canon_load(demand_id, mask_ids=noid))
        ctx.run.count("ascii:file bytes through the text model (c14_text_load)")
        if text_model_ok(ref) and (len(ref) <= 6 or sel(case, 5, 2) == 0):
            # the bytes themselves (file layout: below the property level, recorded as divergence only)
            ctx.ask(f"c14_text_write {int(hdr)} {int(emp)} {catid_tok(spec['catalog_id'])} {events_tok(ref)} {int(not noid)}",
                    "x" + raw.hex(), case)
            ctx.run.count("ascii:file bytes predicted by the text model (c14_text_write)")
            ctx.n_text_cells += 4 * len(ref)
    if loaded is not None and o.get("load_twice"):
        # the file is the stored form: a second load (after another file was read in between) gives the same catalog
        again, resp2, exc2 = load_ascii(path, "default")
        if resp2 != resp:
            fails.append((f"ascii round trip: the second load of the same file gives {_clip(resp2, 200)}, the first "
                          f"{_clip(resp, 200)}", None))
    if loaded is None:
        fails.append((f"ascii round trip: load_catalog raised {type(exc).__name__}: {exc}", None))
    else:
        got = events_of(loaded)
        if noid:
            # the format carried no id: the property's "identical id" has nothing to compare. Which ids the reader
            # invents is below the property level (the model says: record indices; counted, and compared through
            # c14_read); count, order and the five other fields are demanded
            ctx.run.count("ascii:no id column, ids are the record indices" if [e[0] for e in got] == [e[0] for e in expect]
                          else "ascii:no id column, ids differ from the record indices")
            expect = [(g[0],) + e[1:] for g, e in zip(got, expect)] if len(got) == len(expect) else expect
        compare_events("ascii round trip" + (" (no id column)" if noid else ""), expect, got, fails)
        if not fails and (not ref or sel(case, 3, 3) == 0) and len(ref) <= 200:
            second_generation("ascii round trip", loaded, expect, fails, "dict" if sel(case, 2, 4) else "frame")
            branches.append("second generation (loaded catalog persisted again)")
        if not ref:
            branches.append("ascii:empty catalog (no row carries the id; id not demanded)")
        elif spec["catalog_id"] is None:
            branches.append("ascii:catalog_id None (outside the property; model only)")
        else:
            compare_catid("ascii round trip", spec["catalog_id"], loaded.catalog_id, fails)
    if codec and not fails:
        # the file does not look as documented (a cell the independent parsers of this harness read differently) but the
        # catalog came back intact: file LAYOUT, below the property level — recorded, no verdict
        ctx.layout_div.append(("file-codec", _clip(case, 300), "", _clip(codec[0][0], 200)))
        ctx.run.count("ascii:file cells differ from the documented layout (round trip intact; below the property level)")
    fails += codec if fails else []
    if fails:
        ctx.fail(case, *fails[0])
    ctx.account(case, *branches)
    os.unlink(path)


def check_append(ctx, case):
    """write catalog A, then catalog B with append=True. header2=False: the file is the concatenation and loads as
    events(A) + events(B); header2=True: a header record lands after A's records (model only)."""
    a, b, o = case["cat"], case["cat2"], case["opts"]
    hdr, emp, hdr2, emp2 = (bool(o[k]) for k in ("write_header", "write_empty", "header2", "write_empty2"))
    ca = build(a, with_region=False)
    cb = ca if o.get("same_object") else build(b, with_region=False)     # round 7 (l): one catalog object in both roles
    ra, rb = events_of(ca), events_of(cb)
    path = ctx.path("csv")
    fails, codec = [], []
    branches = [f"append:header2={int(hdr2)}", f"append:sizes={'0' if not ra else '+'}/{'0' if not rb else '+'}"]
    try:
        ca.write_ascii(path, write_header=hdr, write_empty=emp)
        rows_a, recs_a = written_file(ctx, path, ra, [], codec)
        cb.write_ascii(path, write_header=hdr2, write_empty=emp2, append=True)
    except Exception as e:
        ctx.fail(case, f"ascii append: write_ascii raised {type(e).__name__}: {e}")
        ctx.account(case, *branches)
        return
    rows, recs = written_file(ctx, path, rb, rows_a, codec)
    ctx.n_events += len(ra) + len(rb)
    if recs is not None and recs_a is not None:
        ctx.ask(f"c14_write {int(hdr)} {int(emp)} 0 {catid_tok(a['catalog_id'])} {events_tok(ra)} -", recs_a, case)
        ctx.ask(f"c14_write {int(hdr2)} {int(emp2)} 1 {catid_tok(b['catalog_id'])} {events_tok(rb)} {recs_a}", recs, case)
    loaded, resp, exc = load_ascii(path)
    # which id a file holding records of TWO different catalog ids loads with (today: the last record's) is not stated by
    # the property; it is demanded only where it is unambiguous: all data records carry the same integer id
    carriers = [c for c, r in ((a, ra), (b, rb)) if r]
    same_id = bool(carriers) and all(is_int(c["catalog_id"]) and c["catalog_id"] == carriers[0]["catalog_id"] for c in carriers)
    if recs is not None:
        ctx.ask(f"c14_read {recs}", resp, case, canon_load(same_id))
    branches.append("append:load " + (resp.split(" ", 1)[0] if loaded is None else "ok"))
    if not hdr2:
        if loaded is None:
            fails.append((f"ascii append: load_catalog raised {type(exc).__name__}: {exc}", None))
        else:
            compare_events("ascii append", ra + rb, events_of(loaded), fails)
            if not carriers:
                branches.append("append:both empty (id not demanded)")
            elif not same_id:
                branches.append("append:records of two different / None catalog ids (which one the file loads with is not "
                                "the property's business; model only)")
            else:
                compare_catid("ascii append", carriers[0]["catalog_id"], loaded.catalog_id, fails)
    if codec and not fails:
        ctx.layout_div.append(("file-codec", _clip(case, 300), "", _clip(codec[0][0], 200)))
        ctx.run.count("ascii:file cells differ from the documented layout (round trip intact; below the property level)")
    fails += codec if fails else []
    if fails:
        ctx.fail(case, fails[0][0])
    ctx.account(case, *branches)
    os.unlink(path)


# ------------------------------------------------------------------------------------------------ dict / JSON
def compare_region(what, region, got, fails):
    """the spatial region after dict/JSON: the class's own equality, the JSON-normalised dict form and the arrays the
    spatial lookups use"""
    import numpy
    if region is None:
        if got is not None:
            fails.append((f"{what}: region None -> {type(got).__name__}", None))
        return
    if got is None and hasattr(region, "quadkeys"):
        fails.append((f"{what}: region {type(region).__name__} -> {type(got).__name__}", None, QUADTREE_SIG))
        return
    if got is None or type(got) is not type(region):
        fails.append((f"{what}: region {type(region).__name__} -> {type(got).__name__}", None))
        return
    if hasattr(region, "quadkeys"):
        if not numpy.array_equal(numpy.asarray(got.quadkeys), numpy.asarray(region.quadkeys)):
            fails.append((f"{what}: quadtree region comes back with other quadkeys", None))
        return
    # a value json cannot express (numpy scalar, ...) is kept as a tagged string: it must come back as the same number
    norm = lambda r: json.loads(json.dumps(r.to_dict(), sort_keys=True,
                                           default=lambda o: f"<{type(o).__name__}:{o!r}>"))
    if not (got == region) or norm(got) != norm(region):
        fails.append((f"{what}: region differs: {_clip(norm(region), 200)} -> {_clip(norm(got), 200)}", None))
        return
    # the polygons in index order and the spacing (public API). The lookup arrays a region caches internally (xs, ys,
    # bbox_mask, idx_map) are an implementation detail: whether the reloaded region still BINS identically is asked
    # through get_index_of on probe points (check_region_forms), not by comparing caches
    same = numpy.array_equal(got.origins(), region.origins()) and float(got.dh) == float(region.dh)
    if not same:
        fails.append((f"{what}: region polygons / spacing (origins(), dh) differ after the round trip", None))


# ---- round 4: the region's dict form against the model, and "still bins identically"
def region_tok(name, dh, origins):
    return (f"{'none' if name is None else hx(str(name))} {rat(dh)} "
            + (";".join(f"{rat(x)}:{rat(y)}" for x, y in origins) if len(origins) else "-"))


def region_parts(reg):
    return reg.name, float(reg.dh), [(float(a), float(b)) for a, b in reg.origins()]


def cell_of(reg, lon, lat):
    """index of the cell the region puts a point in, -1 = outside"""
    try:
        return int(reg.get_index_of([lon], [lat])[0])
    except ValueError:
        return -1


def check_region_forms(ctx, case, cat, loaded, ref, fails):
    """a CartesianGrid2D that went through dict / JSON: its dict form and the reloaded region against the model; the
    reloaded region must bin every probe point like the original (direct oracle) and like the model (safe points)"""
    import numpy
    reg, got = cat.region, loaded.region
    if reg is None or got is None or type(got) is not type(reg) or not hasattr(reg, "dh"):
        return
    name, dh, org = region_parts(reg)
    d = reg.to_dict()
    polys = d.get("polygons") or []
    impl = (f"{'none' if d.get('name') is None else hx(str(d['name']))} {rat(d['dh'])} "
            + (";".join(f"{rat(q['lat'])}:{rat(q['lon'])}" for q in polys) if polys else "-")
            + f" {'none' if d.get('class_id') is None else hx(str(d['class_id']))}")
    ctx.ask(f"c14_region_dict {region_tok(name, dh, org)}", impl, case)
    ctx.ask(f"c14_region_rt {region_tok(name, dh, org)}", region_tok(*region_parts(got)), case, canon_region)
    # probe points: events (at most 10), every cell's centre and a quarter point, two points outside
    safe = []
    for ox, oy in org[:12]:
        safe += [(ox + 0.5 * dh, oy + 0.5 * dh), (ox + 0.25 * dh, oy + 0.75 * dh)]
    xs, ys = [o[0] for o in org], [o[1] for o in org]
    outside = [(min(xs) - 0.5 * dh, min(ys) + 0.5 * dh), (max(xs) + 1.5 * dh, max(ys) + 0.5 * dh)]
    pts = [(e[3], e[2]) for e in ref[:10] if abs(e[3]) <= 360 and abs(e[2]) <= 90] + safe + outside
    a = [cell_of(reg, x, y) for x, y in pts]
    b = [cell_of(got, x, y) for x, y in pts]
    ctx.run.count("region: binning compared before/after dict form")
    if a != b:
        k = next(i for i in range(len(pts)) if a[i] != b[i])
        fails.append((f"{case['fmt']} round trip: the reloaded region puts the point {pts[k]!r} into cell {b[k]}, the "
                      f"original region into cell {a[k]}", None))
    # the model's cells are the exact half-open squares; a region with a single row or column of cells accepts points
    # beyond its upper side (known finding D4 of C01), so points outside go to the model only for proper lattices
    if (case["cat"].get("region") or {}).get("fine"):
        # a spacing that is not a short decimal: the code's lookup (bin edges from cleaner_range, tolerances) and the
        # model's exact half-open squares need not agree point by point; the before/after comparison above decides
        ctx.run.count("region: 17-digit spacing (binning compared before/after only)")
        return
    mpts = safe + (outside if len(set(xs)) > 1 and len(set(ys)) > 1 else [])
    cells = [cell_of(got, x, y) for x, y in mpts]
    counts = numpy.bincount([c for c in cells if c >= 0], minlength=len(org)).tolist() if org else []
    ctx.ask(f"c14_cells {rat(dh)} {region_tok(None, dh, org).split(' ', 2)[2]} "
            + ";".join(f"{rat(x)}:{rat(y)}" for x, y in mpts),
            ",".join(map(str, cells)) + " " + ",".join(map(str, counts)), case)


REGION_DICT_VARIANTS = ["as-is", "no-class-id", "class-id-none", "region-none", "quadtree-form", "unknown-class",
                        "no-polygons", "no-name", "no-dh"]


def check_regiondict(ctx, case):
    """the region branch of Catalog.from_dict (catalogs.py:174-182) on hand-edited dicts; correspondence only, recorded
    below the property level (these dicts are not what to_dict produces)"""
    from csep.core.catalogs import CSEPCatalog
    spec, variant = case["cat"], case["variant"]
    cat = build(spec)
    d = cat.to_dict()
    rd = d.get("region")
    if variant == "no-class-id":
        rd.pop("class_id", None)
    elif variant == "class-id-none":
        rd["class_id"] = None
    elif variant == "region-none":
        d["region"] = rd = None
    elif variant == "quadtree-form":
        d["region"] = rd = {k: rd[k] for k in ("name", "polygons")}
    elif variant == "unknown-class":
        rd["class_id"] = "QuadtreeGrid2D"
    elif variant == "no-polygons":
        rd.pop("polygons", None)
    elif variant == "no-name":
        rd.pop("name", None)
    elif variant == "no-dh":
        rd.pop("dh", None)
    if rd is None:
        line = "c14_region_load 0 none none none none"
    else:
        polys = rd.get("polygons")
        line = ("c14_region_load 1 "
                + ("none" if rd.get("class_id") is None else hx(str(rd["class_id"]))) + " "
                + ("none" if rd.get("name") is None else hx(str(rd["name"]))) + " "
                + ("none" if rd.get("dh") is None else rat(rd["dh"])) + " "
                + ("none" if polys is None else (";".join(f"{rat(q['lat'])}:{rat(q['lon'])}" for q in polys) or "-")))
    try:
        loaded = CSEPCatalog.from_dict(d)
        resp = "none" if loaded.region is None else "region " + region_tok(*region_parts(loaded.region))
    except Exception as e:
        resp = type(e).__name__
    ctx.ask(line, resp, case)
    ctx.run.case(dict(kind="regiondict", variant=variant), ("regiondict", variant, case_key(case)))
    ctx.run.count("format:regiondict")
    ctx.run.count(f"regiondict:{variant} -> {resp.split(' ', 1)[0]}")


def dict_fingerprint(d):
    """a dict form as canonical text (what json would write, numpy scalars as numbers, anything else through repr)"""
    import numpy
    return json.dumps(d, sort_keys=True, default=lambda o: o.item() if isinstance(o, numpy.generic) else repr(o))


def report(ctx, case, fails):
    """first failure that is not a known finding, else the first known finding"""
    if fails:
        plain = [f for f in fails if len(f) < 3]
        f = plain[0] if plain else fails[0]
        ctx.fail(case, f[0], f[1] if len(f) > 1 else None, signature=(f[2] if len(f) > 2 else None))


def check_dict(ctx, case):
    """fmt 'dict': to_dict -> from_dict; fmt 'json': write_json -> load_json (opts.via = 'load_json') or
    csep.load_catalog('x.json') (opts.via = 'load_catalog'). Phase 2: the stored form is used AGAIN — the same dict is
    loaded a second time and dumped to JSON, the same file is loaded a second time — and must neither have changed nor
    give another catalog; the original catalog object is as it was."""
    from csep.core.catalogs import CSEPCatalog
    import csep
    import numpy
    spec, fmt = case["cat"], case["fmt"]
    via = (case.get("opts") or {}).get("via", "load_json")
    cat = build(spec)
    ref = events_of(cat)
    what = f"{fmt} round trip"
    fails = []
    branches = [f"{fmt}:region={'yes' if spec['region'] else 'no'}", f"{fmt}:name={'None' if spec['name'] is None else 'str'}"]
    loads = []          # (label, loaded catalog)
    alias_dict = None
    if sel(case, 3, 9) == 0:
        # round 7 (i): calls the library rejects, caught by the caller, before the judged calls on the same object / class
        for bad_call in (lambda: type(cat).from_dict({"catalog": [("x", "not a time")], "name": 5}),
                         lambda: cat.write_json(os.path.join(ctx.tmp, "no_such_directory", "c.json")),
                         lambda: type(cat).load_json(os.path.join(ctx.tmp, "no_such_file.json"))):
            try:
                bad_call()
                ctx.run.count("prelude (dict / json): the call was NOT rejected")
            except Exception as e:
                ctx.run.count("prelude (dict / json): rejected with " + type(e).__name__ + ", caught")
        branches.append(f"{fmt}:after rejected calls")
    try:
        if fmt == "dict":
            d = cat.to_dict()
            before = dict_fingerprint(d)
            loads.append((what, type(cat).from_dict(adict=d) if sel(case, 2, 5) else type(cat).from_dict(d)))
            if dict_fingerprint(d) != before:
                # what matters is that the stored form can be loaded again (next line); that from_dict touched the
                # caller's dict at all is not the property's business (counted)
                ctx.run.count("dict:from_dict changed the dict it was given (second load compared; below the property level)")
            loads.append((f"{what} (second load of the same dict)", CSEPCatalog.from_dict(d)))
            if type(loads[0][1]) is not type(cat):
                ctx.run.count("dict:from_dict called on a subclass returned " + type(loads[0][1]).__name__)
            alias_dict = d
            if len(ref) <= 200:
                # the dict is the serialised form: it can be written as JSON by the caller and loaded from there
                path = ctx.path("json")
                with open(path, "w") as f:
                    json.dump(d, f, default=lambda o: o.item() if isinstance(o, numpy.generic) else str(o))
                loads.append((f"{what} (dict -> json.dump -> load_json)", CSEPCatalog.load_json(path)))
                os.unlink(path)
        else:
            path = ctx.path("json")
            cat.write_json(path)
            loads.append((what, (CSEPCatalog.load_json(filename=path) if sel(case, 2, 5) else CSEPCatalog.load_json(path))
                          if via == "load_json" else csep.load_catalog(path)))
            loads.append((f"{what} (second load of the same file)",
                          csep.load_catalog(path, format="csep") if via == "load_json" else CSEPCatalog.load_json(path)))
            doc_bytes = None
            if len(ref) <= 40:
                with open(path, "rb") as f:
                    doc_bytes = f.read()
            os.unlink(path)
            if doc_bytes is not None and len(doc_bytes) <= 120000 and (len(ref) <= 6 or sel(case, 4, 6) == 0):
                doc_correspondence(ctx, case, doc_bytes, loads[0][1])
            if len(ref) <= 200:
                # round 5: the repository layer, the package's second public JSON entry point
                # (csep.write_json(obj, fname) = FileSystem(url).save(obj.to_dict()); csep.load_json(obj, fname))
                path = ctx.path("json")
                csep.write_json(cat, path)
                loads.append((f"{what} (csep.write_json -> csep.load_json(CSEPCatalog(), f))",
                              csep.load_json(CSEPCatalog(), path)))
                loads.append((f"{what} (csep.write_json -> CSEPCatalog.load_json)", CSEPCatalog.load_json(path)))
                os.unlink(path)
                branches.append("json:repository layer (csep.write_json / csep.load_json)")
            branches.append(f"json:via={via}")
    except Exception as e:
        ctx.fail(case, f"{what}: raised {type(e).__name__}: {e}")
        ctx.account(case, *branches)
        return
    cid = spec["catalog_id"]
    if cid is None:
        branches.append(f"{fmt}:catalog_id None (model only)")
    for label, loaded in loads:
        try:
            got = events_of(loaded)
            ctx.n_events += len(ref)
            compare_events(label, ref, got, fails)
            if cid is not None:
                compare_catid(label, cid, loaded.catalog_id, fails)
            if not (loaded.name == spec["name"] and type(loaded.name) is type(spec["name"])):
                fails.append((f"{label}: name {spec['name']!r} -> {loaded.name!r}", None))
            compare_region(label, cat.region, loaded.region, fails)
        except Exception as e:       # a deviating output must be reported, not crash the harness
            fails.append((f"{label}: the loaded catalog cannot be inspected: {type(e).__name__}: {e}", None))
    if not same_events(events_of(cat), ref):
        fails.append((f"{what}: serialising changed the original catalog object", None))
    loaded = loads[0][1]
    if alias_dict is not None and ref and not fails:
        # round 6 (aliasing): the caller goes on using its dict; the catalog that was loaded from it must not change
        try:
            for row in alias_dict.get("catalog") or []:
                if isinstance(row, list) and len(row) > 5:
                    row[1], row[5] = 0, -77.0
            alias_dict["name"] = "edited by the caller"
            if not same_events(events_of(loaded), ref) or loaded.name != spec["name"]:
                fails.append((f"{what}: editing the dict AFTER from_dict changed the loaded catalog (it aliases the caller's data)", None))
        except Exception as e:
            fails.append((f"{what}: the loaded catalog cannot be inspected: {type(e).__name__}: {e}", None))
    if not fails and (not ref or sel(case, 3, 3) == 0) and len(ref) <= 200:
        second_generation(what, loaded, ref, fails, "frame" if sel(case, 2, 4) else "dict")
        branches.append("second generation (loaded catalog persisted again)")
    if fmt == "json" and ref and len(ref) <= 40:
        # round 5, token level: what json writes for the ids (py_encode_basestring_ascii) and reads back (py_scanstring),
        # what it writes for the floats (float.__repr__) — against Model/CatalogJson and Model/FloatText (layout level:
        # a json writer that spells tokens differently but loads identically stays green)
        ids = [e[0] for e in ref if e[0].isascii()]
        if ids:
            toks = [json.dumps(i) for i in ids]
            ctx.ask("c14_json_str " + ";".join(hx(i) for i in ids), ";".join(hx(t) for t in toks), case)
            ctx.ask("c14_json_unstr " + ";".join(hx(t) for t in toks), ";".join(hx(json.loads(t)) for t in toks),
                    case)
            ctx.run.count("json:id tokens against Model/CatalogJson", len(ids))
        if (len(ref) <= 6 or sel(case, 4, 7) == 0):
            xs = [x for e in ref for x in e[2:6] if math.isfinite(x)]
            if xs:     # by bit pattern: negative zero and subnormals are ordinary values of Model/CatalogDoc.reprBits
                ctx.ask("c14_reprbits " + ";".join(str(f64bits(x)) for x in xs), ";".join(hx(json.dumps(x)) for x in xs),
                        case)
                ctx.run.count("json:float tokens against Model/CatalogDoc.reprBits (bit patterns)", len(xs))
    try:
        check_region_forms(ctx, case, cat, loaded, ref, fails)
        ctx.ask(f"c14_dict_rt {catid_tok(cid)} {events_tok(ref)}",
                f"{catid_tok(loaded.catalog_id)} {events_tok(events_of(loaded))}", case, canon_rt(is_int(cid)))
    except Exception as e:
        fails.append((f"{what}: the loaded catalog cannot be inspected: {type(e).__name__}: {e}", None))
    report(ctx, case, fails)
    ctx.account(case, *branches)


def f64bits(x):
    return struct.unpack("<Q", struct.pack("<d", float(x)))[0]


def canon_doc(resp):
    """`ok <catalog id> <name> <events> <region>`: the events are the property-level part of the document comparison (they
    are taken from the catalog load_json returned); id / name / region are compared with json.load's view of the file,
    which ties the model's JSON parser to Python's (layout level)"""
    parts = resp.split(" ")
    return parts[3] if len(parts) == 5 and parts[0] == "ok" else resp


def doc_correspondence(ctx, case, doc_bytes, loaded):
    """round 6: the CHARACTERS of the JSON file through Model/JsonText.parse (the C18 owner's transcription of json.load)
    with the float reader / writer of Model/CatalogDoc, then `fromTree` (the four members from_dict cares about): must give
    the events load_json gave — doubles compared as 64-bit patterns, so negative zero and subnormals count"""
    try:
        d = json.loads(doc_bytes.decode("utf-8"))
        evs = events_of(loaded)
    except Exception:
        ctx.run.count("json:document not comparable (load failed; the oracle reports it)")
        return
    if any(not math.isfinite(x) for e in evs for x in e[2:6]) or not doc_bytes.isascii():
        ctx.run.count("json:document with NaN / inf (words NaN / Infinity; model of the document skipped)")
        return
    ev_tok = ";".join(f"{hx(e[0])},{e[1]},{f64bits(e[2])},{f64bits(e[3])},{f64bits(e[4])},{f64bits(e[5])}" for e in evs) or "-"
    cid = d.get("catalog_id")
    name = d.get("name")
    r = d.get("region")
    try:
        reg = "none" if r is None else (f"{hx(r['name'])}:{f64bits(r['dh'])}:"
                                        + ",".join(f"{f64bits(q['lat'])}/{f64bits(q['lon'])}" for q in r["polygons"]))
        expected = (f"ok {catid_tok(cid) if (cid is None or is_int(cid)) else 'other'} "
                    f"{'none' if name is None else hx(name)} {ev_tok} {reg}")
    except Exception:
        ctx.run.count("json:document with a region form the document model does not describe (quadtree …)")
        return
    if isinstance(r, dict) and ("dh" not in r or "class_id" not in r or not isinstance(r.get("dh"), float)):
        ctx.run.count("json:document with a region form the document model does not describe (quadtree …)")
        return
    ctx.ask(f"c14_doc_load x{doc_bytes.hex()}", expected, case, canon_doc)
    ctx.run.count("json:document characters through the document model (c14_doc_load)")


# ------------------------------------------------------------------------------------------------ DataFrame
def check_frame(ctx, case):
    """to_dataframe -> from_dataframe, default frame and datetime-indexed frame (with_datetime=True: events sharing an
    origin time give duplicated index labels). opts.with_region: the catalog keeps its region (the generator then placed
    the events inside it; to_dataframe adds the region_id column and, when the region has magnitude bins, mag_id; a
    region without magnitudes made to_dataframe raise IndexError before /repo commit bcf2967, see corpus/C14).
    Phase 2: both frames are loaded TWICE and must not be changed by loading; count, order, fields AND the integer
    catalog id are demanded of every load."""
    from csep.core.catalogs import CSEPCatalog
    spec = case["cat"]
    with_region = bool((case.get("opts") or {}).get("with_region")) and spec["region"] is not None \
        and not spec["region"].get("quadkeys")
    bare = with_region and spec["region"].get("magnitudes") is None
    cat = build(spec, with_region=with_region)
    ref = events_of(cat)
    fails = []
    branches = ["frame:region=" + ("no" if not with_region else "without magnitudes" if bare else "with magnitudes")]
    cid = spec["catalog_id"]
    if not ref:
        branches.append("frame:empty catalog (no row carries the id; id not demanded)")
    elif cid is None:
        branches.append("frame:catalog_id None (model only)")
    if len({e[1] for e in ref}) < len(ref):
        branches.append("frame:events sharing an origin time (duplicated datetime index labels)"
                        + (" at the head" if len(ref) > 1 and any(e[1] == ref[0][1] for e in ref[1:]) else ""))
    first = None
    if sel(case, 3, 9) == 0:
        try:          # round 7 (i): a frame the loader rejects (a dtype column missing), caught, before the judged calls
            CSEPCatalog.from_dataframe(cat.to_dataframe().drop(columns=["latitude"]))
            ctx.run.count("prelude (frame): the call was NOT rejected")
        except Exception as e:
            ctx.run.count("prelude (frame): rejected with " + type(e).__name__ + ", caught")
        branches.append("frame:after a rejected call")
    for label, kw in (("frame round trip", {}), ("frame round trip (with_datetime=True)", dict(with_datetime=True))):
        try:
            df = cat.to_dataframe(True) if (kw and sel(case, 2, 5)) else cat.to_dataframe(**kw)     # positional / keyword
            before = frame_fingerprint(df)
            for nth in ("", ", second load of the same frame"):
                loaded = CSEPCatalog.from_dataframe(df)
                if first is None:
                    first = loaded
                got = events_of(loaded)
                ctx.n_events += len(ref)
                compare_events(label + nth, ref, got, fails)
                if ref and cid is not None:
                    compare_catid(label + nth, cid, loaded.catalog_id, fails)
            if frame_fingerprint(df) != before:
                # the second load above already showed whether the stored form still yields the catalog; that loading
                # touched the caller's frame at all is not the property's business (counted)
                ctx.run.count("frame:from_dataframe changed the frame it was given (second load compared; below the property level)")
            if not fails and not kw and (not ref or sel(case, 3, 3) == 0) and len(ref) <= 200:
                second_generation(label, loaded, ref, fails, "dict")
                branches.append("second generation (loaded catalog persisted again)")
            if not kw and ref and not fails:
                # round 6 (aliasing): the caller goes on editing its frame; the loaded catalog must not change with it
                try:
                    df.loc[:, "magnitude"] = -77.0
                    df.loc[:, "origin_time"] = 1
                    if not same_events(events_of(loaded), ref):
                        fails.append((f"{label}: editing the frame AFTER from_dataframe changed the loaded catalog (it aliases "
                                      f"the caller's data)", None))
                    df = cat.to_dataframe()
                except Exception as e:
                    ctx.run.count("frame:in-place edit of the caller's frame raised " + type(e).__name__)
            if not kw and sel(case, 5, 8) == 0 and not fails:
                # round 6 (Model/FrameColumns: from_dataframe SELECTS BY NAME): the caller re-orders the columns, adds one,
                # drops catalog_id — observed and counted (a frame edited by the user is beyond "to a DataFrame and back")
                try:
                    cols = list(df.columns)
                    df2 = df[cols[::-1]].copy()
                    df2.insert(2, "note", "x")
                    same = same_events(events_of(CSEPCatalog.from_dataframe(df2)), ref)
                    df3 = df.drop(columns=["catalog_id"])
                    c3 = CSEPCatalog.from_dataframe(df3)
                    same3 = same_events(events_of(c3), ref) and c3.catalog_id is None
                    ctx.run.count("frame:columns reversed + one inserted: " + ("same events" if same else "DIFFERENT events"))
                    ctx.run.count("frame:catalog_id column dropped: " + ("same events, id None" if same3 else "other outcome"))
                except Exception as e:
                    ctx.run.count("frame:edited frame raised " + type(e).__name__)
            if kw:
                # the datetime-indexed frame against the model: loaded catalog + number of rows carrying row 0's label
                dup = int((df.index == df.index[0]).sum()) if len(df) else 0
                ctx.ask(f"c14_frame_dt_rt {catid_tok(cid)} {events_tok(ref)}",
                        f"{catid_tok(loaded.catalog_id)} {events_tok(got)} {dup}", case, canon_rt(bool(ref) and is_int(cid)))
            branches.append("frame:with_datetime" if kw else "frame:default index")
        except Exception as e:
            fails.append((f"{label}: raised {type(e).__name__}: {e}", None))
    if not same_events(events_of(cat), ref):
        fails.append(("frame round trip: to_dataframe changed the original catalog object", None))
    if first is not None:
        try:
            ctx.ask(f"c14_frame_rt {catid_tok(cid)} {events_tok(ref)}",
                    f"{catid_tok(first.catalog_id)} {events_tok(events_of(first))}", case, canon_rt(bool(ref) and is_int(cid)))
        except Exception as e:
            fails.append((f"frame round trip: the loaded catalog cannot be inspected: {type(e).__name__}: {e}", None))
    report(ctx, case, fails)
    ctx.account(case, *branches)


# ------------------------------------------------------------------------------------------------ sessions
SESSION_STEPS = ["write-ascii", "load-ascii", "write-json", "load-json", "to-dict", "load-dict", "edit-dict", "dump-dict",
                 "to-frame", "load-frame", "to-frame-dt", "append-other"]


def check_session(ctx, case):
    """phase 2: two catalog objects A (cat) and B (cat2) live through a random sequence of steps [[which, step], ...]:
    files, dicts and frames written earlier are loaded again later (after the other catalog went through the same code),
    a dict returned by to_dict() is edited by the caller before the object is serialised again, one catalog is appended
    to the other's file. After EVERY step: whatever was loaded equals the catalog it was written from (count, order,
    fields, catalog id; name and region for dict / JSON), and both original objects are as they were."""
    import numpy
    import csep
    from csep.core.catalogs import CSEPCatalog
    specs = [case["cat"], case["cat2"]]
    cats = [build(sp) for sp in specs]
    refs = [events_of(c) for c in cats]
    st = [dict(), dict()]          # per catalog: dict, frame
    # ONE ascii path and ONE json path for the whole session: a later write replaces what an earlier one stored there, a
    # load must return what the file holds NOW (a cache keyed by file name would return the earlier catalog)
    slot = {"ascii-path": ctx.path("csv"), "json-path": ctx.path("json")}
    fails = []

    def verify(label, w, loaded, ref=None, full=False, idref="own"):
        try:
            compare_events(label, refs[w] if ref is None else ref, events_of(loaded), fails)
            cid = specs[w]["catalog_id"] if idref == "own" else idref
            if cid is not None and (refs[w] if ref is None else ref):
                compare_catid(label, cid, loaded.catalog_id, fails)
            if full:
                if specs[w]["catalog_id"] is not None:
                    compare_catid(label, specs[w]["catalog_id"], loaded.catalog_id, fails)
                if not (loaded.name == specs[w]["name"] and type(loaded.name) is type(specs[w]["name"])):
                    fails.append((f"{label}: name {specs[w]['name']!r} -> {loaded.name!r}", None))
                compare_region(label, cats[w].region, loaded.region, fails)
        except Exception as e:
            fails.append((f"{label}: the loaded catalog cannot be inspected: {type(e).__name__}: {e}", None))

    for k, (w, step) in enumerate(case["steps"]):
        tag = f"session step {k} ({'AB'[w]}: {step})"
        try:
            if step == "write-ascii":
                cats[w].write_ascii(slot["ascii-path"])
                slot["ascii"] = (list(refs[w]), specs[w]["catalog_id"])
            elif step == "load-ascii" and "ascii" in slot:
                ref, cid = slot["ascii"]
                verify(tag, w, csep.load_catalog(slot["ascii-path"]), ref=ref, idref=cid)
            elif step == "append-other" and "ascii" in slot and slot["ascii"][0]:
                ref, cid = slot["ascii"]
                cats[w].write_ascii(slot["ascii-path"], write_header=False, append=True)
                ref = ref + refs[w]
                if refs[w] and cid != specs[w]["catalog_id"]:
                    cid = None     # records of two different catalog ids in one file: which one it loads with is not demanded
                slot["ascii"] = (ref, cid)
                verify(tag, w, csep.load_catalog(slot["ascii-path"]), ref=ref, idref=cid)
            elif step == "write-json":
                cats[w].write_json(slot["json-path"])
                slot["json"] = w
            elif step == "load-json" and "json" in slot:
                verify(tag, slot["json"], CSEPCatalog.load_json(slot["json-path"]), full=True)
            elif step == "to-dict":
                st[w]["dict"] = cats[w].to_dict()
            elif step == "load-dict" and "dict" in st[w]:
                verify(tag, w, CSEPCatalog.from_dict(st[w]["dict"]), full=True)
            elif step == "dump-dict" and "dict" in st[w] and len(refs[w]) <= 200:
                p = ctx.path("json")
                with open(p, "w") as f:
                    json.dump(st[w]["dict"], f, default=lambda o: o.item() if isinstance(o, numpy.generic) else str(o))
                verify(tag, w, CSEPCatalog.load_json(p), full=True)
                os.unlink(p)
            elif step == "edit-dict" and "dict" in st[w]:
                # the caller edits the dict it got; the catalog object must not have handed out its own storage
                d = st[w].pop("dict")
                if isinstance(d.get("catalog"), list):       # in place: rows first, then the list itself
                    for row in d["catalog"]:
                        if isinstance(row, list) and len(row) > 1:
                            row[1] = 0
                    d["catalog"].clear()
                d["catalog"] = []
                d["name"] = "edited"
                d["catalog_id"] = -12345
                if isinstance(d.get("region"), dict):
                    d["region"].clear()
                verify(tag + ": to_dict() again", w, CSEPCatalog.from_dict(cats[w].to_dict()), full=True)
            elif step in ("to-frame", "to-frame-dt") and cats[w].region is None:
                # (with a region to_dataframe also bins the events, which must then lie inside it: check_frame's class)
                st[w]["frame"] = cats[w].to_dataframe(with_datetime=(step == "to-frame-dt"))
            elif step == "load-frame" and "frame" in st[w]:
                verify(tag, w, CSEPCatalog.from_dataframe(st[w]["frame"]))
        except Exception as e:
            fails.append((f"{tag}: raised {type(e).__name__}: {e}", None))
        for j in (0, 1):
            try:
                same = (same_events(events_of(cats[j]), refs[j]) and cats[j].name == specs[j]["name"]
                        and (specs[j]["catalog_id"] is None or (is_int(cats[j].catalog_id)
                                                               and int(cats[j].catalog_id) == specs[j]["catalog_id"])))
            except Exception:
                same = False
            if not same:
                fails.append((f"{tag}: afterwards the original catalog object {'AB'[j]} is no longer what it was", None))
        if fails:
            break
    for key in ("ascii-path", "json-path"):
        with contextlib.suppress(OSError):
            os.unlink(slot[key])
    ctx.n_events += sum(len(r) for r in refs)
    ctx.run.case(dict(kind="session", steps=case["steps"], n=[len(r) for r in refs]), case_key(case))
    ctx.run.count("format:session")
    for _w, step in case["steps"]:
        ctx.run.count("session:" + step)
    report(ctx, case, fails)


# ------------------------------------------------------------------------------------------------ malformed stream
def check_malformed(ctx, case):
    """reader only, correspondence only: `text` (hex of the file's bytes) is loaded with csep.load_catalog and the
    outcome (events, catalog id, or the exception class) compared with c14_read on the file's records"""
    path = ctx.path("csv")
    with open(path, "wb") as f:
        f.write(bytes.fromhex(case["text"]))
    recs = None if case.get("raw") else rows_tok(read_rows(path))
    if recs is None and not case.get("raw"):
        raise RuntimeError(f"malformed-stream file not expressible as records: {case}")
    loaded, resp, exc = load_ascii(path)
    os.unlink(path)
    if not case.get("raw"):
        ctx.ask(f"c14_read {recs}", resp, case)
    ctx.ask(f"c14_text_load x{case['text']}", resp, case)
    ctx.run.case(dict(kind="malformed", what=case["what"]), ("malformed", case["text"]))
    ctx.run.count("format:malformed-reader")
    ctx.run.count("malformed:" + resp.split(" ", 1)[0])


def malformed_cases(rng, n_random):
    good_t = ["1935-03-22T05:12:29.380000", "1935-03-22T05:12:29", "2199-12-31T23:59:59.999000", "1970-01-01T00:00:00",
              "1969-12-31T23:59:59.999000", "1900-01-01T00:00:00.001000", "2000-02-29T12:00:00.5", "2000-02-29T12:00:00.38",
              "2010-06-15T01:02:03.123456", "2010-06-15T01:02:03.000000"]
    bad_t = ["", "abc", "1935-03-22 05:12:29", "1935-03-22T05:12", "1935-13-01T00:00:00", "1935-02-30T00:00:00",
             "1935-03-22T24:00:00", "1935-03-22T05:60:00", "1935-03-22T05:12:29.", "1935-03-22T05:12:29.1234567",
             "1935-03-22T05:12:29Z", "1935-03-22T05:12:29.380000+00:00", "1935-03-22T05:12:29x",
             "1900-02-29T00:00:00", "19350322T051229"]
    bad_f = ["abc", "", "1.0.0", "--1", "1p5", "0x", "e5"]
    bad_cid = ["", "abc", "1.5", "1e3", "0x10", "--1", "7a", "None"]
    hdr = ["lon", "lat", "mag", "time_string", "depth", "catalog_id", "event_id"]

    def row(lon="-120.25", lat="10.5", mag="4.5", t=None, depth="5.0", cid="7", eid="ev"):
        return [lon, lat, mag, good_t[0] if t is None else t, depth, cid, eid]

    files = []   # (what, rows)
    for k, name in ((0, "lon"), (1, "lat"), (2, "mag"), (4, "depth")):
        for b in bad_f[:4]:
            r = row(); r[k] = b
            files.append((f"bad float in {name}", [hdr, r]))
            files.append((f"bad float in {name}, later record", [row(), row(eid="b"), r]))
    for t in bad_t:
        files.append(("bad time string", [hdr, row(t=t)]))
        files.append(("bad time string, no header", [row(eid="a"), row(t=t)]))
    for t in good_t:
        files.append(("time cell with / without fraction", [hdr, row(t=t), row(t=t, eid="second")]))
    r = row(t="bad"); r[4] = "abc"
    files.append(("bad time and bad depth (time is parsed first)", [hdr, r]))
    r = row(t="bad"); r[0] = "abc"
    files.append(("bad lon and bad time (floats lon/lat/mag are parsed first)", [hdr, r]))
    for pre in ([], [hdr], [hdr, hdr], [hdr, hdr, hdr]):
        files.append((f"empty event_id cell after {len(pre)} header(s)", pre + [row(eid=""), row(eid="x"), row(eid="")]))
        files.append((f"{len(pre)} header record(s) only", list(pre)))
        files.append((f"{len(pre)} header record(s) at the top", pre + [row(eid="a"), row(eid="b", cid="9")]))
    files.append(("header after the first event", [hdr, row(), hdr, row(eid="b")]))
    files.append(("header as last record", [row(), hdr]))
    for c in bad_cid:
        files.append(("non-integer catalog_id cell", [hdr, row(cid=c)]))
        files.append(("non-integer catalog_id cell, then integer", [row(cid=c, eid="a"), row(cid="12", eid="b")]))
        files.append(("integer catalog_id cell, then non-integer", [row(cid="12", eid="a"), row(cid=c, eid="b")]))
    files.append(("negative / large catalog ids", [row(cid="-5", eid="a"), row(cid=str(2 ** 62), eid="b")]))
    for _ in range(n_random):
        rows = [hdr] * rng.choice([0, 1, 1, 2])
        for _k in range(rng.randint(1, 6)):
            r = row(lon=repr(round(rng.uniform(-180, 180), rng.randint(0, 6))), lat=repr(rng.uniform(-90, 90)),
                    mag=repr(round(rng.uniform(0, 9), 2)), t=rng.choice(good_t), depth=repr(round(rng.uniform(0, 700), 3)),
                    cid=rng.choice(["7", "0", "-1", "123456"]), eid=rng.choice(["a", "b c", "", "17", "lon"]))
            p = rng.random()
            if p < 0.12:
                r[rng.choice([0, 1, 2, 4])] = rng.choice(bad_f)
            elif p < 0.24:
                r[3] = rng.choice(bad_t)
            elif p < 0.36:
                r[5] = rng.choice(bad_cid)
            elif p < 0.40:
                r = hdr
            rows.append(r)
        files.append(("random mixture", rows))
    out = []
    for what, rows in files:
        text = "".join(",".join(r) + "\n" for r in rows)
        out.append(dict(kind="malformed", what=what, text=text.encode("ascii").hex()))
    # raw texts for the character-level model only (csv state machine, line ends, short records)
    g = ",".join(row(eid="a"))
    g2 = ",".join(row(eid="b", cid="9"))
    h = ",".join(hdr)
    q = ",".join(row(eid='"a,""b"" ;"'))
    raws = [("CRLF line ends", h + "\r\n" + g + "\r\n" + g2 + "\r\n"), ("CR line ends", h + "\r" + g + "\r" + g2 + "\r"),
            ("no final line end", g + "\n" + g2), ("mixed line ends", h + "\n" + g + "\r\n" + g2 + "\r" + g),
            ("empty line in the middle", g + "\n\n" + g2 + "\n"), ("empty line first", "\n" + g + "\n"),
            ("empty line last", g + "\n\n"), ("empty file", ""), ("only a line end", "\r\n"),
            ("quoted id with delimiter and doubled quotes", q + "\r\n"), ("quoted id, LF", h + "\n" + q + "\n"),
            ("quoted float cell", '"-120.25",10.5,4.5,' + good_t[0] + ',5.0,7,x\r\n'),
            ("quote inside an unquoted id", ",".join(row(eid='a"b')) + "\r\n"),
            ("characters after a closing quote", ",".join(row(eid='"a"b')) + "\r\n"),
            ("line end inside a quoted id", ",".join(row(eid='"a\r\nb"')) + "\r\n" + g2 + "\r\n"),
            ("unterminated quoted id at the end", ",".join(row(eid='"abc')) ),
            ("six cells", ",".join(row()[:6]) + "\n"), ("five cells", ",".join(row()[:5]) + "\n"),
            ("three cells", ",".join(row()[:3]) + "\n"), ("one cell", "1.5\n"), ("one cell, not a number", "abc\n"),
            ("eight cells", g + ",extra\n"), ("six cells with a bad catalog id", ",".join(row(cid="x")[:6]) + "\n"),
            ("quoted header word", '"lon",lat\n' + g + "\n"), ("header word with blank", " lon,lat\n" + g + "\n"),
            ("blank-padded numbers", " -120.25 , 10.5,4.5 ," + good_t[0] + ", 5.0,7,x\n"),
            ("exponent and plus spellings", "+1.5e2,1E-3,.5," + good_t[1] + ",5.,7,x\n"),
            ("trailing delimiter", g + ",\n"), ("only delimiters", ",,,,,,\n")]
    for what, text in raws:
        out.append(dict(kind="malformed", what="raw text: " + what, text=text.encode("ascii").hex(), raw=True))
    return out


# ------------------------------------------------------------------------------------------------ generators
PRINTABLE = "".join(chr(c) for c in range(0x20, 0x7f))
SPECIAL_IDS = [",", '"', ";", "'", " ", "   ", " a", "a ", " a ", "a b", '""', '"a"', "a,b", "a;b", '"a,b"', 'a""b', 'a"b',
               ",,", '",', ',"', '" "', "0", "1", "-1", "1e5", "1.5", "007", "lon", "lon,lat", "LON", "#x", "# comment",
               "\\", "\\n", '\\"', "\\,", "None", "nan", "b'x'", "'a'", "\"'", ", ", " ,", "a, b", "{", "[1,2]", "null",
               "true", "ci38457511", "us7000abcd", "x" * 255, "x" * 256, "y" * 256, ("ab,\" " * 70)[:256], "z" * 252 + "TAIL"]
SPECIAL_MS = [-1097606850620, 0, -1, -999, -1000, 999, 1000, 1, -1001, 1001, MS_LO, MS_LO + 1, MS_LO + 999, MS_HI,
              MS_HI - 1, MS_HI - 999, 951782400000, 951868799999, 4107542400000 - 1, 4107542400000]
CATALOG_IDS = [0, 1, -1, -5, 7, 2 ** 31, 2 ** 62, None]
BIG_CATALOG_IDS = [2 ** 53 - 1, 2 ** 53, 2 ** 53 + 1, -(2 ** 53 + 1), 2 ** 62 + 1, 2 ** 63 - 1, -2 ** 63, -(2 ** 63 - 1),
                   2 ** 63, 2 ** 64 - 1, 2 ** 64 + 5, -2 ** 70, 10 ** 18 + 1, 10 ** 19 + 3, 0, -1]


def gen_catalog_id(rng):
    p = rng.random()
    if p < 0.55:
        return rng.choice(CATALOG_IDS)
    if p < 0.70:
        return rng.choice(BIG_CATALOG_IDS)
    if p < 0.85:      # a 54..63-bit hash / seed used as ensemble member id: odd, so not representable as a double
        return rng.choice([1, -1]) * (rng.getrandbits(rng.randint(54, 63)) | (1 << 53) | 1)
    return rng.randrange(-10 ** 6, 10 ** 12)
NAMES = [None, None, "cat", "", "a b,c\"d", "ETAS forecast #3; run 'x'", "None", "0"]


def gen_id(rng, mode):
    p = rng.random()
    if mode == "special" or p < 0.15:
        return rng.choice(SPECIAL_IDS)
    if mode == "long" and p < 0.6:
        # up to the 256 bytes the id field holds; what happens to a LONGER id (cut silently today) is not the property's
        # business and is only observed (check_construction), never put into a round trip
        n = rng.choice([200, 255, 256, 256, 128, rng.randint(31, 256)])
    else:
        n = rng.randint(1, 30)
    if rng.random() < 0.4:     # delimiter-heavy alphabet
        alpha = ',";\' ' * 3 + "abc019.-\\#"
    else:
        alpha = PRINTABLE
    return "".join(rng.choice(alpha) for _ in range(n))


def gen_ms(rng, mode, pool):
    p = rng.random()
    if mode == "phase" and pool:
        return pool.pop()
    if mode == "special" or p < 0.08:
        return rng.choice(SPECIAL_MS)
    if mode == "whole" or p < 0.16:
        return rng.randrange(MS_LO // 1000, MS_HI // 1000 + 1) * 1000
    if mode == "pre1970" or p < 0.24:
        return rng.randrange(MS_LO, 0)
    if p < 0.32:               # next to a second boundary
        return min(MS_HI, max(MS_LO, rng.randrange(MS_LO // 1000, MS_HI // 1000) * 1000
                              + rng.choice([-2, -1, 1, 2, 10, 100, 500, 990, 999])))
    return rng.randrange(MS_LO, MS_HI + 1)


def gen_float(rng, kind, mode):
    """kind: lat | lon | depth | mag; mode: short | digits17 | extreme | mixed"""
    lo, hi = {"lat": (-90.0, 90.0), "lon": (-180.0, 180.0), "depth": (0.0, 700.0), "mag": (-1.0, 9.5)}[kind]
    if mode == "mixed":
        mode = rng.choice(["short", "short", "digits17", "digits17", "extreme", "neighbour", "tiny"])
    if mode == "tiny":         # within 1e-4 of zero: str() is in exponent notation
        x = rng.uniform(1.0, 9.999) * 10.0 ** -rng.randint(5, 12)
        return -x if lo < 0 and rng.random() < 0.5 else x
    if mode == "short":
        return round(rng.uniform(lo, hi), rng.randint(0, 6))
    if mode == "digits17":
        return rng.uniform(lo, hi)
    if mode == "neighbour":
        x = round(rng.uniform(lo, hi), rng.randint(0, 4))
        for _ in range(rng.randint(1, 3)):
            x = math.nextafter(x, rng.choice([-math.inf, math.inf]))
        return x
    ext = [0.0, -0.0, lo, hi, -hi, math.nextafter(hi, 0.0), math.nextafter(lo, 0.0), 1e-300, -1e-300, 5e-324, -5e-324,
           2.2250738585072014e-308, 1e-5, 1e16, 123456789.12345679, 0.1, 1 / 3, 2.0 ** -1074, 1e22, 1e23, 9007199254740993.0]
    if kind in ("depth", "mag"):
        ext += [1.7976931348623157e308, -1.7976931348623157e308, 1e300, 5e-324, 1e-300, 8.98846567431158e307]
    return rng.choice(ext)


def gen_region(rng, with_magnitudes):
    """a small CartesianGrid2D (as JSON spec): lattice x0 + i*dh, y0 + j*dh with some cells removed. 30%: an integer
    lattice whose origins are handed over as an integer-dtype array (grid built from range()), dh an int or a float"""
    integer = rng.random() < 0.3
    fine = (not integer) and rng.random() < 0.2
    if integer:
        dh = float(rng.choice([1, 1, 2, 5]))
        x0 = float(rng.randint(-170, 170))
        y0 = float(rng.randint(-80, 80))
    elif fine:
        # round 5: a spacing that needs all 17 digits (1/3, 1/7, a neighbour of 0.05, pi/20): whatever rounds or
        # re-derives the spacing on the way through the dict form changes the region
        dh = rng.choice([1.0 / 3.0, 1.0 / 7.0, math.nextafter(0.05, 1.0), math.pi / 20.0, 0.1 + 2.0 ** -45])
        x0 = float(rng.randint(-40, 40))
        y0 = float(rng.randint(-20, 20))
    else:
        dh = rng.choice([0.1, 0.5, 1.0, 0.25])
        x0 = round(rng.randint(-40, 40) * dh * rng.choice([1, 4]), 2)
        y0 = round(rng.randint(-20, 20) * dh * rng.choice([1, 4]), 2)
    nx, ny = rng.randint(1, 4), rng.randint(1, 4)
    cells = [(i, j) for j in range(ny) for i in range(nx)]
    if len(cells) > 2 and rng.random() < 0.5:
        for c in rng.sample(cells, rng.randint(1, len(cells) // 3 or 1)):
            cells.remove(c)
    origins = [[x0 + i * dh, y0 + j * dh] if fine else [round(x0 + i * dh, 2), round(y0 + j * dh, 2)] for i, j in cells]
    mags = [round(2.5 + 0.5 * k, 1) for k in range(rng.randint(1, 8))] if with_magnitudes else None
    out = dict(origins=[[float(x).hex(), float(y).hex()] for x, y in origins], dh=float(dh).hex(),
               name=rng.choice([None, "grid", "test region"]),
               magnitudes=None if mags is None else [float(m).hex() for m in mags])
    if fine:
        out["fine"] = True
    if integer:
        out["origins_dtype"] = rng.choice(["int64", "int64", "int32", "int16", None])
        out["dh_kind"] = rng.choice(["int", "int", None, "int64", "float32"])
    return out


def gen_catalog(rng, n, pool, force=None):
    """JSON spec of one catalog + the options of its DataFrame form"""
    id_mode = rng.choice(["special", "random", "random", "long"]) if n <= 12 else rng.choice(["special", "random", "random"])
    ms_mode = force or rng.choice(["uniform", "uniform", "special", "whole", "pre1970", "phase"])
    fl_mode = rng.choice(["short", "digits17", "extreme", "mixed", "mixed", "mixed", "tiny"])
    region, inside = None, False
    if "quadtree region through dict/JSON" not in AWAITING_DECISION and rng.random() < 0.08:
        keys = rng.choice([["0", "1", "2", "3"], ["00", "01", "02", "03", "1", "2", "3"],
                           ["0", "1", "2", "30", "31", "32", "330", "331", "332", "333"]])
        region = dict(quadkeys=keys, name=rng.choice([None, "qt"]))
    elif rng.random() < 0.35:
        inside = rng.random() < 0.5      # events inside the region: the DataFrame form keeps the region
        region = gen_region(rng, with_magnitudes=inside and rng.random() < 0.6)
    events = []
    for _ in range(n):
        if inside:     # inside a cell of the region, ordinary magnitudes: to_dataframe bins the events
            ox, oy = (float.fromhex(v) for v in rng.choice(region["origins"]))
            dh = float.fromhex(region["dh"])
            lon = round(ox + rng.choice([0.25, 0.5, 0.75]) * dh, 4)
            lat = round(oy + rng.choice([0.25, 0.5, 0.75]) * dh, 4)
            mag = round(rng.uniform(0.0, 9.0), rng.randint(0, 3))
        else:
            lon, lat, mag = gen_float(rng, "lon", fl_mode), gen_float(rng, "lat", fl_mode), gen_float(rng, "mag", fl_mode)
        events.append(spec_event(gen_id(rng, id_mode), gen_ms(rng, ms_mode, pool), lat, lon,
                                 gen_float(rng, "depth", fl_mode), mag))
    if n >= 2 and rng.random() < 0.3:
        # events identical in all six fields (doublets listed twice, merged download windows): every copy must survive
        kind = rng.choice(["adjacent", "distant", "many", "all"])
        if kind == "all":
            events = [list(events[0]) for _ in range(n)]
        else:
            for _ in range(1 if kind != "many" else rng.randint(2, max(2, n // 2))):
                i = rng.randrange(n)
                j = (i + 1) % n if kind == "adjacent" else rng.randrange(n)
                events[j] = list(events[i])
    if n >= 2 and rng.random() < 0.3:
        # phase 2: events sharing an origin time to the millisecond but differing in everything else (doublets,
        # aftershocks located by two networks): duplicated labels in the datetime index of to_dataframe(with_datetime=True)
        kind = rng.choice(["head", "head", "middle", "all", "runs"])
        if kind == "head":
            for j in range(1, rng.randint(2, min(n, 4))):
                events[j][1] = events[0][1]
        elif kind == "middle":
            i = rng.randrange(1, n)
            events[rng.randrange(1, n)][1] = events[i][1]
        elif kind == "all":
            for e in events:
                e[1] = events[0][1]
        else:
            for j in range(1, n):
                if rng.random() < 0.5:
                    events[j][1] = events[j - 1][1]
    if n >= 1 and rng.random() < 0.08:
        # phase 2: unreported depth (NaN) and infinite depths; direct oracle only (the model's floats are rationals)
        for e in events:
            if rng.random() < 0.5:
                e[4] = float(rng.choice(["nan", "nan", "inf", "-inf"])).hex()
    spec = dict(events=events, catalog_id=gen_catalog_id(rng), name=rng.choice(NAMES), region=region)
    if rng.random() < 0.4:
        spec["data_kind"] = rng.choice(["lists", "mixed", "ndarray", "ndarray-be", "tuples", "ndarray-strided",
                                        "ndarray-reversed-view", "tuple-of-tuples", "numpy-scalars", "all-keywords", "subclass", "accessor-subclass", "accessor-subclass"])
    if rng.random() < 0.25:
        spec["copy_form"] = rng.choice(COPY_FORMS)
    if "numpy-integer catalog_id through JSON" not in AWAITING_DECISION and spec["catalog_id"] is not None \
            and -2 ** 31 <= spec["catalog_id"] < 2 ** 31 and rng.random() < 0.15:
        spec["catalog_id_np"] = rng.choice(["int64", "int32", "uint64" if spec["catalog_id"] >= 0 else "int64"])
    return spec, dict(with_region=inside)


# ------------------------------------------------------------------------------------------------ locale child
LOCALE_NAMES = ["caf\u00e9", "\u00c5ngstr\u00f6m \u00df", "\u5730\u9707\u30ab\u30bf\u30ed\u30b0", "\u0437\u0435\u043c\u043b\u0435\u0442\u0440\u044f\u0441\u0435\u043d\u0438\u0435 #3",
                "ETAS \U0001f30b run", "e\u0301 (combining)", "na\u00efve,\"quoted\"; x", "\u00a0nbsp\u2028sep"]
_CHILD = r"""
import json, sys, os, tempfile
sys.path.insert(0, sys.argv[1])
import warnings; warnings.filterwarnings('ignore')
import csep
from csep.core.catalogs import CSEPCatalog
from csep.core.regions import CartesianGrid2D
import numpy
specs = json.loads(sys.stdin.read())
results = []
for spec in specs:
  out = {"encoding": sys.getfilesystemencoding(), "preferred": __import__('locale').getpreferredencoding(False), "routes": {}}
  results.append(out)
  evs = [(bytes.fromhex(e[0]).decode('ascii'), int(e[1]), float.fromhex(e[2]), float.fromhex(e[3]), float.fromhex(e[4]), float.fromhex(e[5])) for e in spec["events"]]
  region = None
  if spec.get("region_name") is not None:
      region = CartesianGrid2D.from_origins(numpy.array([[0., 0.], [1., 0.], [0., 1.]]), dh=1.0, name=spec["region_name"])
  cat = CSEPCatalog(data=evs, catalog_id=spec["catalog_id"], name=spec["name"], region=region)
  d = tempfile.mkdtemp(prefix="verif_c14loc_")
  def view(c):
      rows = []
      for r in c.catalog.tolist():
          i = r[0].decode('utf-8') if isinstance(r[0], bytes) else str(r[0])
          rows.append([i.encode('utf-8').hex(), int(r[1])] + [float(x).hex() for x in r[2:6]])
      cid = c.catalog_id
      return {"events": rows, "catalog_id": int(cid) if isinstance(cid, (int, numpy.integer)) else repr(cid), "name": c.name,
              "region": None if c.region is None else type(c.region).__name__}
  def route(name, f):
      try:
          out["routes"][name] = view(f())
      except Exception as e:
          out["routes"][name] = {"error": type(e).__name__ + ": " + str(e)[:200]}
  def r_json():
      p = os.path.join(d, "a.json"); cat.write_json(p); return CSEPCatalog.load_json(p)
  def r_repo():
      p = os.path.join(d, "b.json"); csep.write_json(cat, p); return csep.load_json(CSEPCatalog(), p)
  def r_load_catalog():
      p = os.path.join(d, "c.json"); cat.write_json(p); return csep.load_catalog(p)
  def r_dict():
      return CSEPCatalog.from_dict(cat.to_dict())
  def r_ascii():
      p = os.path.join(d, "d.csv"); cat.write_ascii(p); return csep.load_catalog(p)
  for n, f in (("write_json/load_json", r_json), ("csep.write_json/csep.load_json", r_repo), ("write_json/load_catalog", r_load_catalog),
               ("to_dict/from_dict", r_dict), ("write_ascii/load_catalog", r_ascii)):
      route(n, f)
  import shutil; shutil.rmtree(d, ignore_errors=True)
sys.stdout.write(json.dumps(results))
"""


def check_locale(ctx, case):
    """round 5 (class of the seeded change C18_9): the round trips in a CHILD process whose locale cannot encode
    non-ASCII text (LC_ALL=C, PYTHONUTF8=0, PYTHONCOERCECLOCALE=0: open() defaults to ASCII), for a catalog whose NAME (and
    region name) is not ASCII; ids are printable ASCII as the property says. Name, events, catalog id must survive the
    dict / JSON routes; events and catalog id the ASCII route (which carries no name)."""
    import subprocess
    import sys
    from .core import REPO
    specs = case["cats"]
    env = dict(os.environ, LC_ALL="C", LANG="C", PYTHONUTF8="0", PYTHONCOERCECLOCALE="0", PYTHONIOENCODING="utf-8",
               MPLBACKEND="Agg")
    env.pop("LC_CTYPE", None)
    p = subprocess.run([sys.executable, "-c", _CHILD, REPO], input=json.dumps(specs), env=env, stdout=subprocess.PIPE,
                       stderr=subprocess.PIPE, text=True, encoding="utf-8")
    if p.returncode != 0 or not p.stdout.strip():
        raise RuntimeError(f"locale child failed before any route ran: rc={p.returncode} {p.stderr[-400:]}")
    for spec, out in zip(specs, json.loads(p.stdout)):
        ctx.run.case(dict(kind="locale", name=spec["name"], n=len(spec["events"])), ("locale", json.dumps(spec, sort_keys=True)))
        ctx.run.count("format:locale-child (LC_ALL=C)")
        ctx.run.count("locale-child preferred encoding " + str(out.get("preferred")))
        _judge_locale(ctx, dict(case, cats=[spec]), spec, out)


def _judge_locale(ctx, case, spec, out):
    want_ev = [[e[0], int(e[1])] + list(e[2:6]) for e in spec["events"]]
    for name, got in out["routes"].items():
        if "error" in got:
            ctx.fail(case, f"{name} under a locale that cannot encode non-ASCII text (LC_ALL=C): raised {got['error']}")
            return
        if got["events"] != want_ev:
            ctx.fail(case, f"{name} under LC_ALL=C: events differ after the round trip: {_clip(got['events'], 200)}")
            return
        if spec["catalog_id"] is not None and spec["events"] and got["catalog_id"] != spec["catalog_id"]:
            ctx.fail(case, f"{name} under LC_ALL=C: catalog_id {spec['catalog_id']!r} -> {got['catalog_id']!r}")
            return
        if not name.startswith("write_ascii") and got["name"] != spec["name"]:
            ctx.fail(case, f"{name} under LC_ALL=C: name {spec['name']!r} -> {got['name']!r}")
            return
        if not name.startswith("write_ascii") and spec.get("region_name") is not None and got["region"] != "CartesianGrid2D":
            ctx.fail(case, f"{name} under LC_ALL=C: the region (named {spec['region_name']!r}) came back as {got['region']}")
            return


def check_case(ctx, case):
    """one case, under the local time zone the case names (`tz`; absent = the process's own)"""
    zone = case.get("tz")
    if zone is not None:
        ctx.run.count("tz:" + zone)
    with local_zone(zone):
        if case.get("numstate"):
            # round 7 (k): the caller's global numeric state — numpy raising on divide / invalid, a decimal context of 2..6
            # digits — must not change what a round trip returns (the unchanged tree is robust here on every seed)
            import decimal
            import numpy
            ctx.run.count("numeric state: numpy.errstate(divide, invalid = raise) + decimal prec " + str(2 + sel(case, 5, 11)))
            with numpy.errstate(divide="raise", invalid="raise"), decimal.localcontext() as dc:
                dc.prec = 2 + sel(case, 5, 11)
                _check_case(ctx, case)
        else:
            _check_case(ctx, case)


def _check_case(ctx, case):
    kind, fmt = case.get("kind"), case.get("fmt")
    if kind == "malformed":
        check_malformed(ctx, case)
    elif kind == "timestr":
        ctx.ask(f"c14_timestr {int(case['ms'])}",
                _timestr_impl(int(case["ms"])), case)
    elif kind == "regiondict":
        check_regiondict(ctx, case)
    elif kind == "locale":
        check_locale(ctx, case)
    elif fmt == "construct":
        check_construction(ctx, case)
    elif kind == "session":
        check_session(ctx, case)
    elif fmt in ("ascii", "ascii-noid"):
        check_ascii(ctx, case)
    elif fmt == "append":
        check_append(ctx, case)
    elif fmt in ("dict", "json"):
        check_dict(ctx, case)
    elif fmt == "frame":
        check_frame(ctx, case)
    else:
        raise ValueError(f"unknown C14 case {kind}/{fmt}")


def _timestr_impl(ms):
    """the time cell write_ascii produces for one event (used when a c14_timestr mismatch is replayed)"""
    cat = build(dict(events=[spec_event("t", ms, 0.0, 0.0, 0.0, 0.0)], catalog_id=0, name=None, region=None))
    fd, path = tempfile.mkstemp(suffix=".csv")
    os.close(fd)
    try:
        cat.write_ascii(path, write_header=False)
        return read_rows(path)[0][3]
    finally:
        os.unlink(path)


def check_catalog(ctx, spec, frame_opts, serial, prev):
    """one generated catalog through all formats. `prev` = the previous catalog (partner for append mode)."""
    zone = ZONES[serial % len(ZONES)]
    if zone is not None:
        class _Z:                    # every case of this catalog carries the zone (so a replay runs under it too)
            @staticmethod
            def check(ctx, case):
                check_case(ctx, dict(case, tz=zone))
        return _check_catalog(ctx, spec, frame_opts, serial, prev, _Z.check)
    return _check_catalog(ctx, spec, frame_opts, serial, prev, check_case)


PRELUDES = [None, "bad-time", None, "bad-id", "bad-time-append", None, "bad-path", "bad-id-append", None, "bad-option"]


def _check_catalog(ctx, spec, frame_opts, serial, prev, check_case):
    if serial % 5 == 2:
        plain_check = check_case
        check_case = lambda c, case: plain_check(c, dict(case, numstate=True))
    combos = [(True, True), (True, False), (False, True), (False, False)]
    todo = combos if not spec["events"] else [combos[serial % 4]]
    for hdr, emp in todo:
        o = dict(write_header=hdr, write_empty=emp, via=ASCII_VIAS[(serial // 2) % len(ASCII_VIAS)],
                 load_twice=bool(serial % 3 == 0))
        pre = PRELUDES[serial % len(PRELUDES)]
        if pre:
            o["prelude"] = pre
        if serial % 3 == 1:
            o["append_new"] = True
        check_case(ctx, dict(kind="catalog", fmt="ascii", cat=spec, opts=o))
    if spec.get("data_kind"):
        check_case(ctx, dict(kind="catalog", fmt="construct", cat=spec))
    # round 4: the catalog array has no column of the name given as id_col
    hdr, emp = combos[(serial // 4) % 4]
    check_case(ctx, dict(kind="catalog", fmt="ascii-noid", cat=spec,
                         opts=dict(write_header=hdr, write_empty=emp, no_id_col=True)))
    if spec["region"] is not None and not spec["region"].get("quadkeys"):
        check_case(ctx, dict(kind="regiondict", fmt="regiondict", cat=spec,
                             variant=REGION_DICT_VARIANTS[serial % len(REGION_DICT_VARIANTS)]))
    check_case(ctx, dict(kind="catalog", fmt="dict", cat=spec))
    check_case(ctx, dict(kind="catalog", fmt="json", cat=spec,
                         opts=dict(via="load_catalog" if serial % 3 == 0 else "load_json")))
    check_case(ctx, dict(kind="catalog", fmt="frame", cat=spec, opts=frame_opts))
    if frame_opts.get("with_region"):    # the same catalog also without its region
        check_case(ctx, dict(kind="catalog", fmt="frame", cat=spec, opts=dict(with_region=False)))
    if serial % 7 == 3:       # the catalog appended to its own file: the same object writes twice
        check_case(ctx, dict(kind="catalog", fmt="append", cat=spec, cat2=spec,
                             opts=dict(write_header=bool(serial % 2), write_empty=True, header2=False, write_empty2=True,
                                       same_object=True)))
    if prev is not None and (serial % 2 == 0 or not spec["events"] or not prev["events"]):
        hdr, emp = combos[(serial // 2) % 4]
        for hdr2 in ([False, True] if serial % 6 == 0 or not spec["events"] else [False]):
            check_case(ctx, dict(kind="catalog", fmt="append", cat=prev, cat2=spec,
                                 opts=dict(write_header=hdr, write_empty=emp, header2=hdr2,
                                           write_empty2=bool(serial % 4 < 2))))


def _corpus(ctx):
    """minimised past failures (corpus/C14/*.json: a replay payload or a bare case) run first"""
    d = os.path.join(VERIF, "corpus", "C14")
    if not os.path.isdir(d):
        return
    for fn in sorted(os.listdir(d)):
        if fn.endswith(".json"):
            with open(os.path.join(d, fn)) as f:
                payload = json.load(f)
            case = payload.get("case", payload)
            check_case(ctx, {k: v for k, v in case.items() if k != "op"})
            ctx.run.count("corpus")


def run(run, rng, tier):
    quick = tier == "quick"
    tmp = tempfile.mkdtemp(prefix="verif_c14_")
    try:
        ctx = Ctx(run, tmp)
        _corpus(ctx)
        # reader-only malformed stream
        for case in malformed_cases(rng, 60 if quick else 600):
            check_case(ctx, case)
        ctx.flush()

        # every millisecond phase of a few random whole seconds (and of the second that used to fail), spread over catalogs
        seconds = [-1097606851, 0, -1] + [rng.randrange(MS_LO // 1000, MS_HI // 1000) for _ in range(3 if quick else 27)]
        pool = [s * 1000 + p for s in seconds for p in range(1000)]
        rng.shuffle(pool)
        run.extra["phase_sweep_seconds"] = seconds

        n_cat = 800 if quick else 11000
        sizes = [0, 1, 2, 40, 0, 1, 40, 3]
        while len(sizes) < n_cat:
            sizes.append(rng.choice([0, 1, 1, 2, 2, 3, 4, 5, 6, 8, 10, 13, 17, 22, 30, 40]))
        prev, serial = None, 0
        for n in sizes:
            spec, fopts = gen_catalog(rng, n, pool)
            check_catalog(ctx, spec, fopts, serial, prev)
            if prev is not None and serial % 4 == 1:
                # phase 2: a session of two catalog objects (this one and the previous one)
                steps = [[rng.randrange(2), rng.choice(SESSION_STEPS)] for _ in range(rng.randint(6, 14))]
                zone = ZONES[serial % len(ZONES)]
                check_case(ctx, dict(kind="session", fmt="session", cat=prev, cat2=spec, steps=steps,
                                     **({"tz": zone} if zone is not None else {})))
            prev, serial = spec, serial + 1
            if serial % FLUSH_EVERY == 0:
                ctx.flush()
        # round 5: non-ASCII names in a child process whose locale cannot encode them
        lspecs = []
        for _ in range(4 if quick else 16):
            spec, _f = gen_catalog(rng, rng.choice([0, 1, 3]), pool)
            for e in spec["events"]:
                e[4] = (10.0).hex() if e[4] in ("nan", "inf", "-inf") else e[4]
            lspecs.append(dict(events=spec["events"], catalog_id=spec["catalog_id"], name=rng.choice(LOCALE_NAMES),
                               region_name=rng.choice([None, rng.choice(LOCALE_NAMES)])))
        check_case(ctx, dict(kind="locale", fmt="locale", cats=lspecs))     # one child process for all of them
        # phase 2: catalogs with more than 2^16 events (three generated events tiled; direct oracle only)
        for _ in range(1 if quick else 4):
            spec, fopts = gen_catalog(rng, 3, pool)
            spec["tile"] = 65536 + rng.choice([1, 2, 1000, 4465])
            spec["region"] = None
            spec.pop("data_kind", None)
            for e in spec["events"]:
                # full-precision doubles: a fast path for big catalogs that formats with fewer digits must show
                e[2], e[3] = rng.uniform(-90, 90).hex(), rng.uniform(-180, 180).hex()
                e[4], e[5] = rng.uniform(0, 700).hex(), rng.uniform(-1, 9.5).hex()
            for fmt, opts in (("ascii", dict(write_header=True, write_empty=True)), ("dict", None), ("json", dict(via="load_json")),
                              ("frame", dict(with_region=False))):
                check_case(ctx, dict(kind="catalog", fmt=fmt, cat=spec, **({"opts": opts} if opts else {})))
            run.count("catalog with more than 2^16 events")
        ctx.flush()
        while pool:                       # whatever is left of the phase sweep: full catalogs of 40
            spec, fopts = gen_catalog(rng, min(40, len(pool)), pool, force="phase")
            check_catalog(ctx, spec, fopts, serial, prev)
            prev, serial = spec, serial + 1
            if serial % FLUSH_EVERY == 0:
                ctx.flush()
        ctx.flush()
        run.extra["catalogs"] = serial
        run.extra["copy_forms_unsupported_by_the_tree"] = sorted(_COPY_UNSUPPORTED)
        run.extra["local_zones_effective"] = sorted(z for z, ok in _ZONE_OK.items() if ok)
        run.extra["awaiting_decision"] = list(AWAITING_DECISION)
        dead = sorted(z for z, ok in _ZONE_OK.items() if not ok)
        if dead:
            run.assumptions.append(f"time zones {dead} are unknown to the C library here (local time stayed UTC under them)")
        run.extra["distinct_origin_times"] = len(ctx.seen_ms)
    finally:
        shutil.rmtree(tmp, ignore_errors=True)


def replay(run, payload):
    case = payload.get("case") or {}
    case = {k: v for k, v in case.items() if k != "op"}
    tmp = tempfile.mkdtemp(prefix="verif_c14_")
    try:
        ctx = Ctx(run, tmp)
        check_case(ctx, case)
        ctx.flush()
    finally:
        shutil.rmtree(tmp, ignore_errors=True)
