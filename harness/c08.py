"""C08 — paired T-, W- and binary T-tests: correspondence with Model/PairedTests.lean + direct oracle."""
import datetime
import math
import struct
from fractions import Fraction

import numpy

from .core import Driver, frac

LEVEL_TEXT = ("Proof: over the reals the coded information gain is [sum(ln rA - ln rB) - (NA - NB)]/N, the coded variance is the "
              "unbiased sample variance, a swap of the forecasts negates gain and t statistic, keeps the variance and mirrors "
              "the interval, a self-comparison has zero gain, t > t_crit iff the interval is above zero; over the rationals the "
              "average ranks with ties sum to c(c+1)/2, r_plus + r_minus = c(c+1)/2, T <= mn, and negating all differences "
              "(float subtraction included, via Soft64 sign symmetry) leaves count, T, mn and the tie-corrected variance term "
              "unchanged; p = 2 sf(|z|) is in [0,1]; the binary variant is the T formulas on the distinct active bins. "
              "Public level: the variance of Eq. 18 is non-negative and zero exactly for a constant log-ratio; the interval "
              "contains the gain; the result does not depend on the order of the events; swap / self-comparison / Eq. 17 for "
              "forecast objects (stored rates x scale factor, optionally divided by the horizon in days, looked up at the "
              "events' bins); with a common horizon scale=True keeps the log-rate differences and divides the totals; the binary "
              "variant equals the paired test when no bin holds two events; the W-test swap invariance is derived from the "
              "float64 operations X1-X2 and (N1-N2)/N themselves. Round 4: with the survival function of the standard normal "
              "law itself (Mathlib's gaussianReal 0 1; sf(0) = 1/2, sf(z) + sf(-z) = 1, sf non-increasing, from symmetry and "
              "the absence of atoms) p = 2 sf(|z|) is in [0,1] for every z, equals 1 at z = 0 and is non-increasing in |z| - "
              "the hypothesis on sf is gone; the tie correction as the SOURCE forms it (numpy.unique on the ranks) equals the "
              "model's grouping of equal |d| for every list, because the average rank is strictly increasing on the values "
              "that occur; SciPy 1.18's rankdata algorithm (stable sort, runs of equal values, scatter back) is modelled and "
              "proved equal to the counting specification #{<} + (#{=}+1)/2 for every list; both forecast objects carrying "
              "the same positive factor keep the log-rate differences and the variance of Eq. 18. "
              "Tied to the code by a correspondence on generated forecasts/catalogs (rank arithmetic exact, statistics to 1e-9).")
LEVEL_NOTE = ("T-test theorems are over the reals (Float instance executed); the Student-t quantile is a parameter supplied by "
              "scipy (only t_crit >= 0 is used); the normal survival function is the real function P(Z > z) in the theorems and "
              "scipy.stats.norm.sf in the executed comparison (that scipy computes it is trusted); float rounding of log/sqrt is outside the theorems. With scale=True the code scales "
              "the rates and totals of the T-test but uses the UNSCALED totals for the W-test's null median and the unscaled "
              "rates for the binary variant (modelled as is; the property does not fix this).")
DESIGN_REF = "DESIGN.md §4 C08"
TECHNIQUE = "Lean 4 theorems (reals for T, exact rationals + Soft64 for W) + Float/Rat correspondence + independent recomputation oracle"

THEOREMS = ["PairedTests.ig_formula", "PairedTests.var_eq_sample_variance", "PairedTests.ig_antisymm", "PairedTests.var_symm",
            "PairedTests.t_antisymm", "PairedTests.ci_mirror", "PairedTests.t_test_swap", "PairedTests.ig_self_zero",
            "PairedTests.t_formula", "PairedTests.ci_centered", "PairedTests.t_gt_crit_iff_lower_pos", "PairedTests.rank_sum",
            "PairedTests.rplus_add_rminus", "PairedTests.w_T_le_mn", "PairedTests.w_se_pos", "PairedTests.w_z_nonpos",
            "PairedTests.w_swap_invariant",
            "PairedTests.w_swap_invariant_xm", "PairedTests.w_p_bounds", "PairedTests.w_zp_swap_invariant",
            "PairedTests.active_bin_variant",
            # Properties/C08_Public.lean
            "PairedTests.var_nonneg", "PairedTests.var_eq_zero_iff", "PairedTests.ci_contains_gain",
            "PairedTests.t_event_order_irrelevant", "PairedTests.public_t_swap", "PairedTests.public_t_self_zero",
            "PairedTests.public_t_gain", "PairedTests.public_t_scale_same_horizon",
            "PairedTests.binary_eq_paired_of_distinct", "PairedTests.w_public_swap",
            "PairedTests.w_public_self_degenerate",
            # phase 2
            "PairedTests.ig_strict_mono_rate", "PairedTests.ig_strict_anti_rate", "PairedTests.mag_index_open_top",
            "PairedTests.mag_index_some_iff",
            # round 4, Properties/C08_Deep.lean: the normal survival function itself; the source's grouping of the ranks
            "PairedTests.normal_sf_half", "PairedTests.normal_sf_facts", "PairedTests.w_p_bounds_normal",
            "PairedTests.w_p_normal_at_zero", "PairedTests.w_p_normal_antitone_abs", "PairedTests.w_p_even",
            "PairedTests.w_test_result", "PairedTests.w_public_result", "PairedTests.rank_strict_mono",
            "PairedTests.rank_eq_iff", "PairedTests.tie_groups_by_rank", "PairedTests.rankdata_algorithm_eq_spec",
            "PairedTests.public_t_common_rescale"]
TRUSTED = ["Lean 4.33 kernel", "axioms: propext, Classical.choice, Quot.sound at most",
           "scipy.stats.t.ppf is a parameter of the model; scipy.stats.norm.sf is taken to compute P(Z > z) of the standard normal "
           "law (its range [0,1/2] on [0,inf) is no longer a hypothesis: PairedTests.normal_sf_half)",
           "scipy.stats.wilcoxon(zero_method='wilcox', correction=False, method='approx') is used as a third opinion on T and p",
           "scipy.stats.rankdata(method='average'): SciPy 1.18's algorithm (stable sort, runs, scatter back) is modelled "
           "(rankdata2), proved equal to #{<} + (#{=}+1)/2 (PairedTests.rankdata_algorithm_eq_spec) and compared with the "
           "installed scipy on every run; numpy.unique(return_counts) by dedup+count (that grouping the ranks is grouping the "
           "values is proved: PairedTests.tie_groups_by_rank)",
           "Soft64.fl64 is IEEE binary64 round-to-nearest-even (d = x - m); validated against numpy on every run",
           "float rounding of log / sqrt / sums is outside the theorems (1e-9 comparison, condition-aware for the variance)",
           "harness/c08.py generators and comparison; driver parsing (Proto.lean)"]
RULE = ("pairs of positive-rate GriddedForecasts on a common CartesianGrid2D (1..6 x 1..5 cells x 1..3 magnitude bins; random, "
        "proportional, dyadic/permuted and partially identical rates), catalogs of 2..200 in-region events drawn from few "
        "cells (repeated cells => exact ties), alpha in {0.01,0.05,0.1} or U(0,1), scale on/off, equal or different "
        "horizons; forecast objects rescaled with .scale(s) before the tests; events anywhere inside their cell and "
        "magnitude bin (exactly on the lower magnitude edge, above the open top edge); stored rates in C / Fortran order, "
        "strided views, integer dtype; rates 1e-300..1e-10 in the events' bins; keyword / positional / default call forms "
        "and direct helper calls; NaN depth / epoch 0 / shared origin times / big-endian catalogs; one case with > 65535 "
        "events in one bin on > 2^16 bins; sessions of 4-8 calls (tests in any orientation with scale on/off, .scale(), "
        "catalog cut in place, reads, a twin forecast on the same array, scale_to_test_date inside / outside the period) "
        "recomputed from scratch after every evaluation; forecasts B that differ from A by a few ulps in a few bins "
        "(log-rate differences and null median of order 1e-16, not zero); horizons that are not whole days (scale=True "
        "divides by the whole days elapsed); the factor of the forecast objects set by scale_to_test_date, also after an "
        "earlier scale(); round 7: copies (copy / deepcopy / pickle) of both forecasts and the catalog before use, rejected "
        "calls (scale=True with an event outside the region / below the magnitudes, non-catalog, unequal lengths) on the same "
        "objects before the judged ones and inside sessions, user subclasses, numpy.errstate raise + decimal context; array-valued scale factors of every broadcastable shape ((m,), (n,1), (1,m), (n,m), 0-d, (1,)) in "
        "one or both forecasts and in session steps (event_count must be one number); in half of the cases the caller "
        "modifies in place every array the public calls returned (data, spatial_counts, magnitude_counts, both "
        "target_event_rates, get_rates, result arrays) and evaluates T / W / binary-T again (same numbers required); rate "
        "arrays and catalog rows compared bit for bit afterwards; "
        "every test called A/B, B/A and A/A. A case is non-trivial when the differences contain a tie, a zero or "
        "both signs; distinct by the full input")

DT = [('id', 'S256'), ('origin_time', '<i8'), ('latitude', '<f8'), ('longitude', '<f8'), ('depth', '<f8'),
      ('magnitude', '<f8')]


_MIDX = []      # pending bin-index queries (case, driver line, implementation's flat indices)
_TIES = []      # pending tie-term queries (case, driver line, sum over groups of tied ranks of t(t^2-1) by the harness)


def bits(x):
    return str(struct.unpack("<Q", struct.pack("<d", float(x)))[0])


def unbits(s):
    return struct.unpack("<d", struct.pack("<Q", int(s)))[0]


def blist(xs):
    xs = list(xs)
    return ",".join(bits(x) for x in xs) if xs else "-"


def _same(a, b, rel=1e-9, abs_=1e-12):
    a, b = float(a), float(b)
    if math.isnan(a) or math.isnan(b):
        return math.isnan(a) and math.isnan(b)
    if math.isinf(a) or math.isinf(b):
        return a == b
    return abs(a - b) <= abs_ + rel * max(abs(a), abs(b))


# ----------------------------------------------------------------------------- generation
_REG = {}


def _region(nx, ny, nm):
    key = (nx, ny, nm)
    if key not in _REG:
        from csep.core.regions import CartesianGrid2D
        origins = numpy.array([[x * 0.1, y * 0.1] for x in range(nx) for y in range(ny)])
        mags = numpy.array([4.0 + 0.5 * k for k in range(nm)])
        _REG[key] = (CartesianGrid2D.from_origins(origins, dh=0.1, magnitudes=mags), mags)
    return _REG[key]


def _gen_case(rng):
    nx, ny, nm = rng.randint(1, 6), rng.randint(1, 5), rng.randint(1, 3)
    nc = nx * ny
    g = numpy.random.default_rng(rng.randrange(2 ** 32))
    kind = rng.choice(["random", "random", "proportional", "dyadic-perm", "partly-equal", "pool", "wide", "near-equal"])
    if kind == "random":
        a = g.uniform(1e-3, 2.0, (nc, nm)); b = g.uniform(1e-3, 2.0, (nc, nm))
    elif kind == "wide":
        a = 10 ** g.uniform(-8, 2, (nc, nm)); b = 10 ** g.uniform(-8, 2, (nc, nm))
    elif kind == "proportional":       # constant log-ratio: variance ~ 0 (degenerate but admissible)
        a = g.uniform(1e-3, 2.0, (nc, nm)); b = a * rng.choice([0.5, 2.0, 3.0, 0.1])
    elif kind == "dyadic-perm":        # exact sums; B a permutation of A => N1 == N2 exactly, some cells equal
        a = g.integers(1, 65, (nc, nm)) / 64.0
        b = a.ravel().copy()
        idx = [i for i in range(b.size) if rng.random() < 0.6]
        sh = idx[:]; rng.shuffle(sh)
        b[idx] = a.ravel()[sh]
        b = b.reshape(nc, nm)
    elif kind == "near-equal":
        # B differs from A by a few ulps in a few bins: log-rate differences and null median of order 1e-16, not zero
        # ("at least one log-rate difference distinct from the null median" has no lower bound on the distance)
        a = g.integers(1, 65, (nc, nm)) / 64.0 if rng.random() < 0.5 else g.uniform(1e-3, 2.0, (nc, nm))
        b = a.copy()
        for _ in range(rng.randint(1, 3)):
            i = rng.randrange(b.size)
            b.flat[i] = b.flat[i] * (1.0 + rng.choice([1, -1]) * rng.choice([1, 2, 3, 8, 1000, 3000, 10 ** 5, 10 ** 7])
                                     * 2.0 ** -52)
    elif kind == "partly-equal":
        a = g.uniform(1e-3, 2.0, (nc, nm)); b = a.copy()
        mask = g.random((nc, nm)) < 0.5
        b[mask] = g.uniform(1e-3, 2.0, int(mask.sum()))
    else:                              # few distinct (a, b) pairs => exact ties of the log differences
        pa = g.uniform(1e-2, 2.0, 3); pb = g.uniform(1e-2, 2.0, 3)
        k = g.integers(0, 3, (nc, nm))
        a = pa[k]; b = pb[k]
    n = rng.choice([2, 2, 3, 4, 5, 9, 10, 11, rng.randint(2, 30), rng.randint(2, 200), 200])
    ncell_used = rng.choice([1, 2, 3, 4, 6, 10, nc * nm, nc * nm])
    pool = [(rng.randrange(nc), rng.randrange(nm)) for _ in range(ncell_used)]
    ev = [rng.choice(pool) for _ in range(n)]
    if kind == "near-equal" and rng.random() < 0.7:
        # make sure some events sit in the perturbed bins
        diff = [i for i in range(a.size) if a.flat[i] != b.flat[i]]
        for j in range(min(len(ev), rng.randint(1, 3)) if diff else 0):
            i = rng.choice(diff)
            ev[j] = (i // nm, i % nm)
    alpha = rng.choice([0.01, 0.05, 0.1, 0.05, round(rng.uniform(0.001, 0.999), 3)])
    scale = rng.random() < 0.4
    days_a = rng.choice([1, 30, 365, 366, 1826])
    days_b = days_a if rng.random() < 0.8 else rng.choice([1, 30, 365])
    # positive rates far below machine epsilon next to ordinary ones, in bins that host events ("positive-rate forecasts")
    if rng.random() < 0.3:
        tiny = [1e-300, 1e-200, 1e-100, 1e-40, 1e-20, 1e-17, 1e-16, 2e-16, 3e-16, 1e-14, 1e-13, 1e-10]
        a = numpy.array(a, dtype=float).reshape(nc, nm).copy(); b = numpy.array(b, dtype=float).reshape(nc, nm).copy()
        for (c, m) in set(ev) if rng.random() < 0.7 else [(rng.randrange(nc), rng.randrange(nm))]:
            if rng.random() < 0.5:
                which = rng.choice(["a", "b", "both"])
                if which in ("a", "both"):
                    a[c, m] = rng.choice(tiny) * rng.uniform(1, 9)
                if which in ("b", "both"):
                    b[c, m] = rng.choice(tiny) * rng.uniform(1, 9)
        kind = kind + "+tiny"
    case = dict(kind=kind, nx=nx, ny=ny, nm=nm, a=[float(v).hex() for v in a.ravel()],
                b=[float(v).hex() for v in b.ravel()], ev=[list(e) for e in ev], alpha=alpha, scale=scale,
                days_a=days_a, days_b=days_b)
    # horizons that are not whole days: `scale=True` divides by `(end_time - start_time).days` (whole days elapsed)
    if rng.random() < 0.25:
        case["extra_s"] = [rng.choice([3600, 43200, 86399, 1]), rng.choice([0, 3600, 86399])]
    # the factor of the forecast objects set through scale_to_test_date (inside the period) instead of scale()
    if rng.random() < 0.15:
        case["testdate"] = [rng.choice([rng.randint(0, max(days_a - 1, 0)), days_a, 0]), rng.randint(0, 23),
                            rng.choice([None, 0.5, 2.0, 3])]
    # --- input classes of the public functions (round 3) ---
    # the forecast objects were rescaled with .scale(s) before the tests (rates = stored rates x factor)
    if rng.random() < 0.35:
        pool = [0.5, 2.0, 3, 1 / 365.25, 0.1, 10.0]
        sa = rng.choice(pool)
        sb = sa if rng.random() < 0.5 else rng.choice(pool + [1])
        if rng.random() < 0.4:
            # SCALE HISTORIES with array-valued factors of every broadcastable shape, in one or both forecasts
            sa = dict(arr=rng.choice(ARR_KINDS), seed=rng.randrange(2 ** 32))
            if rng.random() < 0.5:
                sb = dict(arr=rng.choice(ARR_KINDS), seed=rng.randrange(2 ** 32))
        case["fscale"] = [sa, sb]
    # the caller modifies in place the arrays the public calls returned, then evaluates again
    case["alias"] = rng.choice(["zero", "scale", "normalise", "fill"]) if rng.random() < 0.5 else None
    # events anywhere inside their cell / magnitude bin (not only on midpoints); the top magnitude bin is open above
    if rng.random() < 0.6:
        case["pos"] = [[round(rng.uniform(0.04, 0.96), 6), round(rng.uniform(0.04, 0.96), 6),
                        (0.0 if rng.random() < 0.12 else round(rng.uniform(0.02, 0.48), 6))   # 0.0: exactly on the lower edge
                        + (rng.choice([0, 0, 0.5, 2.5]) if m == nm - 1 else 0)]
                       for _, m in ev]
    # memory layout of the stored rates; integer rates
    lay = rng.random()
    case["layout"] = "C" if lay < 0.55 else ("F" if lay < 0.75 else ("strided" if lay < 0.9 else "C"))
    # how the public functions are called (keywords / positional alpha / defaults left out), direct calls of the helpers
    case["callform"] = rng.choice(["kw", "kw", "positional", "defaults"])
    if case["callform"] == "defaults":
        case["alpha"] = 0.05
    case["helpers"] = rng.random() < 0.3
    # catalog value classes: unreported depth (NaN), epoch 0, shared origin times, non-native byte order
    case["catflags"] = [f for f in ("nan-depth", "epoch0", "dup-time", "big-endian") if rng.random() < 0.15]
    case["pre7"] = _gen_prelude(rng)
    if kind == "random" and rng.random() < 0.25:  # (never combined with "+tiny": kind differs)
        ai = g.integers(1, 10, (nc, nm)); bi = g.integers(1, 10, (nc, nm))
        case["a"] = [float(v).hex() for v in ai.ravel()]
        case["b"] = [float(v).hex() for v in bi.ravel()]
        case["layout"] = "int64"
    return case


ARR_KINDS = ["mag", "cell", "row", "full", "0d", "one"]


def _fval(spec, shape):
    """the argument of GriddedDataSet.scale(): an int / float, or (spec = dict) an ndarray of any shape that broadcasts
    against the (cells, magnitudes) rates - scale() documents "int, float, or ndarray"; all factors positive"""
    if isinstance(spec, dict):
        g = numpy.random.default_rng(spec["seed"])
        shp = {"mag": (shape[1],), "cell": (shape[0], 1), "row": (1, shape[1]), "full": shape, "0d": (), "one": (1,)}[spec["arr"]]
        return numpy.asarray(g.choice([0.25, 0.5, 1.0, 2.0, 0.1, 3.0, 1 / 365.25], size=shp) if shp else g.choice([0.5, 2.0, 0.1]))
    return spec


def _decyear(dt):
    """the harness's own decimal year (year + elapsed fraction of that year, leap years counted)"""
    import calendar
    ndy = 366.0 if calendar.isleap(dt.year) else 365.0
    nd = sum(calendar.monthrange(dt.year, i)[1] for i in range(1, dt.month))
    return dt.year + (nd + (dt.day - 1) + dt.hour / 24.0 + dt.minute / 1440.0
                      + (dt.second + dt.microsecond * 1e-6) / 86400.0) / ndy


def _build(case):
    from csep.core.forecasts import GriddedForecast
    from csep.core.catalogs import CSEPCatalog
    nx, ny, nm = case["nx"], case["ny"], case["nm"]
    region, mags = _region(nx, ny, nm)
    a = numpy.array([float.fromhex(v) for v in case["a"]]).reshape(nx * ny, nm)
    b = numpy.array([float.fromhex(v) for v in case["b"]]).reshape(nx * ny, nm)

    def laid(x):
        lay = case.get("layout", "C")
        if lay == "F":
            return numpy.asfortranarray(x)
        if lay == "strided":
            big = numpy.full((x.shape[0] * 2, x.shape[1] * 2), 7.0)
            big[1::2, ::2] = x
            return big[1::2, ::2]
        if lay == "int64":
            return x.astype(numpy.int64)
        return x
    st = datetime.datetime(2020, 1, 1)
    xs = case.get("extra_s") or [0, 0]
    FA = _user_classes()["fc"] if (case.get("pre7") or {}).get("user") else GriddedForecast     # (j) a user subclass of the forecast
    fa = FA(start_time=st, end_time=st + datetime.timedelta(days=case["days_a"], seconds=xs[0]), data=laid(a),
                         region=region, magnitudes=mags, name="A")
    fb = GriddedForecast(start_time=st, end_time=st + datetime.timedelta(days=case["days_b"], seconds=xs[1]), data=laid(b),
                         region=region, magnitudes=mags, name="B")
    if case.get("testdate") and (not case.get("fscale") or case.get("fscale_from_testdate")):
        # scale_to_test_date: the harness books the factor it is documented to set (fraction of the period elapsed at the end
        # of the test day, in decimal years); outside the period the forecast stays as it is
        t = st + datetime.timedelta(days=case["testdate"][0], hours=case["testdate"][1])
        fsc = []
        for f in (fa, fb):
            if len(case["testdate"]) > 2 and case["testdate"][2]:
                f.scale(case["testdate"][2])          # an earlier factor: scale_to_test_date REPLACES it (inside the period)
            f.scale_to_test_date(t)
            inside = f.start_time < t < f.end_time
            fsc.append((_decyear(t + datetime.timedelta(1)) - _decyear(f.start_time))
                       / (_decyear(f.end_time) - _decyear(f.start_time)) if inside
                       else ((case["testdate"][2] or 1) if len(case["testdate"]) > 2 else 1))
        case["fscale"] = fsc
        case["fscale_from_testdate"] = True
    elif case.get("fscale"):
        fa.scale(_fval(case["fscale"][0], a.shape))
        fb.scale(_fval(case["fscale"][1], b.shape))
    ev = case["ev"]
    arr = numpy.zeros(len(ev), dtype=DT)
    arr['id'] = numpy.arange(len(ev)).astype('S')
    arr['origin_time'] = 1_580_000_000_000 + numpy.arange(len(ev)) * 1000
    # cell c = ix*ny + iy has origin (ix*0.1, iy*0.1); events sit on the cell's midpoint, magnitudes inside the bin
    pos = case.get("pos") or [[0.5, 0.5, 0.25]] * len(ev)
    arr['longitude'] = [((c // ny) + p[0]) * 0.1 for (c, _), p in zip(ev, pos)]
    arr['latitude'] = [((c % ny) + p[1]) * 0.1 for (c, _), p in zip(ev, pos)]
    arr['depth'] = 10.0
    arr['magnitude'] = [4.0 + 0.5 * m + p[2] for (_, m), p in zip(ev, pos)]
    flags = case.get("catflags") or []
    if "nan-depth" in flags:
        arr['depth'][::3] = numpy.nan
    if "epoch0" in flags:
        arr['origin_time'][0] = 0
    if "dup-time" in flags and len(ev) > 1:
        arr['origin_time'][1:] = arr['origin_time'][1]
    if "big-endian" in flags:
        arr = arr.astype([(nm_, t.replace('<', '>')) for nm_, t in DT])
    cat = CSEPCatalog(data=arr, region=region)
    return fa, fb, cat, a, b


# ----------------------------------------------------------------------------- implementation calls
def _tres(r):
    return dict(ig=float(r.observed_statistic), t=float(r.quantile[0]), tcrit=float(r.quantile[1]),
                lower=float(r.test_distribution[0]), upper=float(r.test_distribution[1]))


def _call(fn, *args, **kw):
    import warnings
    with warnings.catch_warnings():
        warnings.simplefilter("ignore")
        with numpy.errstate(all="ignore"):
            return fn(*args, **kw)


# ----------------------------------------------------------------------------- independent recomputation
def _ref_t(ra, rb, n, na, nb, alpha):
    """Rhoades et al. (2011) Eq. 17/18 with math.log / math.fsum; variance in the well-conditioned centred form"""
    import scipy.stats
    x = [math.log(p) - math.log(q) for p, q in zip(ra, rb)]
    s = math.fsum(x)
    ig = (s - (na - nb)) / n
    first = math.fsum(v * v for v in x) / (n - 1) if n > 1 else float("nan")
    mean = s / len(x) if x else 0.0
    var = math.fsum((v - mean) ** 2 for v in x) / (n - 1) if n > 1 else float("nan")
    tc = float(scipy.stats.t.ppf(1 - alpha / 2, n - 1)) if n > 1 else float("nan")
    kappa = (first / var) if (n > 1 and var > 0) else float("inf")
    std = math.sqrt(var) if var >= 0 else float("nan")
    half = tc * std / math.sqrt(n) if n > 0 else float("nan")
    t = ig / (std / math.sqrt(n)) if std > 0 else float("nan")
    # size of the terms that cancel in the gain: rounding of the sums is relative to this, not to the gain itself
    mag = (math.fsum(abs(v) for v in x) + abs(na) + abs(nb)) / n
    # rounding of the inputs of Eq. 18 themselves: x_i = log p - log q carries an absolute error of an ulp of the LOGS, which
    # is relative to the spread of the x_i (not to the x_i) in the standard deviation - near-identical forecasts have x_i of
    # order 1e-13 from logs of order 1
    xerr = 2.3e-16 * max([abs(math.log(p)) + abs(math.log(q)) for p, q in zip(ra, rb)] + [0.0])
    xcond = (8 * xerr / std) if (std == std and std > 0) else float("inf")
    return dict(ig=ig, t=t, tcrit=tc, lower=ig - half, upper=ig + half, kappa=kappa, var=var, first=first, mag=mag, xcond=xcond)


def _rank_stats(d):
    """signed-rank arithmetic in exact rationals on zero-free differences: (r_plus, r_minus, T, mn, 24 se^2, tie sizes)"""
    c = len(d)
    ab = sorted(abs(v) for v in d)
    rank = {}
    i = 0
    ties = []
    while i < c:
        j = i
        while j < c and ab[j] == ab[i]:
            j += 1
        rank[ab[i]] = Fraction(i + 1 + j, 2)      # average of positions i+1 .. j
        ties.append(j - i)
        i = j
    rp = sum((rank[abs(v)] for v in d if v > 0), Fraction(0))
    rm = sum((rank[abs(v)] for v in d if v < 0), Fraction(0))
    t = min(rp, rm)
    mn = Fraction(c * (c + 1), 4)
    se24 = Fraction(c * (c + 1) * (2 * c + 1)) - Fraction(sum(k * (k * k - 1) for k in ties if k > 1), 2)
    return rp, rm, t, mn, se24, ties


def _z_of(t, mn, se24):
    return (float(t) - float(mn)) / math.sqrt(float(se24) / 24)


def _weak_orders(g):
    """all weak orderings of g items as level tuples (levels used = 0..k-1): 1, 3, 13, 75 for g = 1..4"""
    import itertools
    return [lv for lv in itertools.product(range(g), repeat=g) if set(lv) == set(range(max(lv) + 1))]


def _ref_w(x, m, keys=None):
    """signed-rank arithmetic in exact rationals on d = x - m (float64 subtraction), average ranks for ties"""
    d0 = [float(v) for v in (numpy.asarray(x, dtype=float) - float(m))]
    d = [v for v in d0 if v != 0.0]
    c = len(d)
    rp, rm, t, mn, se24, ties = _rank_stats(d)
    # Is the pattern of zeros / signs / ranks determined beyond rounding? The property speaks of "the log-rate differences
    # about (N_A - N_B)/N": differences that are zero, or tie, or are ordered only at the level of the last bits of
    # log(a) - log(b) - m depend on HOW these three float operations are arranged (log(a/b), fused, other order), which the
    # property does not fix. The exact comparison is made only when every non-zero |d| and every gap between distinct
    # |d| exceeds `band`; exact zeros count as robust only when x and m are both exactly 0 (identical rates, equal totals).
    xs = [float(v) for v in numpy.asarray(x, dtype=float)]
    keys = list(keys) if keys is not None else None
    # size of the band: 64 ulps of the largest number that enters log(a) - log(b) - m (the rounding of each of the three
    # operations is relative to ITS operands, not to the tiny difference that may be left)
    try:
        lg = [abs(math.log(v)) for k_ in (keys or []) for v in k_]
    except (TypeError, ValueError):
        lg = []
    band = 64 * 2.2e-16 * max([abs(float(m))] + [abs(v) for v in xs] + (lg or [1.0]) + [1e-300])
    # a tie is beyond rounding only between events with IDENTICAL inputs (the same pair of rates: any deterministic
    # elementwise formula gives them the same difference); two different pairs with equal |d| (e.g. (a, b) and (b, a) at
    # a zero median: log a - log b = -(log b - log a) exactly, but log(a/b) != -log(b/a)) are inside the band
    keys = keys if keys is not None else list(range(len(xs)))
    per_group = {}
    for k_, v in zip(keys, d0):
        per_group.setdefault(k_, abs(v))
    dist = sorted(v for v in per_group.values() if v != 0.0)
    zeros_ok = all((v != 0.0) or (xv == 0.0 and float(m) == 0.0) for v, xv in zip(d0, xs))
    robust = all(v > band for v in dist) and all(q - p > band for p, q in zip(dist, dist[1:])) and zeros_ok
    # Second tier: the ONLY thing inside the band is an exact coincidence |d_g| = |d_h| between different rate pairs
    # (typically (a, b) and (b, a) at a zero median); everything else is clear. Another arrangement of the float operations
    # may keep such a tie or break it either way, nothing more: the admissible results are the signed-rank statistics of
    # every weak ordering inside each such cluster (`alts`). A result outside this set (e.g. tied ranks whose variance
    # correction is missing) is wrong under every arrangement.
    alts = None
    vals = sorted(set(dist))
    if (not robust) and zeros_ok and vals and all(v > band for v in vals) \
            and all(q - p > band for p, q in zip(vals, vals[1:])):
        clusters = [[k_ for k_, v in per_group.items() if v == u] for u in vals]
        clusters = [cl for cl in clusters if len(cl) > 1]
        n_alt = 1
        for cl in clusters:
            n_alt *= {2: 3, 3: 13, 4: 75}.get(len(cl), 10 ** 9)
        if clusters and n_alt <= 3000:
            import itertools
            alts = []
            step = band / 16.0
            for combo in itertools.product(*[_weak_orders(len(cl)) for cl in clusters]):
                shift = {}
                for cl, lv in zip(clusters, combo):
                    for k_, l_ in zip(cl, lv):
                        shift[k_] = l_ * step
                dd = [math.copysign(abs(v) + shift.get(k_, 0.0), v) for k_, v in zip(keys, d0) if v != 0.0]
                _, _, t_, mn_, se_, _ = _rank_stats(dd)
                alts.append(_z_of(t_, mn_, se_))
    return dict(count=c, t2=2 * t, mn4=4 * mn, se24=se24, rp=rp, rm=rm, d=d, d0=d0,
                tie=any(k > 1 for k in ties), signs=(rp > 0 and rm > 0), robust=robust, alts=alts,
                clear=sum(1 for v in d0 if abs(v) > band))


# ----------------------------------------------------------------------------- one case
_PRIV = {}


def _private(run, mod, name, *probe):
    """a private helper of the tree under test if it exists and accepts the documented positional arguments, else None
    (counted; the public functions reach the same code and carry every clause of the property)"""
    key = (mod.__name__, name)
    if key not in _PRIV:
        import inspect
        fn = getattr(mod, name, None)
        if fn is not None:
            try:
                inspect.signature(fn).bind(*probe)
            except TypeError:
                fn = None
            except ValueError:
                pass
        _PRIV[key] = fn
        if fn is None:
            run.assumptions.append(f"private helper {mod.__name__}.{name} is absent (or has another signature) on the tree under "
                                   f"test: its direct calls are skipped, the public tests carry the clauses")
    if _PRIV[key] is None:
        run.count(f"helper-missing:{name}")
    return _PRIV[key]


# ----------------------------------------------------------------------------- round-7 classes: what happens BEFORE the judged calls
COPY_FORMS = ["copy", "deepcopy", "pickle"]
REJECTS = ["t-outside", "t-belowmag", "w-outside", "b-belowmag", "t-outside-swapped", "rates-type", "getrates-len", "rates-outside"]
_USER = {}
_UNSUPPORTED = set()


def _user_classes():
    """(j) user subclasses that override documented accessors CONSISTENTLY (the accessor stays the source of truth) and define
    __len__ / __bool__; the repo's own tests use such a catalog"""
    if not _USER:
        from csep.core.catalogs import CSEPCatalog
        from csep.core.forecasts import GriddedForecast

        class UserCatalog(CSEPCatalog):
            def get_magnitudes(self):
                return numpy.array(super().get_magnitudes(), dtype=float)

            def get_longitudes(self):
                return numpy.array(super().get_longitudes(), dtype=float)

            def get_latitudes(self):
                return numpy.array(super().get_latitudes(), dtype=float)

            def get_number_of_events(self):
                return int(super().get_number_of_events())

            def __len__(self):
                return self.get_number_of_events()

            def __bool__(self):
                return self.get_number_of_events() > 0

        class UserForecast(GriddedForecast):
            def spatial_counts(self, cartesian=False):
                return numpy.array(super().spatial_counts(cartesian=cartesian), copy=True)

            def magnitude_counts(self):
                return numpy.array(super().magnitude_counts(), copy=True)

            def __len__(self):
                return int(numpy.size(self.data))
        _USER.update(cat=UserCatalog, fc=UserForecast)
    return _USER


def _copied(run, obj, form, what):
    """(h) the object replaced by a copy of itself before use; a form the tree under test cannot make is skipped (counted)"""
    import copy, pickle
    if not form or (form, what) in _UNSUPPORTED:
        return obj
    if form == "pickle" and type(obj).__name__.startswith("User"):
        form = "deepcopy"          # the harness's user subclasses are local classes: pickle cannot name them
    try:
        new = {"copy": copy.copy, "deepcopy": copy.deepcopy, "pickle": lambda o: pickle.loads(pickle.dumps(o))}[form](obj)
        run.count(f"copy-before-use:{what}:{form}")
        return new
    except Exception as e:
        _UNSUPPORTED.add((form, what))
        run.assumptions.append(f"{form} of a {what} is not supported by the tree under test ({type(e).__name__}): form left out")
        run.count(f"copy-before-use:{what}:{form}:unsupported")
        return obj


def _rejected_call(run, kind, fa, fb, cat, region):
    """(i) a call on the SAME objects that the library rejects; the exception is caught by the caller, who carries on"""
    from csep.core import poisson_evaluations as pe, binomial_evaluations as be
    from csep.core.catalogs import CSEPCatalog
    arr = numpy.array(cat.catalog, copy=True)
    if kind.endswith("outside") or "outside" in kind:
        arr['longitude'][0] = 99.0
    elif "belowmag" in kind:
        arr['magnitude'][-1] = 1.0
    try:
        with numpy.errstate(all="ignore"):
            bad = CSEPCatalog(data=arr, region=region)
            if kind == "t-outside" or kind == "t-belowmag":
                pe.paired_t_test(fa, fb, bad, scale=True)
            elif kind == "t-outside-swapped":
                pe.paired_t_test(fb, fa, bad, alpha=0.1, scale=True)
            elif kind == "w-outside":
                pe.w_test(fa, fb, bad, scale=True)
            elif kind == "b-belowmag":
                be.binary_paired_t_test(fa, fb, bad, scale=True)
            elif kind == "rates-outside":
                fb.target_event_rates(bad, scale=True)
            elif kind == "rates-type":
                fa.target_event_rates("not a catalog", scale=True)
            else:
                fa.get_rates([0.05], [0.05, 0.05], [4.2])
        run.count(f"rejected-call:{kind}:accepted")
    except Exception:
        run.count(f"rejected-call:{kind}:raised")


def _gen_prelude(rng):
    """round-7 classes drawn for one case: copies before use, user subclasses, calls the library rejects, global numeric state"""
    return dict(copy=[rng.choice(COPY_FORMS) if rng.random() < 0.5 else None for _ in range(3)] if rng.random() < 0.3 else None,
                user=rng.random() < 0.2,
                reject=[rng.choice(REJECTS) for _ in range(rng.randint(1, 2))] if rng.random() < 0.4 else None,
                numeric=rng.random() < 0.3)


def _prelude(run, case, fa, fb, cat):
    pre = case.get("pre7")
    if not pre:
        return fa, fb, cat
    region = fa.region
    if pre.get("user"):
        U = _user_classes()
        try:
            cat = U["cat"](data=numpy.array(cat.catalog, copy=True), region=region)
            run.count("user-subclass:catalog" + ("+forecast" if type(fa).__name__ == "UserForecast" else ""))
        except Exception as e:
            run.oracle_failure(dict(case, tag="pre7"), f"user subclasses of catalog / forecast cannot be built: {type(e).__name__}: {e}")
    if pre.get("copy"):
        fa = _copied(run, fa, pre["copy"][0], "gridded-forecast")
        fb = _copied(run, fb, pre["copy"][1], "gridded-forecast")
        cat = _copied(run, cat, pre["copy"][2], "catalog")
    for kind in pre.get("reject") or []:
        _rejected_call(run, kind, fa, fb, cat, region)
    return fa, fb, cat


def _w_count_clear(case, a, b, scale, n):
    """number of log-rate differences CLEARLY distinct from the null median, from the harness's own numbers"""
    da = a / case["days_a"] if scale else a
    db = b / case["days_b"] if scale else b
    x = [math.log(float(da[c, m])) - math.log(float(db[c, m])) for c, m in case["ev"]]
    med = (math.fsum(a.ravel().tolist()) - math.fsum(b.ravel().tolist())) / n
    lg = [abs(math.log(float(arr[c, m]))) for arr in (da, db) for c, m in case["ev"]]
    band = 64 * 2.2e-16 * max([abs(med)] + [abs(v) for v in x] + lg + [1e-300])
    return sum(1 for v in x if abs(v - med) > band)


def _check(run, drv, pending, case, tag):
    import scipy.stats
    from csep.core import poisson_evaluations as pe, binomial_evaluations as be
    fa, fb, cat, a0, b0 = _build(case)
    try:
        fa, fb, cat = _prelude(run, case, fa, fb, cat)
    except Exception as e:
        run.oracle_failure(dict(case, tag=tag), f"copy / user subclass / rejected call before the tests: {type(e).__name__}: {e}")
        return
    fsc = [_fval(v, a0.shape) for v in (case.get("fscale") or [1, 1])]
    a, b = a0 * fsc[0], b0 * fsc[1]          # the rates of the forecast objects: stored rates x the factor of .scale()
    arrfac = any(isinstance(v, numpy.ndarray) for v in fsc)
    if arrfac:
        for v in fsc:
            if isinstance(v, numpy.ndarray):
                run.count("fscale:array-valued:" + ("0-d" if v.ndim == 0 else "1-d" if v.ndim == 1 else "full" if v.shape == a0.shape
                                                    else "per-cell" if v.shape[1] == 1 else "per-magnitude-row"))
    cat_bytes = cat.catalog.tobytes()
    alpha, scale = case["alpha"], case["scale"]
    n = len(case["ev"])
    nm = case["nm"]
    short = dict(case, tag=tag)
    out = {}
    midx = _MIDX
    form = case.get("callform", "kw")

    def targs(x, y):
        if form == "positional":
            return (x, y, cat, alpha, scale), {}
        if form == "defaults":          # alpha is 0.05 here; scale only passed when set
            return (x, y, cat), (dict(scale=True) if scale else {})
        return (x, y, cat), dict(alpha=alpha, scale=scale)

    def wargs(x, y):
        if form == "positional":
            return (x, y, cat, scale), {}
        if form == "defaults":
            return (x, y, cat), (dict(scale=True) if scale else {})
        return (x, y, cat), dict(scale=scale)
    for name, fn, (args, kw) in [
            ("tAB", pe.paired_t_test, targs(fa, fb)),
            ("tBA", pe.paired_t_test, targs(fb, fa)),
            ("tAA", pe.paired_t_test, targs(fa, fa)),
            ("wAB", pe.w_test, wargs(fa, fb)),
            ("wBA", pe.w_test, wargs(fb, fa)),
            ("bAB", be.binary_paired_t_test, targs(fa, fb)),
            ("bBA", be.binary_paired_t_test, targs(fb, fa))]:
        try:
            out[name] = _call(fn, *args, **kw)
            if out[name] is None:
                raise RuntimeError("None returned")
        except Exception as e:   # "return a result for any two positive-rate forecasts ... and any catalog of >= 2 events"
            # two classes are OUTSIDE that clause and may as well be refused with an exception: a W-test without any
            # log-rate difference distinct from the null median (the quantifier excludes it), and the binary variant with
            # a single active bin (N - 1 = 0: no variance, no t statistic; the present code returns nan)
            if name.startswith("w") and _w_count_clear(case, a, b, scale, n) == 0:
                run.count("w:no-difference-from-median:refused-with-exception"); out[name] = None; continue
            if name.startswith("b") and len(set(map(tuple, case["ev"]))) < 2:
                run.count("binary:one-active-bin:refused-with-exception"); out[name] = None; continue
            run.oracle_failure(short, f"{name}: no result, {type(e).__name__}: {e}")
            return
    # inputs as the harness knows them (cell/magnitude index of every event is generated, not looked up)
    da = a / case["days_a"] if scale else a
    db = b / case["days_b"] if scale else b
    ra = [float(da[c, m]) for c, m in case["ev"]]
    rb = [float(db[c, m]) for c, m in case["ev"]]
    na = math.fsum(da.ravel().tolist()); nb = math.fsum(db.ravel().tolist())
    # ---- T-test: independent recomputation, antisymmetry, mirror, self-comparison
    try:
        tab, tba, taa = _tres(out["tAB"]), _tres(out["tBA"]), _tres(out["tAA"])
        nanres = dict(ig=float("nan"), t=float("nan"), tcrit=float("nan"), lower=float("nan"), upper=float("nan"))
        bab = _tres(out["bAB"]) if out["bAB"] is not None else nanres
        bba = _tres(out["bBA"]) if out["bBA"] is not None else nanres
        zab, pab = (float(out["wAB"].observed_statistic), float(out["wAB"].quantile)) if out["wAB"] is not None else (float("nan"),) * 2
        zba, pba = (float(out["wBA"].observed_statistic), float(out["wBA"].quantile)) if out["wBA"] is not None else (float("nan"),) * 2
        ia, nfa = _call(fa.target_event_rates, cat, scale=scale)
        ib, nfb = _call(fb.target_event_rates, cat, scale=scale)
        ia = [float(v) for v in numpy.asarray(ia).ravel()]; ib = [float(v) for v in numpy.asarray(ib).ravel()]
        counts_nz = sorted(set(int(i) for i in numpy.nonzero(numpy.asarray(cat.spatial_magnitude_counts()).ravel())[0]))
    except Exception as e:
        run.oracle_failure(short, f"a result cannot be read as the documented numbers: {type(e).__name__}: {e}")
        return
    ref = _ref_t(ra, rb, n, na, nb, alpha)
    # Eq. 18 subtracts two sums of N terms: rounding of each sum (<= N ulps, summation order is free) is amplified by kappa
    cond_tol = 1e-9 + 2e-16 * max(n, 8) * ref["kappa"] + ref["xcond"] if math.isfinite(ref["kappa"]) else float("inf")
    degenerate = not (cond_tol < 1e-6)
    scale_ig = max(abs(ref["ig"]), 1e-4 * ref["mag"], 1e-300)
    if not _same(tab["ig"], ref["ig"], 1e-9, 1e-9 * scale_ig):
        run.oracle_failure(short, f"information gain {tab['ig']!r} but Eq.17 gives {ref['ig']!r}")
    if not _same(tab["tcrit"], ref["tcrit"], 1e-9):
        run.oracle_failure(short, f"t_critical {tab['tcrit']!r} but t.ppf(1-alpha/2, N-1) = {ref['tcrit']!r}")
    if not degenerate:
        half = abs(ref["upper"] - ref["ig"])
        for k in ("lower", "upper"):
            if not _same(tab[k], ref[k], cond_tol, cond_tol * half + 1e-9 * scale_ig):
                run.oracle_failure(short, f"{k} bound {tab[k]!r} but the paper's interval gives {ref[k]!r}")
        if not _same(tab["t"], ref["t"], cond_tol, 1e-9 * scale_ig / max(half, 1e-300)):
            run.oracle_failure(short, f"t statistic {tab['t']!r} but the paper's formula gives {ref['t']!r}")
    if not (_same(tba["ig"], -tab["ig"]) and _same(tba["t"], -tab["t"]) and _same(tba["tcrit"], tab["tcrit"])
            and _same(tba["lower"], -tab["upper"]) and _same(tba["upper"], -tab["lower"])):
        run.oracle_failure(short, f"swap does not negate/mirror: AB={tab!r} BA={tba!r}")
    if not abs(taa["ig"]) <= 1e-12:
        run.oracle_failure(short, f"self-comparison has gain {taa['ig']!r}")
    # ---- W-test: rank arithmetic on the implementation's own rates (public target_event_rates), swap invariance
    def rates_eq(u, v):
        return len(u) == len(v) and all(_same(p_, q_, 1e-12, 0.0) for p_, q_ in zip(u, v))
    if not (rates_eq(ia, ra) and rates_eq(ib, rb)):
        run.oracle_failure(short, "target_event_rates are not the rates of the events' bins")
    with numpy.errstate(all="ignore"):
        x = numpy.log(numpy.asarray(ia, dtype=float)) - numpy.log(numpy.asarray(ib, dtype=float))
    try:
        n1, n2 = float(fa.event_count), float(fb.event_count)
    except Exception as e:
        run.oracle_failure(short, f"event_count unreadable: {type(e).__name__}: {e}")
        return
    if not (numpy.all(numpy.isfinite(x)) and math.isfinite(n1) and math.isfinite(n2) and len(x) == n):
        run.oracle_failure(short, f"target_event_rates / totals of positive-rate forecasts are not finite positive numbers, one per "
                                  f"event: rates {ia[:5]!r} {ib[:5]!r}, totals {n1!r} {n2!r}")
        return
    m = (n1 - n2) / n
    w = _ref_w(x, m, keys=zip(ia, ib))
    if w["count"] >= 1 and not w["robust"]:
        # zeros / ties / order of the differences hang on the last bits of log(a) - log(b) - m: only what holds for every
        # arrangement of these operations is required (theorems w_test_result, w_p_bounds_normal): a finite z <= 0 and
        # p = 2 sf(|z|) in [0, 1] in both orders - provided some difference is clearly distinct from the median
        run.count("w:rank-pattern-inside-rounding-band")
        if w["alts"] is not None:
            run.count("w:ties-between-different-rate-pairs:admissible-set")
            for z_, p_, nm_ in ((zab, pab, "A/B"), (zba, pba, "B/A")):
                if not any(_same(z_, zr) and _same(p_, 2.0 * float(scipy.stats.norm.sf(abs(zr))), 1e-9, 1e-300) for zr in w["alts"]):
                    run.oracle_failure(short, f"W-test ({nm_}) z={z_!r} p={p_!r} is none of the signed-rank results that keeping or "
                                              f"breaking the coincident |d| of different rate pairs allows: "
                                              f"{sorted(set(round(v, 12) for v in w['alts']))[:8]!r}")
        elif w["clear"] >= 1:
            for z_, p_ in ((zab, pab), (zba, pba)):
                if not (math.isfinite(z_) and z_ <= 1e-12 and 0.0 <= p_ <= 1.0
                        and _same(p_, 2.0 * float(scipy.stats.norm.sf(abs(z_))), 1e-9, 1e-300)):
                    run.oracle_failure(short, f"W-test z={z_!r} p={p_!r}: not a finite z <= 0 with p = 2 sf(|z|) in [0,1]")
        elif not (math.isfinite(zab) and math.isfinite(zba)):
            # every difference is within rounding of the median: the test may see none (outside the quantifier)
            run.count("w:all-differences-inside-rounding-band")
    elif w["count"] >= 1:
        zr = (float(w["t2"]) / 2 - float(w["mn4"]) / 4) / math.sqrt(float(w["se24"]) / 24)
        pr = 2.0 * float(scipy.stats.norm.sf(abs(zr)))
        if not (_same(zab, zr) and _same(pab, pr)):
            run.oracle_failure(short, f"W-test z={zab!r} p={pab!r} but signed-rank arithmetic gives z={zr!r} p={pr!r}")
        if not (0.0 <= pab <= 1.0 and 0.0 <= pba <= 1.0):
            run.oracle_failure(short, f"W-test p outside [0,1]: {pab!r} {pba!r}")
        if not (_same(zab, zba) and _same(pab, pba)):
            run.oracle_failure(short, f"W-test changes under a swap: z {zab!r} vs {zba!r}, p {pab!r} vs {pba!r}")
        if w["rp"] + w["rm"] != Fraction(w["count"] * (w["count"] + 1), 2):
            run.oracle_failure(short, "rank sums do not add to c(c+1)/2")
        # third opinion: SciPy's own signed-rank test with the options the code's formulas correspond to
        # (zeros discarded, no continuity correction, normal approximation, two-sided)
        try:
            sw = scipy.stats.wilcoxon(numpy.asarray(w["d"]), zero_method="wilcox", correction=False,
                                      alternative="two-sided", method="approx")
            if not (_same(float(sw.statistic), float(w["t2"]) / 2) and _same(float(sw.pvalue), pab, 1e-9, 1e-300)):
                run.oracle_failure(short, f"W-test p={pab!r}, T={float(w['t2']) / 2!r} but scipy.stats.wilcoxon(wilcox, no "
                                          f"correction, approx) gives p={float(sw.pvalue)!r}, T={float(sw.statistic)!r}")
            run.count("w:scipy-wilcoxon-agrees")
        except (TypeError, ValueError):
            run.count("w:scipy-wilcoxon-unavailable")
    else:
        run.count("w:no-difference-from-median (outside the quantifier)")
    # ---- binary variant: a result, the T formulas on the distinct active bins, antisymmetry
    act = sorted(set(c * nm + mm for c, mm in case["ev"]))
    if counts_nz != act:
        run.oracle_failure(short, f"active bins {counts_nz!r} are not the events' bins {act!r}")
    nact = len(act)
    bdeg = True
    if nact >= 2:
        fa_flat, fb_flat = a.ravel(), b.ravel()
        bref = _ref_t([float(fa_flat[i]) for i in act], [float(fb_flat[i]) for i in act], nact, na, nb, alpha)
        s_ig = max(abs(bref["ig"]), 1e-4 * bref["mag"], 1e-300)
        if not (_same(bab["ig"], bref["ig"], 1e-9, 1e-9 * s_ig) and _same(bab["tcrit"], bref["tcrit"], 1e-9)):
            run.oracle_failure(short, f"binary gain/t_crit {bab['ig']!r},{bab['tcrit']!r} but the T formulas on the "
                                      f"{nact} active bins give {bref['ig']!r},{bref['tcrit']!r}")
        ctol = 1e-9 + 2e-16 * max(nact, 8) * bref["kappa"] + bref["xcond"] if math.isfinite(bref["kappa"]) else float("inf")
        bdeg = not (ctol < 1e-6)
        if not bdeg:
            half = abs(bref["upper"] - bref["ig"])
            for k in ("lower", "upper"):
                if not _same(bab[k], bref[k], ctol, ctol * half + 1e-9 * s_ig):
                    run.oracle_failure(short, f"binary {k} {bab[k]!r} but the T formulas give {bref[k]!r}")
        if not (_same(bba["ig"], -bab["ig"]) and _same(bba["t"], -bab["t"])
                and _same(bba["lower"], -bab["upper"]) and _same(bba["upper"], -bab["lower"])):
            run.oracle_failure(short, f"binary swap does not negate/mirror: AB={bab!r} BA={bba!r}")
        # no bin holds two events and no division by the horizon: the binary variant IS the paired test
        # (theorem binary_eq_paired_of_distinct) - compared on the implementation's own two results
        if nact == n and not scale and not degenerate:
            if not (_same(bab["ig"], tab["ig"], 1e-9, 1e-9 * s_ig) and _same(bab["tcrit"], tab["tcrit"])
                    and _same(bab["lower"], tab["lower"], cond_tol, cond_tol * abs(tab["upper"] - tab["ig"]) + 1e-9 * s_ig)
                    and _same(bab["upper"], tab["upper"], cond_tol, cond_tol * abs(tab["upper"] - tab["ig"]) + 1e-9 * s_ig)):
                run.oracle_failure(short, f"all events in distinct bins, yet binary {bab!r} differs from paired {tab!r}")
            run.count("binary:distinct-bins-equals-paired")
    else:
        run.count("binary:one-active-bin (N-1 = 0, nan result returned)")
    # ---- the helpers called directly with their documented defaults / optional arguments
    if case.get("helpers"):
        try:
            lons, lats, mg = cat.get_longitudes(), cat.get_latitudes(), cat.get_magnitudes()
            r0 = [float(v) for v in fa.get_rates(lons, lats, mg)]                       # data=None: the forecast's own rates
            r1, (ix, im) = fa.get_rates(lons, lats, mg, data=fa.data * 2.0, ret_inds=True)
            want = [float(a[c, m]) for c, m in case["ev"]]
            if not rates_eq(r0, want) or not rates_eq([float(v) for v in r1], [2.0 * v for v in want]) \
                    or [(int(i), int(j)) for i, j in zip(ix, im)] != [tuple(e) for e in case["ev"]]:
                run.oracle_failure(short, "get_rates (data=None / data=, ret_inds=True) does not return the rates / indices of "
                                          "the events' bins")
            t_helper = _private(run, pe, "_t_test_ndarray", [1.0], [1.0], 2, 1.0, 1.0)
            if t_helper is not None:
                h = _call(t_helper, numpy.array(ra), numpy.array(rb), n, na, nb)     # alpha left at its default 0.05
                href = _ref_t(ra, rb, n, na, nb, 0.05)
                if not (_same(float(h["information_gain"]), ref["ig"], 1e-9, 1e-9 * scale_ig)
                        and _same(float(h["t_critical"]), href["tcrit"], 1e-9)):
                    run.oracle_failure(short, f"_t_test_ndarray with default alpha: {h!r}")
            w_helper = _private(run, pe, "_w_test_ndarray", [1.0]) if (w["count"] >= 1 and w["robust"]) else None
            if w_helper is not None:
                h0 = _call(w_helper, numpy.asarray(w["d0"]))                     # m left at its default 0
                if not (_same(float(h0["z_statistic"]), zab) and _same(float(h0["probability"]), pab)):
                    run.oracle_failure(short, f"_w_test_ndarray(x - m) with default m differs from w_test: {h0!r} vs z={zab!r}")
            run.count("helpers-called-directly")
            if not case.get("nomodel"):
                # the model's own bin index of every event (open-ended last magnitude bin) against the code's lookup
                impl_flat = [int(i) * nm + int(j) for i, j in zip(ix, im)]
                edges = ",".join(frac(4.0 + 0.5 * k) for k in range(nm))
                q = drv.ask(f"c08_midx {edges} {','.join(str(c) for c, _ in case['ev'])} "
                            f"{','.join(frac(float(v)) for v in mg)}")
                midx.append((short, q, impl_flat))
        except Exception as e:
            run.oracle_failure(short, f"direct helper call: {type(e).__name__}: {e}")
    # ---- ALIASING OF RETURNED OBJECTS: the caller changes in place every array the public calls handed out, then evaluates
    # again: the results must be those of the forecasts as constructed (bit for bit the first results)
    if case.get("alias"):
        mode = case["alias"]

        def poke(o):
            if isinstance(o, (tuple, list)):
                return sum(poke(v) for v in o)
            if not isinstance(o, numpy.ndarray) or o.size == 0:
                return 0
            try:
                if mode == "zero":
                    o[...] = 0
                elif mode == "scale":
                    o *= 3
                elif mode == "fill":
                    o[...] = 7
                else:
                    o /= o.sum()
                return 1
            except (TypeError, ValueError):
                return 0
        try:
            k_ = 0
            for f_ in (fa, fb):
                for get in (lambda: f_.data, lambda: f_.spatial_counts(), lambda: f_.magnitude_counts(),
                            lambda: _call(f_.target_event_rates, cat, scale=scale),
                            lambda: _call(f_.target_event_rates, cat, scale=not scale),
                            lambda: f_.get_rates(cat.get_longitudes(), cat.get_latitudes(), cat.get_magnitudes())):
                    try:
                        k_ += poke(get())
                    except Exception:
                        pass
            for r_ in out.values():
                if r_ is not None:
                    poke(getattr(r_, "test_distribution", None)); poke(getattr(r_, "quantile", None))
            run.count("alias:returned-arrays-modified" if k_ else "alias:nothing-modifiable")
            (ta, tk) = targs(fa, fb); (wa, wk) = wargs(fa, fb)
            again = dict(tAB=_call(pe.paired_t_test, *ta, **tk), wAB=_call(pe.w_test, *wa, **wk) if out["wAB"] is not None else None,
                         bAB=_call(be.binary_paired_t_test, *ta, **tk) if out["bAB"] is not None else None)
            t2_ = _tres(again["tAB"])
            same = all(_same(t2_[k], tab[k], 1e-12, 0.0) for k in t2_)
            if again["wAB"] is not None:
                same = same and _same(float(again["wAB"].observed_statistic), zab, 1e-12, 0.0) \
                    and _same(float(again["wAB"].quantile), pab, 1e-12, 0.0)
            if again["bAB"] is not None:
                b2_ = _tres(again["bAB"])
                same = same and all(_same(b2_[k], bab[k], 1e-12, 0.0) for k in b2_)
            if not same:
                run.oracle_failure(short, f"after the caller modified in place ({mode}) arrays RETURNED by the forecasts / results the "
                                          f"tests give other numbers: paired T {t2_!r} (before {tab!r})")
        except Exception as e:
            run.oracle_failure(short, f"evaluation after in-place changes to returned arrays: {type(e).__name__}: {e}")
    # ---- (k) GLOBAL NUMERIC STATE: the same evaluations under numpy.errstate(divide/invalid='raise') and a 3-digit decimal context
    # (only where the statistics are well defined: no 0/0 of a vanishing variance, at least one difference for W)
    if (case.get("pre7") or {}).get("numeric") and not degenerate and w["count"] >= 1 and out["wAB"] is not None:
        import decimal
        try:
            (ta, tk) = targs(fa, fb); (wa, wk) = wargs(fa, fb)
            import warnings as _w
            with _w.catch_warnings(), numpy.errstate(divide="raise", invalid="raise"), decimal.localcontext() as ctx:
                _w.simplefilter("ignore")
                ctx.prec = 3
                tn = _tres(pe.paired_t_test(*ta, **tk))
                wn = pe.w_test(*wa, **wk)
                bn = _tres(be.binary_paired_t_test(*ta, **tk)) if (nact >= 2 and not bdeg and out["bAB"] is not None) else None
            same = all(_same(tn[k], tab[k], 1e-12, 0.0) for k in tn) and _same(float(wn.observed_statistic), zab, 1e-12, 0.0) \
                and _same(float(wn.quantile), pab, 1e-12, 0.0) and (bn is None or all(_same(bn[k], bab[k], 1e-12, 0.0) for k in bn))
            if not same:
                run.oracle_failure(short, f"under numpy.errstate(divide/invalid='raise') and a 3-digit decimal context the tests give "
                                          f"other numbers: paired T {tn!r} (before {tab!r})")
            run.count("numeric-state:errstate-raise+decimal-prec-3")
        except Exception as e:
            run.oracle_failure(short, f"under numpy.errstate(divide/invalid='raise'): {type(e).__name__}: {e}")
    # ---- ALIASING OF CALLER-OWNED INPUT: rate arrays handed to the constructors and the catalog rows, bit for bit
    a_ref = numpy.array([float.fromhex(v) for v in case["a"]]).reshape(a0.shape)
    b_ref = numpy.array([float.fromhex(v) for v in case["b"]]).reshape(b0.shape)
    if not (numpy.array_equal(a0, a_ref) and numpy.array_equal(b0, b_ref)):
        run.oracle_failure(short, "the rate arrays handed to the forecast constructors were changed (by a test, or through an "
                                  "array the forecast returned)")
    try:
        if cat.catalog.tobytes() != cat_bytes:
            run.oracle_failure(short, "the rows of the observed catalog were changed by the tests")
    except Exception as e:
        run.oracle_failure(short, f"catalog rows unreadable after the tests: {type(e).__name__}: {e}")
    # ---- bookkeeping
    nontriv = w["tie"] or w["signs"] or (w["count"] < n)
    run.case(dict(kind=case["kind"], n=n, alpha=alpha, scale=scale, cells=case["nx"] * case["ny"], nm=nm, tag=tag),
             (tuple(case["a"]), tuple(case["b"]), tuple(map(tuple, case["ev"])), alpha, scale) if nontriv else None)
    run.count("kind:" + case["kind"])
    run.count("w:" + ("ties" if w["tie"] else "no-ties") + ("+zeros" if w["count"] < n else ""))
    run.count("n<10" if n < 10 else "n>=10")
    run.count("scale" if scale else "noscale")
    if degenerate:
        run.count("t:variance-ill-conditioned")
    for fl in case.get("catflags") or []:
        run.count("catalog:" + fl)
    run.count("callform:" + form)
    if case.get("nomodel"):
        return      # very large cases: oracle only (the exact rank model is quadratic in the number of events)
    # ---- correspondence with the Lean model
    tc = float(scipy.stats.t.ppf(1 - alpha / 2, n - 1))
    i_t = drv.ask(f"c08_t {blist(ia)} {blist(ib)} {n} {bits(out_nf(fa, scale, case['days_a']))} "
                  f"{bits(out_nf(fb, scale, case['days_b']))} {bits(tc)}")
    i_w = drv.ask(f"c08_w {','.join(frac(float(v)) for v in x)} {frac(m)}")
    if n <= 60:
        # the tie correction grouped by RANK (as the source does) and by VALUE (as the model's se24 does), against the
        # harness's own grouping of the sorted |d|
        ab = sorted(abs(v) for v in w["d"])
        groups = [sum(1 for v in ab if v == u) for u in sorted(set(ab))]
        _TIES.append((short, drv.ask(f"c08_ties {','.join(frac(float(v)) for v in x)} {frac(m)}"),
                      sum(k * (k * k - 1) for k in groups if k > 1)))
        if w["d"]:
            # the model of SciPy's rank algorithm against the installed scipy.stats.rankdata on the |d| the test ranks
            absd = [abs(v) for v in w["d"]]
            want = [int(round(2 * float(r))) for r in scipy.stats.rankdata(numpy.asarray(absd))]
            _TIES.append((short, drv.ask(f"c08_rank {','.join(frac(v) for v in absd)}"), ",".join(map(str, want))))
    i_b = None
    if nact >= 2:
        tcb = float(scipy.stats.t.ppf(1 - alpha / 2, nact - 1))
        i_b = drv.ask(f"c08_bin {blist(a.ravel())} {blist(b.ravel())} "
                      f"{','.join(str(c * nm + mm) for c, mm in case['ev'])} "
                      f"{bits(out_nf(fa, scale, case['days_a']))} {bits(out_nf(fb, scale, case['days_b']))} {bits(tcb)}")
    flat_ev = ",".join(str(c * nm + mm) for c, mm in case["ev"])
    if arrfac:      # the Lean forecast carries one scalar factor: an array factor is folded into the stored rates
        pa, pb, pfa, pfb = a, b, 1.0, 1.0
    else:
        pa, pb, pfa, pfb = a0, b0, fsc[0], fsc[1]
    pubargs = (f"{blist(pa.ravel())} {bits(pfa)} {case['days_a']} {blist(pb.ravel())} {bits(pfb)} {case['days_b']} "
               f"{flat_ev} {1 if scale else 0}")
    i_pt = drv.ask(f"c08_pubt {pubargs} {bits(tc)}")
    i_pb = drv.ask(f"c08_pubb {pubargs} {bits(tcb)}") if nact >= 2 else None
    la = numpy.log(numpy.asarray(ia, dtype=float)); lb = numpy.log(numpy.asarray(ib, dtype=float))
    i_pw = drv.ask(f"c08_pubw {','.join(frac(float(v)) for v in la)} {','.join(frac(float(v)) for v in lb)} "
                   f"{frac(n1)} {frac(n2)} {frac(float(n))}")
    if case.get("fscale"):
        run.count("fscale")
    if case.get("pos"):
        run.count("events-off-midpoint")
    run.count("layout:" + case.get("layout", "C"))
    pending.append((short, i_t, i_w, i_b, tab, cond_tol, w, zab, bab, act, degenerate, bdeg, i_pt, i_pb, i_pw,
                    (out_nf(fa, scale, case["days_a"]), out_nf(fb, scale, case["days_b"]))))


def short_n(short):
    return len(short.get("ev", [])) or 1


def out_nf(f, scale, days):
    """the forecast total exactly as target_event_rates returns it (numpy.sum of the possibly scaled data)"""
    return float(numpy.sum(f.data / days)) if scale else float(numpy.sum(f.data))


def _flush(run, drv, pending):
    out = drv.run()
    for short, q, impl_flat in _MIDX:
        if out[q] != ",".join(str(v) for v in impl_flat):
            run.mismatch(short, impl_flat, out[q])
    _MIDX.clear()
    for short, q, want in _TIES:
        if isinstance(want, str):
            if out[q] != want:
                run.mismatch(short, dict(scipy_rankdata_doubled=want), out[q])
        elif out[q].split() != [str(want), str(want)]:
            run.mismatch(short, dict(tie_term=want), out[q])
    _TIES.clear()
    bitexact = [0, 0]
    for short, i_t, i_w, i_b, tab, cond_tol, w, zab, bab, act, degenerate, bdeg, i_pt, i_pb, i_pw, totals in pending:
        # T: array-level model (rates and totals from the implementation) and public model (rates looked up and totals
        # summed by the model from the stored rates, the .scale() factor and the horizon)
        for idx in (i_t, i_pt):
            try:
                toks = [unbits(s) for s in out[idx].split()]
                ig, t, lo, up, var = toks[:5]
            except Exception:
                run.mismatch(short, tab, out[idx]); continue
            # the gain subtracts the totals: its rounding is relative to (|N_A| + |N_B|)/N, not to the gain
            mag = (abs(totals[0]) + abs(totals[1])) / max(short_n(short), 1)
            ok = _same(tab["ig"], ig, 1e-9, 1e-9 * max(abs(ig), 1e-300) + 1e-12 + 1e-13 * mag)
            if not degenerate:
                half = abs(up - ig)
                ok = ok and _same(tab["t"], t, cond_tol, 1e-12 + 1e-13 * mag / max(half, 1e-300)) \
                    and _same(tab["lower"], lo, cond_tol, cond_tol * half + 1e-12 + 1e-13 * mag) \
                    and _same(tab["upper"], up, cond_tol, cond_tol * half + 1e-12 + 1e-13 * mag)
            if len(toks) == 7:
                ok = ok and _same(toks[5], totals[0], 1e-12, 0.0) and _same(toks[6], totals[1], 1e-12, 0.0)
            if not ok:
                run.mismatch(short, dict(tab, totals=list(totals)), dict(ig=ig, t=t, lower=lo, upper=up, extra=toks[5:]))
        # W: exact statistics, z to 1e-9 (bit-exactness recorded); `c08_w` gets x and m from the harness, `c08_pubw`
        # forms them itself in Soft64 from the float logs and the totals
        for idx in (i_w, i_pw):
            try:
                c, t2, mn4, se24, zb = out[idx].split()
                okw = (int(c) == w["count"] and Fraction(t2) == w["t2"] and Fraction(mn4) == w["mn4"]
                       and Fraction(se24) == w["se24"])
                zm = unbits(zb)
            except Exception:
                okw, zm = False, None
            if w["count"] >= 1:
                if not (okw and (_same(zab, zm) or not w["robust"])):
                    run.mismatch(short, dict(z=zab, count=w["count"], t2=str(w["t2"]), mn4=str(w["mn4"]),
                                             se24=str(w["se24"])), out[idx])
                if idx == i_w:
                    bitexact[1] += 1
                    if zm is not None and bits(zm) == bits(zab):
                        bitexact[0] += 1
            elif not okw:
                run.mismatch(short, dict(count=0), out[idx])
        # binary
        for idx in (i_b, i_pb):
            if idx is None:
                continue
            try:
                toks = out[idx].split()
                ig, t, lo, up, var = [unbits(s) for s in toks[:5]]
                mact = [] if toks[6] == "-" else [int(v) for v in toks[6].split(",")]
                okb = (int(toks[5]) == len(act) and mact == act and _same(bab["ig"], ig, 1e-9, 1e-12))
                if okb and not bdeg:
                    half = abs(up - ig)
                    # same conditioning rule as for the T-test, from the model's own variance
                    okb = (_same(bab["lower"], lo, 1e-6, 1e-6 * half + 1e-12) and _same(bab["upper"], up, 1e-6, 1e-6 * half + 1e-12))
            except Exception:
                okb = False
            if not okb:
                run.mismatch(short, bab, out[idx])
    prev = run.extra.get("_w_bitexact", [0, 0])
    prev = [prev[0] + bitexact[0], prev[1] + bitexact[1]]
    run.extra["_w_bitexact"] = prev
    run.extra["w_z_bitexact"] = f"{prev[0]}/{prev[1]}"
    pending.clear()
    drv.lines.clear()



# ----------------------------------------------------------------------------- sizes
def _big_case(rng):
    """more than 2^16 space-magnitude bins, more than 2^16 events, more than 65535 events in ONE bin (oracle only)"""
    nx, ny, nm = 330, 200, 1
    nc = nx * ny
    g = numpy.random.default_rng(rng.randrange(2 ** 32))
    a = g.uniform(0.01, 2.0, (nc, nm)); b = g.uniform(0.01, 2.0, (nc, nm))
    hot = (rng.randrange(nc), 0)
    ev = [hot] * 65600 + [(int(c), 0) for c in g.integers(0, nc, 4500)] + [(nc - 1, 0), (0, 0)]
    rng.shuffle(ev)
    return dict(kind="big", nx=nx, ny=ny, nm=nm, a=[float(v).hex() for v in a.ravel()], b=[float(v).hex() for v in b.ravel()],
                ev=[list(e) for e in ev], alpha=0.05, scale=rng.random() < 0.5, days_a=365, days_b=365, nomodel=True)


# ----------------------------------------------------------------------------- sessions on shared objects
def _gen_session(rng):
    """the objects of one generated case used for a SEQUENCE of public calls with changing arguments: tests in any order
    and orientation with scale on and off, rescaling of a forecast object, an in-place magnitude cut of the catalog,
    reads; after every step the result is compared with a recomputation from the harness's own bookkeeping"""
    case = _gen_case(rng)
    case.pop("fscale", None)
    case["layout"] = "C" if case.get("layout") == "int64" else case.get("layout", "C")
    steps = []
    for _ in range(rng.randint(4, 8)):
        op = rng.choice(["t", "t", "w", "w", "b", "fscale", "fscale", "catcut", "ntest", "rates", "counts", "shared", "testdate",
                         "reject", "reject"])
        st = dict(op=op, order=rng.choice(["AB", "BA", "AA"]), scale=rng.random() < 0.5,
                  alpha=rng.choice([0.05, 0.01, 0.1]))
        if op == "fscale":
            st.update(which=rng.choice("ab"), v=rng.choice([0.5, 2.0, 1, 3, 0.1, 10.0]) if rng.random() < 0.65 else
                      dict(arr=rng.choice(ARR_KINDS), seed=rng.randrange(2 ** 32)))
        if op == "catcut":
            st["cut"] = rng.choice([4.5, 5.0])
        if op == "reject":
            st["kind"] = rng.choice(REJECTS)
        if op == "testdate":
            # scale_to_test_date on one of the objects: day offset from the start (also before / after the period), hour
            st.update(which=rng.choice("ab"), t=[rng.choice([-1, 0, 0, 1, 7, 29, 30, 364, 365, 400, 2000, rng.randint(0, 400)]),
                                                 rng.choice([0, 0, 6, 23])])
        steps.append(st)
    case["steps"] = steps
    case["kind"] = "session:" + case["kind"]
    return case


def _session(run, case):
    import scipy.stats
    from csep.core import poisson_evaluations as pe, binomial_evaluations as be
    try:
        fa, fb, cat, a0, b0 = _build(case)
    except Exception as e:
        run.oracle_failure(case, f"objects cannot be built: {type(e).__name__}: {e}")
        return
    snap_a, snap_b = a0.copy(), b0.copy()
    try:
        fa, fb, cat = _prelude(run, case, fa, fb, cat)
    except Exception as e:
        run.oracle_failure(case, f"copy / user subclass / rejected call before the session: {type(e).__name__}: {e}")
        return
    nm = case["nm"]
    fac = dict(a=1.0, b=1.0)
    if case.get("fscale_from_testdate"):
        # the session starts from forecasts whose factor was set by scale_to_test_date (booked by _build)
        fac = dict(a=float(case["fscale"][0]), b=float(case["fscale"][1]))
        run.count("session:starts-after-scale_to_test_date")
    ev = [tuple(e) for e in case["ev"]]
    pos = case.get("pos") or [[0.5, 0.5, 0.25]] * len(ev)
    mags = [4.0 + 0.5 * m + p[2] for (_, m), p in zip(ev, pos)]
    days = dict(a=case["days_a"], b=case["days_b"])
    for k, st in enumerate(case["steps"], start=1):
        short = dict(case, step=k, tag="session")
        op, scale, alpha = st["op"], st["scale"], st["alpha"]
        F = dict(A=("a", fa, a0), B=("b", fb, b0))
        (k1, f1, d1_), (k2, f2, d2_) = F[st["order"][0]], F[st["order"][1]]
        n = len(ev)
        try:
            if op == "fscale":
                v_ = _fval(st["v"], a0.shape)
                (fa if st["which"] == "a" else fb).scale(v_)
                fac[st["which"]] = v_ if isinstance(v_, numpy.ndarray) else float(v_)
                continue
            if op == "reject":
                # (i) a call the library rejects on the session's own objects; the caller catches it and carries on
                _rejected_call(run, st["kind"], fa, fb, cat, fa.region)
                continue
            if op == "testdate":
                f = fa if st["which"] == "a" else fb
                t = f.start_time + datetime.timedelta(days=st["t"][0], hours=st["t"][1])
                f.scale_to_test_date(t)
                if f.start_time < t < f.end_time:       # outside the period the forecast stays as it is
                    fac[st["which"]] = (_decyear(t + datetime.timedelta(1)) - _decyear(f.start_time)) \
                        / (_decyear(f.end_time) - _decyear(f.start_time))
                    run.count("session:scale_to_test_date:inside")
                else:
                    run.count("session:scale_to_test_date:outside-unchanged")
                continue
            if op == "catcut":
                keep = [i for i, m in enumerate(mags) if m >= st["cut"]]
                if len(keep) >= 2:
                    cat.filter(f"magnitude >= {float(st['cut'])!r}")
                    ev = [ev[i] for i in keep]; mags = [mags[i] for i in keep]
                continue
            if op == "ntest":
                _call(pe.number_test, f1, cat); continue
            if op == "rates":
                _call(f1.target_event_rates, cat, scale=scale); continue
            if op == "counts":
                _call(cat.spatial_magnitude_counts); _call(f1.spatial_counts); continue
            if op == "shared":
                # a second forecast object on the SAME stored rates, rescaled: must not reach the first
                from csep.core.forecasts import GriddedForecast
                g2 = GriddedForecast(start_time=f1.start_time, end_time=f1.end_time, data=d1_,
                                     region=f1.region, magnitudes=f1.magnitudes, name="twin")
                g2.scale(7.0); _call(pe.paired_t_test, g2, f2, cat, scale=True); continue
            fn = dict(t=pe.paired_t_test, w=pe.w_test, b=be.binary_paired_t_test)[op]
            kw = dict(scale=scale) if op == "w" else dict(alpha=alpha, scale=scale)
            res = _call(fn, f1, f2, cat, **kw)
            if op == "w":
                got = dict(z=float(res.observed_statistic), p=float(res.quantile))
            else:
                got = _tres(res)
        except Exception as e:
            refused = False
            if op == "b" and len(set(ev)) < 2:
                refused = True       # one active bin: no variance, outside "returns a result" (the present code returns nan)
            if op == "w":
                sa_ = (d1_ * fac[k1]) / (days[k1] if scale else 1); sb_ = (d2_ * fac[k2]) / (days[k2] if scale else 1)
                x_ = [math.log(float(sa_[c, m])) - math.log(float(sb_[c, m])) for c, m in ev]
                m_ = (math.fsum((d1_ * fac[k1]).ravel().tolist()) - math.fsum((d2_ * fac[k2]).ravel().tolist())) / max(len(ev), 1)
                lg_ = [abs(math.log(float(arr[c, m]))) for arr in (sa_, sb_) for c, m in ev]
                band_ = 64 * 2.2e-16 * max([abs(m_)] + [abs(v) for v in x_] + lg_ + [1e-300])
                refused = not any(abs(v - m_) > band_ for v in x_)     # no difference distinct from the null median
            if refused:
                run.count(f"session-op:{op}:degenerate-refused-with-exception")
                continue
            run.oracle_failure(short, f"step {k} ({op} {st['order']} scale={scale}): {type(e).__name__}: {e}")
            return
        # recomputation from scratch: stored rates x current factor (/ days), the events the catalog holds now
        ea, eb = d1_ * fac[k1], d2_ * fac[k2]
        sa = ea / days[k1] if scale else ea
        sb = eb / days[k2] if scale else eb
        ra = [float(sa[c, m]) for c, m in ev]; rb = [float(sb[c, m]) for c, m in ev]
        na, nb = math.fsum(sa.ravel().tolist()), math.fsum(sb.ravel().tolist())
        ok, why = True, ""
        if op == "t":
            ref = _ref_t(ra, rb, n, na, nb, alpha)
            s_ig = max(abs(ref["ig"]), 1e-4 * ref["mag"], 1e-300)
            ok = _same(got["ig"], ref["ig"], 1e-9, 1e-9 * s_ig) and _same(got["tcrit"], ref["tcrit"], 1e-9)
            ctol = 1e-9 + 2e-16 * max(n, 8) * ref["kappa"] + ref["xcond"] if math.isfinite(ref["kappa"]) else float("inf")
            if ok and ctol < 1e-6:
                half = abs(ref["upper"] - ref["ig"])
                ok = _same(got["lower"], ref["lower"], ctol, ctol * half + 1e-9 * s_ig) and \
                    _same(got["upper"], ref["upper"], ctol, ctol * half + 1e-9 * s_ig)
            why = f"paired T {got!r} but Eq. 17/18 on the current objects give ig={ref['ig']!r} [{ref['lower']!r}, {ref['upper']!r}]"
        elif op == "w":
            x = numpy.log(numpy.array(ra)) - numpy.log(numpy.array(rb))
            try:
                t1, t2 = float(f1.event_count), float(f2.event_count)  # the totals of the null median, checked against
            except Exception as e:
                run.oracle_failure(short, f"step {k}: event_count of a forecast is not a number ({type(e).__name__}: {e}): "
                                          f"{numpy.shape(f1.event_count)!r} {numpy.shape(f2.event_count)!r}")
                return
            if not (_same(t1, math.fsum(ea.ravel().tolist()), 1e-12, 0.0) and _same(t2, math.fsum(eb.ravel().tolist()), 1e-12, 0.0)):
                run.oracle_failure(short, f"step {k}: forecast totals {t1!r}, {t2!r} are not the sums of the current rates")
                return
            w = _ref_w(x, (t1 - t2) / n, keys=zip(ra, rb))
            if w["count"] >= 1 and not w["robust"]:
                if w["alts"] is not None:
                    ok = any(_same(got["z"], zr) and _same(got["p"], 2.0 * float(scipy.stats.norm.sf(abs(zr))), 1e-9, 1e-300)
                             for zr in w["alts"])
                    why = f"W-test {got!r} is none of the admissible signed-rank results {sorted(set(round(v, 12) for v in w['alts']))[:8]!r}"
                elif w["clear"] >= 1:
                    ok = math.isfinite(got["z"]) and got["z"] <= 1e-12 and 0.0 <= got["p"] <= 1.0 \
                        and _same(got["p"], 2.0 * float(scipy.stats.norm.sf(abs(got["z"]))), 1e-9, 1e-300)
                    why = f"W-test {got!r}: not a finite z <= 0 with p = 2 sf(|z|) in [0,1]"
            elif w["count"] >= 1:
                zr = (float(w["t2"]) / 2 - float(w["mn4"]) / 4) / math.sqrt(float(w["se24"]) / 24)
                pr = 2.0 * float(scipy.stats.norm.sf(abs(zr)))
                ok = _same(got["z"], zr) and _same(got["p"], pr)
                why = f"W-test {got!r} but signed-rank arithmetic on the current objects gives z={zr!r} p={pr!r}"
        else:
            act = sorted(set(c * nm + mm for c, mm in ev))
            if len(act) >= 2:
                ref = _ref_t([float(ea.ravel()[i]) for i in act], [float(eb.ravel()[i]) for i in act], len(act), na, nb, alpha)
                s_ig = max(abs(ref["ig"]), 1e-4 * ref["mag"], 1e-300)
                ok = _same(got["ig"], ref["ig"], 1e-9, 1e-9 * s_ig) and _same(got["tcrit"], ref["tcrit"], 1e-9)
                why = f"binary T {got!r} but the T formulas on the active bins of the current objects give ig={ref['ig']!r}"
        if not ok:
            run.oracle_failure(short, f"step {k} ({op} {st['order']} scale={scale}) after {[s['op'] for s in case['steps'][:k - 1]]}: {why}")
            return
        run.count("session-op:" + op)
    if not (numpy.array_equal(snap_a, a0) and numpy.array_equal(snap_b, b0)):
        run.oracle_failure(dict(case, tag="session"), "the rate arrays handed to the forecasts were changed by the calls")
    run.case(dict(kind=case["kind"], n=len(case["ev"]), steps=[s["op"] for s in case["steps"]], tag="session"),
             ("session", tuple(case["a"][:4]), tuple(s["op"] for s in case["steps"])))


CORPUS = [
    # the suite's 2x2 example shape: two cells, two events, plain rates
    dict(kind="corpus", nx=2, ny=1, nm=1, a=[(1.0).hex(), (2.0).hex()], b=[(2.0).hex(), (1.0).hex()], ev=[[0, 0], [1, 0]],
         alpha=0.05, scale=False, days_a=365, days_b=365),
    # all events in one cell: every difference ties, one active bin
    dict(kind="corpus", nx=2, ny=2, nm=2, a=[(0.1 * (i + 1)).hex() for i in range(8)], b=[(0.3).hex()] * 8,
         ev=[[1, 1]] * 12, alpha=0.05, scale=True, days_a=365, days_b=365),
    # identical forecasts on part of the grid and equal totals: zero differences are removed
    dict(kind="corpus", nx=3, ny=1, nm=1, a=[(0.25).hex(), (0.5).hex(), (0.75).hex()],
         b=[(0.25).hex(), (0.75).hex(), (0.5).hex()], ev=[[0, 0], [1, 0], [2, 0], [1, 0], [0, 0]], alpha=0.1, scale=False,
         days_a=30, days_b=30),
]


def run(run, rng, tier):
    from .core import validate_soft64
    drv, pending = Driver(), []
    validate_soft64(run, rng, 300 if tier == "quick" else 2000)
    for c in CORPUS:
        _check(run, drv, pending, c, "corpus")
    for _ in range(1 if tier == "quick" else 3):
        _check(run, drv, pending, _big_case(rng), "sizes")
    for k in range(700 if tier == "quick" else 20000):
        _check(run, drv, pending, _gen_case(rng), "gen")
        if len(pending) >= 400:
            _flush(run, drv, pending)
    _flush(run, drv, pending)
    for k in range(150 if tier == "quick" else 4000):
        _session(run, _gen_session(rng))


def replay(run, payload):
    case = dict(payload["case"])
    case.pop("tag", None)
    drv, pending = Driver(), []
    if "steps" in case:
        case.pop("step", None)
        _session(run, case)
        return
    _check(run, drv, pending, case, "replay")
    _flush(run, drv, pending)
