"""C11 — gridded-forecast files: correspondence of csep.load_gridded_forecast / GriddedForecast.load_ascii / get_rates / scale /
scale_to_test_date / sum / spatial_counts (list and map layout) / magnitude_counts / target_event_rates (and the quadtree
loaders) with Model/ForecastFile.lean,
plus a direct oracle (dictionary from box to rate built from the written rows)."""
import calendar
import datetime
import decimal
import json
import math
import os
import tempfile
from fractions import Fraction

import numpy

from .core import Driver, frac
from . import c11_text
from .c11_text import hexs, spellings

LEVEL_TEXT = ("Proof: for every well-formed file (decidable predicate; any cell order, holes, flags, 1..M magnitude bins, either "
              "column order) the loaded forecast returns a row's rate for every point of the row's half-open space-magnitude box "
              "(lower corner included), its magnitudes are the file's distinct lower edges, cells flagged 0 are outside, the total is "
              "the sum of the rate column, column-swapped files load to the same forecast, any history of scale / "
              "scale_to_test_date calls leaves data = base x last factor, and both marginals sum to the total; the map layout "
              "spatial_counts(cartesian=True) shows each cell's count at its bounding-box node (NaN elsewhere), is scaled "
              "absolutely and sums to the total; calls that only read the forecast (target_event_rates with and without "
              "scale, get_rates, sum, both marginals, data) leave it unchanged and return a function of base and the factor in "
              "force. Unbounded in rows and histories (kernel-checked). Text layer: the forecast is also computed by the model "
              "from the CHARACTERS of the file (lines, comments, blank-separated tokens, every decimal token parsed and rounded "
              "to the nearest double, the cell size from the model's repr decimals); every well-formed numeral parses to the "
              "number it denotes, the parsed double is correctly rounded, any spelling of a decimal within half a unit of the "
              "17th significant digit of x loads as x, repr's decimal reads back, and the property's lookup statements hold for "
              "the forecast loaded from the text. Round 4: scale(val) with an ndarray val is modelled (numpy broadcasting of "
              "0-d / (M,) / (1,M) / (N,1) / (N,M) factors onto the (cells, magnitudes) array): scaling stays absolute and "
              "entry-wise linear, the marginals sum to the total under every broadcastable factor, per-magnitude weights act on "
              "the magnitude marginal bin by bin, and the scalar model is the special case; scale_to_test_date is computed by "
              "the model from the three datetimes in binary64 (C15's decimal_year): identity outside the period, absolute and "
              "idempotent inside, fraction >= 0 and weakly increasing in the test date, and within 2e-10 of the exact fraction of the "
              "period elapsed at the end of the test day for every period >= 31 days (2e-9 for >= 2 days), all datetimes "
              "0001..9999, the last day of the period included. Tied to the code by generated files.")
LEVEL_NOTE = ("Round 6: the quadtree loaders are modelled statement by statement from the characters of the file (genfromtxt string "
              "table, str -> float64 cast = float(), negative column indices, first-appearance uniqueness, reshape) and proved to be "
              "the Cartesian loader on the boxes of the quadkeys (loadQuadRows_eq_load); the fraction bound covers one-day periods. "
              "The region's point lookup and bin1d_vec are modelled by their exact half-open meaning (C01/C02 treat the float bin "
              "formula); probes within 1e-10 relative below an edge may go either way. numpy.loadtxt is modelled for the "
              "Cartesian .dat layout (ASCII digits, no infinities / NaN; the sign of a zero is not represented); "
              "numpy.genfromtxt of the quadtree layouts, mercantile tile bounds and the decimal-year arithmetic are inputs "
              "(checked numerically), not modelled. The decimal-year fraction of scale_to_test_date is MODELLED (bit-exact, "
              "Time.decimalYear + two float subtractions + one division) and compared bit for bit; its distance to the exact "
              "fraction is proved (test_date_fraction_close, from C15's full-range decimal-year error bound) and also checked "
              "numerically (1e-9, periods >= 31 days). ndarray scale factors are "
              "MODELLED for the shapes that broadcast to (cells, magnitudes) and compared at the end of every such history "
              "(step by step they are judged by the oracle). Sums are compared to 1e-9 relative because numpy's summation "
              "order is not modelled.")
DESIGN_REF = "DESIGN.md §4 C11"
TECHNIQUE = "Lean 4 proof over an exact executable model + differential correspondence on generated forecast files + exact oracle"

THEOREMS = ["ForecastFile.load_eq", "ForecastFile.load_some_of_wellFormed", "ForecastFile.mags_are_file_edges",
            "ForecastFile.mags_mem_iff", "ForecastFile.row_position", "ForecastFile.cell_index", "ForecastFile.mag_index",
            "ForecastFile.rate_lookup", "ForecastFile.rate_lookup_top_bin", "ForecastFile.rate_lookup_swapped", "ForecastFile.flag0_outside",
            "ForecastFile.total_eq_rate_sum", "ForecastFile.swap_latlon_eq", "ForecastFile.swap_latlon_rates",
            "ForecastFile.scale_absolute", "ForecastFile.scale_last_wins", "ForecastFile.scale_to_test_date_absolute",
            "ForecastFile.data_linear", "ForecastFile.getRates_runOps", "ForecastFile.marginals_sum",
            "ForecastFile.loaded_shape",
            # the map layout of the spatial marginal, and calls that only read the forecast
            "ForecastFile.spatialCounts_runOps", "ForecastFile.cartesian_scale_absolute", "ForecastFile.cartesian_entry",
            "ForecastFile.cartesian_masked", "ForecastFile.cartesian_nansum", "ForecastFile.cartesian_sum_total",
            "ForecastFile.reads_leave_forecast", "ForecastFile.reads_leave_data", "ForecastFile.read_observation",
            "ForecastFile.read_twice_same", "ForecastFile.target_rates_runOps",
            # the text layer (Properties/C11_Text.lean): decimal tokens -> doubles, repr, the forecast loaded from characters
            "ForecastFile.Text.toF64_spec", "ForecastFile.Text.token_correctly_rounded",
            "ForecastFile.Text.float_correctly_rounded", "ForecastFile.Text.repr_reads_back",
            "ForecastFile.Text.seventeen_digits_read_back", "ForecastFile.Text.near_reads_back",
            "ForecastFile.Text.loadText_eq", "ForecastFile.Text.loadText_some", "ForecastFile.Text.rate_lookup_text",
            "ForecastFile.Text.flag0_outside_text", "ForecastFile.Text.mags_text", "ForecastFile.Text.total_text",
            "ForecastFile.Text.dh_text", "ForecastFile.Text.dispatch_ascii_iff", "ForecastFile.Text.dispatch_loader_iff",
            "ForecastFile.Text.exText_parses", "ForecastFile.Text.numeral_parses", "ForecastFile.Text.numeral_token_rounded",
            "ForecastFile.Text.numeral_17_digits_reads_back",
            # round 4: ndarray scale factors (Properties/C11_Array.lean), scale_to_test_date from the datetimes (C11_Dates.lean)
            "ForecastFile.expand_length", "ForecastFile.dataA_length", "ForecastFile.dataA_scalar", "ForecastFile.getRatesA_scalar",
            "ForecastFile.scalar_history_embeds", "ForecastFile.scale_absolute_array", "ForecastFile.outside_test_date_keeps_array",
            "ForecastFile.inside_test_date_replaces_array", "ForecastFile.dataA_entry", "ForecastFile.expand_vec_entry",
            "ForecastFile.expand_mat_entry", "ForecastFile.getRatesA_entry", "ForecastFile.marginals_sum_array",
            "ForecastFile.views_scalar", "ForecastFile.magnitudeOf_vec", "ForecastFile.expand_col", "ForecastFile.spatialOf_col",
            "ForecastFile.test_date_outside", "ForecastFile.test_date_inside_sets", "ForecastFile.test_date_absolute",
            "ForecastFile.test_date_idempotent", "ForecastFile.test_date_forgets_scale", "ForecastFile.test_date_rates",
            "ForecastFile.fore_dur_pos", "ForecastFile.test_date_fraction_nonneg", "ForecastFile.test_date_fraction_mono",
            "ForecastFile.test_date_fraction_exact_range", "ForecastFile.test_date_fraction_close_aux",
            "ForecastFile.test_date_fraction_close", "ForecastFile.test_date_fraction_close_short",
            # round 6: the quadtree loaders statement by statement, the option handling as one decision table
            "ForecastFile.loadQuadRows_eq_load", "ForecastFile.quadCsv_shape", "ForecastFile.exQ_same",
            "ForecastFile.firstFlag_all_one", "ForecastFile.Text.dispatch_table"]
TRUSTED = ["Lean 4.33 kernel", "axioms: propext, Classical.choice, Quot.sound at most",
           "numpy.loadtxt is MODELLED (Model/DecimalText.lean: lines, '#' comments, blank-separated tokens, strtod grammar, "
           "round-to-nearest-even) and compared with numpy on every Cartesian file and on ~4000 single tokens per run; "
           "numpy.genfromtxt (quadtree layouts) returns the doubles written with repr(); numpy.unique(return_index) + sort "
           "gives the distinct rows in first-appearance order; reshape is row-major",
           "repr(x) is the shortest decimal that rounds to x, nearest to x among those (DecimalText.reprValue; compared with "
           "Decimal(repr(x)) on every run; that it reads back is proved)",
           "CartesianGrid2D.get_index_of / bin1d_vec / QuadtreeGrid2D._find_location have the exact half-open meaning up to the "
           "documented round-off band (subject of C01, C02, C17)",
           "Soft64.fl64 is binary64 rounding (validated against numpy on every run); float(Decimal) is correctly rounded",
           "mercantile tile bounds (taken from the implementation when the quadtree file is written)",
           "decimal_year arithmetic is modelled (Time.decimalYear, C15; testDateFraction) and compared bit for bit on every "
           "scale_to_test_date call; numpy broadcasting of an ndarray factor is modelled by Factor.expand",
           "the bounding-box node of a cell (CartesianGrid2D._build_bitmask_vec hashes midpoints with bin1d_vec: C01/C02) is "
           "computed by the harness from the decimal lattice of the written corners and given to the model",
           "harness/c11.py generators, canonicalisation, comparison; driver parsing (Drive/C11.lean, Proto.lean)"]
RULE = ("generated files: decimal lattices (7 spacings, negative / positive / zero-crossing anchors, 1..6 x 1..6 cells, holes, "
        "shuffled cell order, flags 0/1, 1..8 magnitude bins, 3 number layouts, both column orders), quadtree partitions (ASCII "
        "and CSV layouts); probes at every sampled row's lower corner, centre, just inside each upper face, on upper faces, in the "
        "round-off band, below the first / above the last magnitude edge, outside the region; scale histories of 0..5 calls incl. "
        "scale_to_test_date inside / outside / on the period's ends, with 0..4 read-only calls (target_event_rates scale=True / "
        "False on a catalog of inside probes, get_rates, sum, event_count, spatial_counts, spatial_counts(cartesian=True), "
        "magnitude_counts, data, accessors) inserted before, between and after them, each made twice with a bit-for-bit "
        "snapshot of data around every call; ALL views (data, sum, event_count, both layouts of the spatial marginal, the "
        "magnitude marginal, get_rates) are compared with base x factor before the history and after every call; malformed "
        "files whose reshape must fail. One third of the Cartesian files are written as literal text lines: every number "
        "in a random spelling strtod reads as the same double (%.17e, %.16e, %.18g, %.25g, upper-case E, explicit +, leading / "
        "trailing zeros, bare point, moved point), several flag spellings, runs of blanks / tabs, leading / trailing blanks, "
        "and 'messy' files with comment lines, comment tails, blank lines, CRLF, no final newline; every Cartesian file is "
        "also given to the model as characters (c11_text). 15 % of Cartesian files are loaded through a caller-supplied "
        "loader (any extension), load_ascii or from_custom; 20 % are followed by a sibling file on the same cells with other "
        "magnitude bins, and the two most recent forecasts are re-checked after every later load; 15 % of scale calls pass "
        "an ndarray factor (per magnitude bin (M,) / (1,M), per cell (N,1), per bin (N,M) C-ordered / Fortran-ordered / a strided "
        "view, (1,), (1,1), 0-d, numpy scalar, integer and float32 dtypes) and the final state of such a history is compared "
        "with the array-factor model (c11_arr); forecast periods of 1 day .. 10 years, also not starting at midnight, test dates "
        "at any second / microsecond, 1 us inside either end, on and beyond the ends: the factor set is compared bit for bit "
        "with the model's binary64 computation (c11_date); reads include get_rates(ret_inds=True) "
        "and get_rates(data=A); 60 option combinations of load_gridded_forecast (extension x existence x loader kind); "
        "~4000 decimal tokens (good spellings, malformed, halfway cases) against float() / int() / numpy.loadtxt / repr. Round 6: "
        "every quadtree file is also given to the statement-level model of its loader as characters (c11_qascii / c11_qcsv: "
        "quadkeys in order, magnitudes, rate array; 40 % in other float() spellings); one file per run beyond 2^16 rows "
        "(oracle only); 5 % of the Cartesian files have ONE cell with >= 2 magnitude bins; every call in several forms "
        "(positional / keyword / explicit defaults, a bare file name relative to the cwd); rates -0.0 and subnormal, edges "
        "written 0.0 in some rows and -0.0 in others, integer factors beyond 2^53, scale(val=), factor -0.0; arrays the caller "
        "hands over (lookup points, get_rates(data=), ndarray factors, from_custom data) must stay byte-identical; arrays the "
        "library RETURNS (data, get_rates, both spatial layouts, magnitude_counts, target_event_rates) are overwritten in place "
        "before every second check of the views; one case in eight runs with numeric / user warnings as errors. Round 7: 30 % of the "
        "cases replace the forecast by copy.copy / copy.deepcopy / a pickle round trip of itself right after loading or before a "
        "random call of the history (class h); entry points 'prepared_region' (a user loader returns a region already bound to "
        "OTHER magnitude bins) and 'subclass' (a user subclass of GriddedForecast with __len__ = 0 and an overridden accessor, "
        "through its inherited load_ascii / as loader) (class j); read 'bad' = six calls the library refuses, caught, inside a "
        "history (class i); the strict share also runs under numpy.errstate(divide / invalid = raise) and a decimal context of "
        "2..6 digits (class k); read 'empty' = no lookup point / a target catalog without events (class m, Cartesian only); rates "
        "1e280, factors 1e7 and 1e-300 (class n, finite). A file is "
        "non-trivial when it has >= 2 cells and >= 2 magnitude bins or a hole or a zero flag; distinct by (rows, ops).")

EPS_BAND = Fraction(1, 10 ** 10)


# ----------------------------------------------------------------------------- small helpers
def hx(x):
    return float(x).hex()


def fh(s):
    return float.fromhex(s)


def dec_grid(i, step_text):
    return float(decimal.Decimal(i) * decimal.Decimal(step_text))


def dec_of_repr(x):
    return Fraction(decimal.Decimal(repr(float(x))))


def decimal_year_exact(d):
    ndays = 366 if calendar.isleap(d.year) else 365
    before = sum(calendar.monthrange(d.year, i)[1] for i in range(1, d.month))
    part = (Fraction(before + d.day - 1) + Fraction(d.hour, 24) + Fraction(d.minute, 1440)
            + (Fraction(d.second) + Fraction(d.microsecond, 10 ** 6)) / 86400)
    return d.year + part / ndays


def close(a, b, rel=1e-9):
    a, b = float(a), float(b)
    return a == b or abs(a - b) <= rel * max(abs(a), abs(b)) + 1e-300


# ----------------------------------------------------------------------------- generators
def gen_rate(rng):
    k = rng.random()
    if k < 0.1:
        return 0.0
    if k < 0.2:
        return float(rng.choice([1e-12, 5e-324, 1.0, 2.5e-5, 1e-300, -0.0, 1e-310, 2.2250738585072014e-308, 1.5e-323, 4.9e-320, 1e280]))
    return 10 ** rng.uniform(-8, 1) * rng.random()


def gen_mags(rng):
    M = rng.choice([1, 1, 2, 3, 4, 5, 8, rng.randint(1, 8)])
    step = rng.choice(["0.1", "0.1", "0.2", "0.5", "1", "0.05"])
    a = rng.choice([495, 500, 250, 395, 0, 600, 405])   # hundredths
    k0 = int(decimal.Decimal(a) / (decimal.Decimal(step) * 100))
    m0 = [dec_grid(k0 + j, step) for j in range(M)]
    m1 = [dec_grid(k0 + j + 1, step) for j in range(M)]
    if rng.random() < 0.5:
        m1[-1] = 10.0           # CSEP1 files close the top bin at 10
    return m0, m1


# shapes / dtypes / memory layouts of an ndarray handed to scale(): one weight per magnitude bin (M,), (1, M); per cell (N, 1);
# per bin (N, M) C-ordered, Fortran-ordered, a strided view; (1,), (1, 1), 0-d, a numpy scalar; integer and float32 dtypes
ARRAY_KINDS = ["row", "col", "full", "0d", "np64", "row2d", "one", "oneone", "introw", "fortran", "view", "f32col"]


# read-only calls of a history: target_event_rates(catalog, scale=True / False), get_rates, sum, event_count,
# spatial_counts(), spatial_counts(cartesian=True), magnitude_counts(), data, and the small accessors
READS = ["tr1", "tr1", "tr0", "gr", "gri", "grd", "sum", "ec", "sc", "scc", "scc", "mc", "data", "misc", "bad", "empty"]


def gen_ops(rng):
    n = rng.choice([0, 1, 1, 2, 3, 4, 5])
    start = datetime.datetime(rng.choice([2007, 2008, 2010, 2019, 2020, 1999]), rng.choice([1, 3, 9, 12]), rng.choice([1, 15, 28]))
    if rng.random() < 0.15:      # periods that do not start at midnight / on a whole second
        start += datetime.timedelta(hours=rng.choice([0, 6, 23]), seconds=rng.choice([0, 1, 59]), microseconds=rng.choice([0, 1, 500000, 999999]))
    end = start + datetime.timedelta(days=rng.choice([31, 90, 365, 366, 1826, 3652, 1, 2, 7]))
    span = (end - start).days
    ops = []
    for _ in range(n):
        if rng.random() < 0.55:
            if rng.random() < 0.15:
                # scale() documents "int, float, or ndarray": one weight per magnitude bin / per cell / per bin, a 0-d
                # array, a numpy scalar (the array is rebuilt from the seed when the case is run)
                ops.append(["s", "arr:" + rng.choice(ARRAY_KINDS) + ":%d" % rng.randrange(10 ** 6)])
                continue
            v = rng.choice([0.5, 2.0, 1.0, 0.0, 1e-3, 3.0, 0.1, rng.uniform(0, 5), 2, 1, 7, 2 ** 53 + 1, 2 ** 63 - 1, -0.0, 5e-324, 1e7, 1e-300,
                            "kw:" + hx(rng.choice([0.25, 4.0, 1.0]))])
            ops.append(["s", v if isinstance(v, str) else ("int:%d" % v if isinstance(v, int) else hx(v))])
        else:
            k = rng.random()
            if k < 0.45:
                t = start + datetime.timedelta(seconds=rng.randrange(1, span * 86400) if rng.random() < 0.4
                                               else 86400 * rng.randrange(0, span) + rng.choice([1, 3600, 86399]))
                if rng.random() < 0.2:
                    t += datetime.timedelta(microseconds=rng.choice([1, 250000, 999999]))
                if not start < t < end:
                    t = start + (end - start) / 2
            elif k < 0.55:      # just inside the period's ends
                t = rng.choice([start + datetime.timedelta(microseconds=1), end - datetime.timedelta(microseconds=1),
                                end - datetime.timedelta(days=1), start + datetime.timedelta(seconds=1)])
            elif k < 0.65:
                t = start
            elif k < 0.75:
                t = end
            elif k < 0.87:
                t = start - datetime.timedelta(days=rng.randrange(1, 400))
            else:
                t = end + datetime.timedelta(days=rng.randrange(1, 400))
            ops.append(["t", t.isoformat()])
    # calls that only READ the forecast, at the start (factor exactly 1, as loaded), between and after the scale calls
    for _ in range(rng.choice([0, 1, 1, 2, 3, 4])):
        pos = rng.choice([0, 0, len(ops), rng.randint(0, len(ops))])
        ops.insert(pos, ["r", rng.choice(READS)])
    return start.isoformat(), end.isoformat(), ops


def gen_cart_case(rng, tier):
    step = rng.choice(["0.1", "0.1", "0.05", "0.25", "0.5", "1", "2", "0.2"])
    h = float(step)
    i0 = rng.choice([0, -3, rng.randrange(-int(170 / h), int(170 / h) - 8)])
    j0 = rng.choice([0, -2, rng.randrange(-int(80 / h), int(80 / h) - 8)])
    nx, ny = rng.choice([1, 2, 3, 4, 6]), rng.choice([1, 2, 3, 4, 6])
    one_cell = rng.random() < 0.05          # ONE spatial cell (with whatever number of magnitude bins comes below)
    if one_cell:
        nx = ny = 1
    cells = [(i, j) for i in range(nx) for j in range(ny)]
    if len(cells) > 2 and rng.random() < 0.5:
        cells = [c for c in cells if rng.random() < 0.8] or cells[:1]
    if rng.random() < 0.6:
        rng.shuffle(cells)
    m0, m1 = gen_mags(rng)
    while one_cell and len(m0) < 2:
        m0, m1 = gen_mags(rng)
    swap = rng.random() < 0.35
    z0, z1 = 0.0, rng.choice([30.0, 70.0])
    negzero = rng.random() < 0.3
    rows = []
    for (i, j) in cells:
        flag = 0 if rng.random() < 0.2 else 1
        lon0, lon1 = dec_grid(i0 + i, step), dec_grid(i0 + i + 1, step)
        lat0, lat1 = dec_grid(j0 + j, step), dec_grid(j0 + j + 1, step)
        for a, b in zip(m0, m1):
            if negzero:       # an edge that is zero is written as 0.0 in some rows and -0.0 in others: the same number
                lon0, lon1, lat0, lat1 = (rng.choice([-0.0, 0.0, -0.0]) if v_ == 0 else v_ for v_ in (lon0, lon1, lat0, lat1))
            first4 = [lat0, lat1, lon0, lon1] if swap else [lon0, lon1, lat0, lat1]
            rows.append([hx(v) for v in first4 + [z0, z1, a, b, gen_rate(rng)]] + [flag])
    start, end, ops = gen_ops(rng)
    case = dict(layout="cart", swap=swap, rows=rows, fmt=rng.choice(["repr", "repr", "%.17g", "tab", "lines", "lines"]),
                start=start, end=end, ops=ops, malformed=None, aware=rng.random() < 0.2)
    if rng.random() < 0.06 and len(rows) > 1:
        # malformed: one row dropped / duplicated at the end -> the (cells, magnitudes) reshape must fail, or a stray row
        if rng.random() < 0.5 and len(m0) > 1:
            case["rows"] = rows[:-1]
            case["malformed"] = "short-block"
    if case["fmt"] == "lines":
        case["lines"], case["eol"] = gen_lines(rng, case["rows"])
    if rng.random() < 0.15:
        # other ways into the same loader: a caller-supplied loader (any file extension), from_custom, load_ascii itself;
        # file names with several dots / underscores / upper-case
        kind = rng.choice(["loader", "loader", "from_custom", "from_custom", "prepared_region", "prepared_region", "subclass",
                           "subclass", "load_ascii", "default"])
        stem = rng.choice(["f", "a.b", "model_2020-01-01", "x.y.z", "UPPER", "helmstetter_et_al.hkj.aftershock-fromXML", "d.dat"])
        ext = ".dat" if kind == "default" else rng.choice([".dat", ".txt", ".forecast", "", ".DAT", ".dat.bak", ".csv"])
        case["via"] = dict(kind=kind, fname=stem + ext)
    case["probes"] = gen_probes(rng, case, tier)
    case["callform"] = rng.randrange(12)
    add_copy_plan(rng, case)
    return case


def gen_big_cart_case(rng, tier):
    """a file with more than 2^16 rows (about 60 x 60 cells x 18..20 magnitude bins; the row count lands just above 65 536 or
    near 70 000 / 100 000): judged by the exact oracle only — the Lean model's first-appearance de-duplication is quadratic"""
    step = rng.choice(["0.1", "0.5", "0.25"])
    target = rng.choice([65537, 65540, 66000, 70001, 100003])
    M = rng.choice([17, 18, 19, 20])
    ncell = -(-target // M)
    nx = rng.randint(50, 64)
    ny = -(-ncell // nx)
    i0, j0 = rng.choice([0, -30, -1200]), rng.choice([0, -20, 100])
    cells = [(i, j) for i in range(nx) for j in range(ny)][:ncell]
    if rng.random() < 0.5:
        rng.shuffle(cells)
    m0 = [dec_grid(40 + j, "0.1") for j in range(M)]
    m1 = [dec_grid(41 + j, "0.1") for j in range(M)]
    rows = []
    for (i, j) in cells:
        flag = 0 if rng.random() < 0.02 else 1
        lon0, lon1 = dec_grid(i0 + i, step), dec_grid(i0 + i + 1, step)
        lat0, lat1 = dec_grid(j0 + j, step), dec_grid(j0 + j + 1, step)
        for a, b in zip(m0, m1):
            rows.append([hx(v) for v in [lon0, lon1, lat0, lat1, 0.0, 30.0, a, b, gen_rate(rng)]] + [flag])
    start, end, ops = gen_ops(rng)
    case = dict(layout="cart", swap=False, rows=rows, fmt="repr", start=start, end=end, ops=ops[:3], malformed=None, aware=False,
                oracle_only=True)
    case["probes"] = gen_probes(rng, case, tier)
    case["callform"] = rng.randrange(12)
    add_copy_plan(rng, case)
    return case


def add_copy_plan(rng, case):
    """round 7, class (h): the forecast object is replaced by copy.copy / copy.deepcopy / a pickle round trip of itself right after
    loading (at = -1) or before call number `at` of the history; only the copy is used afterwards"""
    if rng.random() < 0.3:
        case["copy"] = dict(at=rng.choice([-1, -1, rng.randint(0, max(0, len(case["ops"])))]),
                            form=rng.choice(["copy", "deepcopy", "pickle"]))


_USERCLS = {}


def user_forecast_class():
    """a user subclass of GriddedForecast: a length (0: the object is falsy), an accessor overridden consistently; registered
    under the module so that its instances can be pickled"""
    if not _USERCLS:
        from csep.core.forecasts import GriddedForecast

        class UserForecast(GriddedForecast):
            def __len__(self):
                return 0

            def spatial_counts(self, cartesian=False):
                return super().spatial_counts(cartesian=cartesian)
        UserForecast.__qualname__ = "UserForecast"
        UserForecast.__module__ = __name__
        globals()["UserForecast"] = UserForecast
        _USERCLS["c"] = UserForecast
    return _USERCLS["c"]


def copy_of(x, form):
    import copy
    import pickle
    return copy.copy(x) if form == "copy" else copy.deepcopy(x) if form == "deepcopy" else pickle.loads(pickle.dumps(x))


def gen_lines(rng, rows):
    """the file as literal text lines: every number in one of the spellings strtod reads as the same double (exponent
    notation, upper-case E, explicit +, leading / trailing zeros, bare point, 17..25 digits), columns separated by runs of
    blanks / tabs, optional leading / trailing blanks, and (style 'messy') comment lines, comment tails, blank lines,
    CRLF line ends, a missing final newline.  float(token) == the intended double is checked for every token."""
    messy = rng.random() < 0.4
    how = rng.choice(["any", "any", "%.17e", "csep1"])
    lines = []
    if messy and rng.random() < 0.5:
        lines.append("# Lon_0 Lon_1 Lat_0 Lat_1 z_0 z_1 Mag_0 Mag_1 Rate Flag")
    for r in rows:
        toks = []
        for j, x in enumerate(r[:9]):
            v = fh(x)
            if how == "%.17e":
                t = "%.17e" % v
            elif how == "csep1":
                t = repr(v) if j != 8 else "%.17e" % v
            else:
                t = rng.choice(spellings(v)) if rng.random() < 0.7 else repr(v)
            if float(t) != v:
                raise RuntimeError(f"spelling {t!r} does not read as {v!r}")
            toks.append(t)
        f = int(r[9])
        toks.append(rng.choice([str(f), str(f), "%d.0" % f, "%.6e" % f, "%d." % f, "+%d" % f if f else "0", "0%d" % f]))
        sep = rng.choice([" ", "\t", "  ", " \t ", "   "]) if rng.random() < 0.3 else None
        line = (sep or " ").join(toks) if sep else "".join(t + rng.choice([" ", " ", "\t", "  ", " \t"]) for t in toks).rstrip()
        if rng.random() < 0.2:
            line = rng.choice([" ", "\t", "   "]) + line
        if rng.random() < 0.2:
            line = line + rng.choice([" ", "\t", "  "])
        if messy and rng.random() < 0.1:
            line = line + rng.choice([" # checked", "# x", " #"])
        lines.append(line)
        if messy and rng.random() < 0.08:
            lines.append(rng.choice(["", "   ", "# comment", "#", "\t", "  # 1 2 3"]))
    eol = rng.choice(["\n", "\n", "\r\n", "\n-nofinal"]) if messy else "\n"
    return lines, eol


_QUAD_CACHE = {}


def quad_bounds(qks):
    """[lon0, lat0, lon1, lat1] of every quadkey in the STANDARD tile scheme, computed with mercantile itself — never by the
    tree under test: the numbers a forecast generator writes into the Lon_0 Lon_1 Lat_0 Lat_1 columns of a quadtree file.
    (Drive/C17 `c17_mercbounds` — the Lean model's Float Mercator latitude through libm — is compared with them in run().)"""
    import mercantile
    out = []
    for q in qks:
        if q not in _QUAD_CACHE:
            b = mercantile.bounds(mercantile.quadkey_to_tile(q))
            _QUAD_CACHE[q] = [float(b.west), float(b.south), float(b.east), float(b.north)]
        out.append(_QUAD_CACHE[q])
    return out


def gen_quadkeys(rng):
    """a set of pairwise non-overlapping quadkeys: a partition refined by random splits (biased to go deep: zoom up to 11),
    or scattered tiles of mixed depth 1..10 anywhere on the globe, or a block of one zoom level 3..8"""
    k = rng.random()
    if k < 0.45:
        leaves = ["0", "1", "2", "3"]
        for _ in range(rng.randint(0, 12)):
            cand = [q for q in leaves if len(q) < 11]
            deep = max(len(q) for q in cand)
            q = rng.choice([c for c in cand if len(c) == deep]) if rng.random() < 0.6 else rng.choice(cand)
            leaves.remove(q)
            leaves += [q + d for d in "0123"]
        if rng.random() < 0.5:
            rng.shuffle(leaves)
        if rng.random() < 0.3 and len(leaves) > 4:
            leaves = leaves[:rng.randint(3, len(leaves))]
        return leaves
    if k < 0.8:
        leaves = []
        for _ in range(rng.randint(2, 30)):
            q = "".join(rng.choice("0123") for _ in range(rng.randint(1, 10)))
            if not any(q.startswith(o) or o.startswith(q) for o in leaves):
                leaves.append(q)
        return leaves
    z = rng.randint(3, 8)
    pre = "".join(rng.choice("0123") for _ in range(z - rng.choice([1, 2])))
    leaves = [pre]
    while len(leaves[0]) < z:
        leaves = [q + d for q in leaves for d in "0123"]
    if rng.random() < 0.5:
        rng.shuffle(leaves)
    return leaves


def gen_quad_case(rng, tier, layout):
    leaves = gen_quadkeys(rng)
    bounds = quad_bounds(leaves)     # [lon0, lat0, lon1, lat1]
    m0, m1 = gen_mags(rng)
    rows, qk = [], []
    for q, b in zip(leaves, bounds):
        for a, c in zip(m0, m1):
            rows.append([hx(v) for v in [b[0], b[2], b[1], b[3], 0.0, 30.0, a, c, gen_rate(rng)]] + [1])
            qk.append(q)
    start, end, ops = gen_ops(rng)
    case = dict(layout=layout, swap=False, rows=rows, qk=qk, fmt="repr", start=start, end=end, ops=ops, malformed=None,
                qspell=rng.random() < 0.4)
    add_copy_plan(rng, case)
    case["probes"] = gen_probes(rng, case, tier)
    return case


def array_factor(spec, shape):
    """the ndarray factor of an op 'arr:<kind>:<seed>' for a forecast of the given (cells, magnitudes) shape"""
    _, kind, seed = spec.split(":")
    g = numpy.random.default_rng(int(seed))
    vals = numpy.array([0.5, 2.0, 0.25, 1.0, 3.0, 0.0, 1.5, 0.1, 7.0])
    n, m = shape
    if kind == "row":
        return g.choice(vals, size=(m,))
    if kind == "row2d":
        return g.choice(vals, size=(1, m))
    if kind == "col":
        return g.choice(vals, size=(n, 1))
    if kind == "full":
        return g.choice(vals, size=(n, m))
    if kind == "0d":
        return numpy.array(float(g.choice(vals)))
    if kind == "one":
        return g.choice(vals, size=(1,))
    if kind == "oneone":
        return g.choice(vals, size=(1, 1))
    if kind == "introw":
        return g.choice(numpy.array([0, 1, 2, 3, 7]), size=(m,))
    if kind == "fortran":
        return numpy.asfortranarray(g.choice(vals, size=(n, m)))
    if kind == "view":
        return g.choice(vals, size=(2 * n, 2 * m))[::2, 1::2]
    if kind == "f32col":
        return g.choice(vals[:5], size=(n, 1)).astype(numpy.float32)
    return numpy.float64(g.choice(vals))


def enc_factor(v):
    """an ndarray / numpy scalar factor as an op of the array-factor model (c11_arr)"""
    a = numpy.asarray(v)
    if a.ndim == 0:
        return "s," + frac(float(a))
    if a.ndim == 1:
        return "v," + ":".join(frac(float(x)) for x in a)
    return "m," + "_".join(":".join(frac(float(x)) for x in r) for r in a)


def micros(d):
    return (d.replace(tzinfo=None) - datetime.datetime(1970, 1, 1)) // datetime.timedelta(microseconds=1)


def cells_of(case):
    """ordered distinct cells (lon0, lon1, lat0, lat1) as floats with flag of first appearance, and the row table"""
    cells, table = {}, {}
    for r in case["rows"]:
        v = [fh(x) for x in r[:9]]
        c = (v[2], v[3], v[0], v[1]) if case["swap"] else (v[0], v[1], v[2], v[3])
        if c not in cells:
            cells[c] = r[9]
        table[(c, v[6])] = (v[8], r[9], v[7])
    return cells, table


def gen_probes(rng, case, tier):
    cells, table = cells_of(case)
    keys = list(table.keys())
    if len(keys) > 40:
        keys = rng.sample(keys, 40)
    lon_edges = sorted({c[0] for c in cells})
    lat_edges = sorted({c[2] for c in cells})
    quad = case["layout"] != "cart"
    probes = []

    def add(lon, lat, m, tag):
        probes.append([hx(lon), hx(lat), hx(m), tag])
    allm0 = sorted({k[1] for k in table})
    for (c, m0) in keys:
        lon0, lon1, lat0, lat1 = c
        m1 = table[(c, m0)][2]
        top = m0 == allm0[-1]
        mm1 = m1 if not top else m0 + 1.0
        cm = (m0 + mm1) / 2
        add(lon0, lat0, m0, "corner")
        add((lon0 + lon1) / 2, (lat0 + lat1) / 2, cm, "centre")
        d = 1e-6
        add(lon1 - (lon1 - lon0) * d, (lat0 + lat1) / 2, cm, "in-upper-lon")
        add((lon0 + lon1) / 2, lat1 - (lat1 - lat0) * d, cm, "in-upper-lat")
        if not top:
            add((lon0 + lon1) / 2, (lat0 + lat1) / 2, m1 - (m1 - m0) * d, "in-upper-mag")
        k = rng.random()
        if k < 0.25:
            add(lon0, (lat0 + lat1) / 2, m0, "left-edge")
        elif k < 0.5:
            add((lon0 + lon1) / 2, lat0, cm, "bottom-edge")
        elif k < 0.6 and (quad or len(lon_edges) > 1):
            add(lon1, (lat0 + lat1) / 2, cm, "on-upper-lon")
        elif k < 0.7 and (quad or len(lat_edges) > 1):
            add((lon0 + lon1) / 2, lat1, cm, "on-upper-lat")
        elif k < 0.8 and not quad:
            add(float(numpy.nextafter(lon1, -numpy.inf)), float(numpy.nextafter(lat1, -numpy.inf)), cm, "band")
        elif k < 0.9 and not top and not quad:
            add((lon0 + lon1) / 2, (lat0 + lat1) / 2, float(numpy.nextafter(m1, -numpy.inf)), "band-mag")
        if top and rng.random() < 0.5:
            add((lon0 + lon1) / 2, (lat0 + lat1) / 2, m1 + rng.choice([0.0, 0.5, 3.0]), "above-top-edge")
        if m0 == allm0[0] and rng.random() < 0.3:
            add((lon0 + lon1) / 2, (lat0 + lat1) / 2, m0 - rng.choice([1e-9, 0.1, 1.0]), "below-first-mag")
    if not quad:
        # outside the bounding box, on the low sides (and beyond the high sides when that axis has >= 2 edges: D4 of C01)
        h = min(c[1] - c[0] for c in cells)
        c = rng.choice(list(cells))
        add(lon_edges[0] - h / 2, (c[2] + c[3]) / 2, allm0[0], "outside-west")
        add((c[0] + c[1]) / 2, lat_edges[0] - h / 2, allm0[0], "outside-south")
        if len(lon_edges) > 1:
            add(lon_edges[-1] + 1.5 * h, (c[2] + c[3]) / 2, allm0[0], "outside-east")
        if len(lat_edges) > 1:
            add((c[0] + c[1]) / 2, lat_edges[-1] + 1.5 * h, allm0[0], "outside-north")
        # hole centres
        if len(lon_edges) > 1 and len(lat_edges) > 1:
            have = {(c[0], c[2]) for c in cells}
            for x in lon_edges:
                for y in lat_edges:
                    if (x, y) not in have and rng.random() < 0.5:
                        add(x + h / 2, y + h / 2, allm0[0], "hole")
    return probes


# ----------------------------------------------------------------------------- the oracle
class Oracle:
    def __init__(self, case):
        self.cells, self.table = cells_of(case)
        self.order = list(self.cells)
        self.mags = sorted({k[1] for k in self.table})
        self.lon_edges = sorted({Fraction(v) for c in self.cells for v in c[:2]})
        self.lat_edges = sorted({Fraction(v) for c in self.cells for v in c[2:]})
        self.mag_edges = [Fraction(m) for m in self.mags]
        self.band = case["layout"] == "cart"
        self.fcells = [(tuple(Fraction(v) for v in c), c) for c in self.cells]
        # every bound and every probe coordinate is a binary64 value: float comparisons ARE the exact comparisons
        self.arr = numpy.array(list(self.cells), dtype=float) if len(self.cells) > 150 else None

    def positions(self, dlo, dhi):
        """(ny, nx, [(iy, ix) per cell in file order]) of the bounding-box (map) layout: the lattice spanned by the cells'
        lower-left corners with the file's decimal step; None when the corners are not on one decimal lattice"""
        h = Fraction(dhi) - Fraction(dlo)
        if h <= 0:
            return None
        xs = [dec_of_repr(c[0]) for c in self.order]
        ys = [dec_of_repr(c[2]) for c in self.order]
        x0, y0 = min(xs), min(ys)
        pos = []
        for x, y in zip(xs, ys):
            ix, iy = (x - x0) / h, (y - y0) / h
            if ix.denominator != 1 or iy.denominator != 1:
                return None
            pos.append((int(iy), int(ix)))
        if len(set(pos)) != len(pos):
            return None
        return max(p[0] for p in pos) + 1, max(p[1] for p in pos) + 1, pos

    def exact(self, lon, lat, m):
        """'x' (outside / flagged / below the first magnitude) or the rate (float) of the box containing the probe"""
        hit = None
        if self.arr is not None and Fraction(float(lon)) == lon and Fraction(float(lat)) == lat:
            x, y = float(lon), float(lat)
            w = numpy.nonzero((self.arr[:, 0] <= x) & (x < self.arr[:, 1]) & (self.arr[:, 2] <= y) & (y < self.arr[:, 3]))[0]
            hit = self.order[int(w[0])] if len(w) else None
        else:
            for fc, c in self.fcells:
                if fc[0] <= lon < fc[1] and fc[2] <= lat < fc[3]:
                    hit = c
                    break
        if hit is None or self.cells[hit] != 1:
            return "x"
        if m < self.mag_edges[0]:
            return "x"
        k = max(i for i, e in enumerate(self.mag_edges) if e <= m)
        return self.table[(hit, self.mags[k])][0]

    def locate(self, lon, lat, m):
        """(cell index in file order, magnitude index) of an inside point, by exact comparisons"""
        lon, lat, m = Fraction(lon), Fraction(lat), Fraction(m)
        i = next(k for k, (fc, c) in enumerate(self.fcells) if fc[0] <= lon < fc[1] and fc[2] <= lat < fc[3])
        return i, max(k for k, e in enumerate(self.mag_edges) if e <= m)

    def alts(self, v, edges):
        out = [v]
        if self.band:
            for e in edges:
                if 0 < e - v <= EPS_BAND * max(1, abs(v)):
                    out.append(e)
        return out

    def in_band(self, lon, lat, m):
        """within the documented round-off band just below a cell or magnitude edge: either side's bin may be reported"""
        lon, lat, m = Fraction(lon), Fraction(lat), Fraction(m)
        return len(self.alts(lon, self.lon_edges)) > 1 or len(self.alts(lat, self.lat_edges)) > 1 or \
            len(self.alts(m, self.mag_edges)) > 1

    def allowed(self, lon, lat, m):
        lon, lat, m = Fraction(lon), Fraction(lat), Fraction(m)
        res = []
        for a in self.alts(lon, self.lon_edges):
            for b in self.alts(lat, self.lat_edges):
                for c in self.alts(m, self.mag_edges):
                    r = self.exact(a, b, c)
                    if r not in res:
                        res.append(r)
        return res


# arrays that belong to the caller (lookup points, an array handed to get_rates(data=), an ndarray scale factor, the data array
# given to from_custom): (array, copy taken when it was handed over, what it is); the library may keep a reference, never write
OWNED = []
QUAD_ASKS = []


def owned_intact(run, case):
    for arr, cp, what in OWNED:
        if arr.shape != cp.shape or arr.dtype != cp.dtype or arr.tobytes() != cp.tobytes():
            run.oracle_failure(case, f"the library modified an array that belongs to the caller: {what} (history {case['ops']})")
            return False
    return True


# ----------------------------------------------------------------------------- state shared between loads
# Forecasts loaded earlier in the same process stay alive and are looked at again after every later load: a forecast's
# magnitudes and rates are its own file's, whatever else has been loaded since (same cells with other magnitude bins, ...)
LIVE = []


def recheck_live(run, case):
    for prev_case, chk in list(LIVE):
        msg = chk()
        if msg:
            run.oracle_failure(dict(kind="two-loads", first=prev_case, second=case),
                               f"after loading a second file, the forecast loaded first no longer matches its own file: {msg}")
            LIVE.clear()
            return False
    return True


def sibling_case(rng, case, tier):
    """another file on exactly the same cells (bounds, order, flags, column order, cell size) with other magnitude bins / rates"""
    seen, first4 = set(), []
    for r in case["rows"]:
        k = tuple(fh(x) for x in r[:4])     # by value: 0.0 and -0.0 are the same edge
        if k not in seen:
            seen.add(k)
            first4.append((r[:6], r[9]))
    old = sorted({r[6] for r in case["rows"]})
    for _ in range(20):
        m0, m1 = gen_mags(rng)
        if sorted(hx(v) for v in m0) != old:
            break
    rows = [list(head) + [hx(a), hx(b), hx(gen_rate(rng)), flag] for head, flag in first4 for a, b in zip(m0, m1)]
    start, end, ops = gen_ops(rng)
    sib = dict(layout="cart", swap=case["swap"], rows=rows, fmt=case["fmt"], start=start, end=end, ops=ops, malformed=None)
    if sib["fmt"] == "lines":
        sib["lines"], sib["eol"] = gen_lines(rng, rows)
    sib["probes"] = gen_probes(rng, sib, tier)
    return sib


# ----------------------------------------------------------------------------- one file
def fmt_num(x, style):
    if style == "%.17g":
        return "%.17g" % x
    return repr(float(x))


def write_file(case, tmpdir, tag):
    lay = case["layout"]
    fn = os.path.join(tmpdir, f"f{tag}." + ("csv" if lay == "qcsv" else "dat"))
    if case.get("via"):
        os.makedirs(os.path.join(tmpdir, f"d{tag}"), exist_ok=True)
        fn = os.path.join(tmpdir, f"d{tag}", case["via"]["fname"])
    sep = "\t" if case["fmt"] == "tab" else " "
    if lay == "cart" and case["fmt"] == "lines":
        eol = case.get("eol", "\n")
        text = eol[:-8].join(case["lines"]) if eol.endswith("-nofinal") else "".join(l + eol for l in case["lines"])
        with open(fn, "w", newline="") as f:
            f.write(text)
        return fn
    with open(fn, "w") as f:
        if lay == "cart":
            for r in case["rows"]:
                f.write(sep.join(fmt_num(fh(x), case["fmt"]) for x in r[:9]) + sep + str(int(r[9])) + "\n")
        elif lay == "qascii":
            for q, r in zip(case["qk"], case["rows"]):
                f.write(q + " " + " ".join(qspell(case, fh(x)) for x in r[:9]) + "\n")
        else:
            cells, table = cells_of(case)
            mags = sorted({k[1] for k in table})
            f.write("quadkey,depth_min,depth_max," + ",".join(qspell(case, m) for m in mags) + "\n")
            seen = []
            for q in case["qk"]:
                if q not in seen:
                    seen.append(q)
            for q, c in zip(seen, cells):
                f.write(",".join([q, "0", "30"] + [qspell(case, table[(c, m)][0]) for m in mags]) + "\n")
    return fn


def qspell(case, x):
    """a number of a quadtree file: repr, or (files with case['qspell']) another spelling float() reads as the same double,
    picked from the value itself"""
    if not case.get("qspell"):
        return repr(float(x))
    import zlib
    opts = [t for t in spellings(float(x)) if "," not in t and " " not in t]
    t = opts[zlib.crc32(repr(float(x)).encode()) % len(opts)] if opts else repr(float(x))
    return t if float(t) == float(x) else repr(float(x))


def enc_rows(case):
    return ";".join(",".join([frac(fh(x)) for x in r[:9]] + [str(int(r[9]))]) for r in case["rows"])


def load_impl(case, fn):
    if case.get("callform", 0) % 5 == 4 and not case.get("relname"):
        # the file given by its bare name, relative to the current directory
        old = os.getcwd()
        os.chdir(os.path.dirname(fn))
        try:
            return load_impl(dict(case, relname=True), os.path.basename(fn))
        finally:
            os.chdir(old)
    import csep
    from csep.core.forecasts import GriddedForecast
    from csep.utils import readers
    start = datetime.datetime.fromisoformat(case["start"])
    end = datetime.datetime.fromisoformat(case["end"])
    if case.get("aware"):      # UTC-aware start / end (the test dates are then aware too)
        start, end = start.replace(tzinfo=datetime.timezone.utc), end.replace(tzinfo=datetime.timezone.utc)
    if case["layout"] == "cart":
        via = (case.get("via") or {}).get("kind", "default")
        if via == "loader":
            seen = {}

            def my_loader(fname, **kw):
                seen["args"] = (fname, sorted(kw))
                return GriddedForecast.load_ascii(fname, **kw)
            fc = csep.load_gridded_forecast(fn, loader=my_loader, swap_latlon=case["swap"], start_date=start, end_date=end)
            return fc       # whether the keywords (swap_latlon, dates) reached the loader shows in the forecast itself
        form = case.get("callform", 0)      # the same call written positionally / by keyword / with explicit defaults
        if via == "load_ascii":
            return [lambda: GriddedForecast.load_ascii(fn, start_date=start, end_date=end, swap_latlon=case["swap"]),
                    lambda: GriddedForecast.load_ascii(fn, start, end, None, case["swap"]),
                    lambda: GriddedForecast.load_ascii(ascii_fname=fn, swap_latlon=case["swap"], end_date=end, start_date=start,
                                                       name="given")][form % 3]()
        if via == "subclass":
            # a user subclass of GriddedForecast (a length, a truth value, an accessor overridden consistently) through its
            # inherited class methods / as the caller's loader
            UserForecast = user_forecast_class()
            if form % 2:
                return UserForecast.load_ascii(fn, start_date=start, end_date=end, swap_latlon=case["swap"])
            return csep.load_gridded_forecast(fn, loader=UserForecast.load_ascii, swap_latlon=case["swap"], start_date=start,
                                              end_date=end)
        if via == "prepared_region":
            # a user loader that returns a region prepared beforehand — already bound to OTHER magnitude bins (a testing region
            # shared with an observed catalog): the forecast's magnitudes are the table's, not the region's old ones
            def pieces2(fname, swap):
                from csep.core.regions import create_space_magnitude_region
                f0 = GriddedForecast.load_ascii(fname, swap_latlon=swap)
                mags0 = numpy.array(f0.magnitudes)
                reg = create_space_magnitude_region(f0.region, numpy.arange(2.0, 9.0, 0.5) if form % 2 else mags0[:1] - 1.0)
                return numpy.array(f0.data), reg, mags0
            return GriddedForecast.from_custom(pieces2, func_args=(fn, case["swap"]), start_time=start, end_time=end)
        if via == "from_custom":
            def pieces(fname, swap):
                f0 = GriddedForecast.load_ascii(fname, swap_latlon=swap)
                arr = numpy.array(f0.data)
                OWNED.append((arr, arr.copy(), "the data array handed to from_custom"))
                return arr, f0.region, f0.magnitudes      # public attributes only
            if form % 2:
                return GriddedForecast.from_custom(func=pieces, func_args=(fn, case["swap"]), end_time=end, start_time=start)
            return GriddedForecast.from_custom(pieces, (fn, case["swap"]), start_time=start, end_time=end)
        return [lambda: csep.load_gridded_forecast(fn, swap_latlon=case["swap"], start_date=start, end_date=end),
                lambda: csep.load_gridded_forecast(fn, None, swap_latlon=case["swap"], start_date=start, end_date=end),
                lambda: csep.load_gridded_forecast(fname=fn, loader=None, end_date=end, start_date=start, swap_latlon=case["swap"],
                                                   name=None),
                lambda: csep.load_gridded_forecast(fn, start_date=start, end_date=end, name="given", **(
                    dict(swap_latlon=True) if case["swap"] else {}))][form % 4]()
    loader = readers.quadtree_ascii_loader if case["layout"] == "qascii" else readers.quadtree_csv_loader
    return GriddedForecast.from_custom(loader, func_args=(fn,), start_time=start, end_time=end)


def probe_impl(fc, lon, lat, m):
    try:
        r = fc.get_rates(numpy.array([lon]), numpy.array([lat]), numpy.array([m]))
        if len(r) != 1 or float(r[0]) != float(r[0]):
            return "x"                   # nothing / NaN: no rate at this point
        return float(r[0])
    except (ValueError, IndexError, LookupError):     # ValueError = outside the region / magnitudes; IndexError = quadtree miss
        return "x"
    except TypeError as e:               # a lookup that cannot even compare its arguments (D25: string magnitudes) is no answer
        return f"error:{type(e).__name__}"
    except Exception:                    # any other way of refusing a point: the property only says "outside"
        return "x"


def run_case(run, drv, pending, case, tmpdir, tag, tier_quick=True):
    lay = case["layout"]
    del OWNED[:]
    fn = write_file(case, tmpdir, tag)
    text = open(fn, newline="").read() if lay == "cart" and not case.get("oracle_only") else None
    qtext = open(fn, newline="").read() if lay != "cart" else None
    if case.get("fmt") == "lines":
        run.count("file-text:literal-lines" + (":" + repr(case.get("eol")) if case.get("eol") != "\n" else ""))
    orc = Oracle(case)
    rows = case["rows"]
    raw0 = [fh(x) for x in rows[0][:4]]
    dlo, dhi = dec_of_repr(raw0[2]), dec_of_repr(raw0[3])
    if float(dlo) != raw0[2] or float(dhi) != raw0[3]:
        raise RuntimeError("repr does not read back")
    run.count("layout:" + lay + (":swap" if case["swap"] else ""))
    if case.get("via"):
        run.count("entry:" + case["via"]["kind"] + ":" + (os.path.splitext(case["via"]["fname"])[1] or "no-extension"))
    # ---- load
    try:
        fc = load_impl(case, fn)
        err = None
    except Exception as e:
        fc, err = None, f"{type(e).__name__}: {e}"
    finally:
        os.unlink(fn)
    summary = dict(layout=lay, n_rows=len(rows), n_cells=len(orc.cells), n_mags=len(orc.mags), swap=case["swap"],
                   ops=case["ops"][:3], malformed=case["malformed"])
    line = " ".join(["c11_all", "1" if case["swap"] else "0", frac(dlo), frac(dhi), enc_rows(case),
                     ";".join(",".join(frac(fh(x)) for x in p[:3]) for p in case["probes"]) or "-", "OPS"])
    if case["malformed"]:
        run.count("malformed")
        i = drv.ask(line.replace(" OPS", " -"))
        it = drv.ask(" ".join(["c11_text", "1" if case["swap"] else "0", hexs(text), line.split(" ")[5], "-"])) if text else None
        pending.append((case, i, None if err else "loaded", None, None, it, None, []))
        run.case(summary, None)
        return
    if err:
        run.oracle_failure(case, f"loading a well-formed file raised {err}")
        return
    if not recheck_live(run, case):
        return
    cplan = case.get("copy")
    if cplan and cplan["at"] == -1:
        run.count("forecast replaced by its " + cplan["form"] + " right after loading")
        fc = copy_of(fc, cplan["form"])
    # ---- structure: magnitudes, cells, flags, data layout
    if numpy.asarray(fc.magnitudes).dtype.kind not in "fiu":
        run.oracle_failure(case, f"magnitudes are not numbers: {numpy.asarray(fc.magnitudes)!r}")
        return
    mags = [float(v) for v in numpy.asarray(fc.magnitudes)]
    if mags != orc.mags:
        run.oracle_failure(case, f"magnitudes {mags} are not the file's lower magnitude edges {orc.mags}")
        return
    origins = [(float(o[0]), float(o[1])) for o in fc.region.origins()]
    if origins != [(c[0], c[2]) for c in orc.order]:
        run.oracle_failure(case, "cells are not the file's distinct cells in first-appearance order")
        return
    base = numpy.array(fc.data, dtype=float)
    if base.shape != (len(orc.order), len(orc.mags)):
        run.oracle_failure(case, f"data shape {base.shape}")
        return
    for i, c in enumerate(orc.order):
        for k, m in enumerate(orc.mags):
            if not base[i, k] == orc.table[(c, m)][0]:
                run.oracle_failure(case, f"data[{i},{k}] = {base[i, k]!r} is not the rate {orc.table[(c, m)][0]!r} of its row")
                return
    rates_col = [fh(r[8]) for r in rows]
    if all(r[9] == 1 for r in rows) and not close(fc.sum(), math.fsum(rates_col)):
        run.oracle_failure(case, f"sum() = {fc.sum()!r} but the rate column sums to {math.fsum(rates_col)!r}")
        return
    if lay == "cart":
        for c, flag in orc.cells.items():
            if flag != 1:
                run.count("flag0-cell")
                cx, cy = (c[0] + c[1]) / 2, (c[2] + c[3]) / 2
                if not bool(fc.region.get_masked(numpy.array([cx]), numpy.array([cy]))[0]) or \
                        probe_impl(fc, cx, cy, orc.mags[0]) != "x":
                    run.oracle_failure(case, f"cell {c} flagged 0 is not outside the region")
                    return
    # ---- the lower corner of EVERY cell, exactly as written in the file (Lon_0, Lat_0, lowest Mag_0), must return the rate
    #      of that cell's first row — for every row and column of the grid, whatever the layout (the property: "lower corner
    #      included"); cells flagged 0 are outside
    cx = numpy.array([c[0] for c in orc.order]); cy = numpy.array([c[2] for c in orc.order])
    cm = numpy.full(len(orc.order), orc.mags[0])
    want_c = [orc.table[(c, orc.mags[0])][0] if orc.cells[c] == 1 else "x" for c in orc.order]
    got_c = None
    if all(w != "x" for w in want_c):
        try:
            r = fc.get_rates(cx, cy, cm)
            got_c = [float(v) for v in r] if len(r) == len(want_c) else None
        except Exception:
            got_c = None
    if got_c is None:
        got_c = [probe_impl(fc, float(a), float(b), float(m_)) for a, b, m_ in zip(cx, cy, cm)]
    run.count("probe:own-lower-corner-of-every-cell", len(want_c))
    for k_, (g_, w_) in enumerate(zip(got_c, want_c)):
        if (g_ == "x") != (w_ == "x") or (w_ != "x" and g_ != w_):
            c = orc.order[k_]
            run.oracle_failure(dict(case, probes=[[hx(c[0]), hx(c[2]), hx(orc.mags[0]), "corner"]]),
                               f"lookup at the lower corner lon={c[0]!r} lat={c[2]!r} mag={orc.mags[0]!r} written in the file for "
                               f"cell {k_} gives {g_!r}, that row's rate is {w_!r}")
            return
    # ---- probes
    impl_rates = []
    pts = [(fh(p[0]), fh(p[1]), fh(p[2])) for p in case["probes"]]
    allowed = [orc.allowed(*p) for p in pts]
    inside = [j for j, a in enumerate(allowed) if "x" not in a]
    vec = {}
    if inside:
        try:
            r = fc.get_rates(numpy.array([pts[j][0] for j in inside]), numpy.array([pts[j][1] for j in inside]),
                             numpy.array([pts[j][2] for j in inside]))
            if len(r) == len(inside):
                vec = {j: float(v) for j, v in zip(inside, r)}
        except Exception:
            vec = {}
    for j, p in enumerate(pts):
        got = vec[j] if j in vec else probe_impl(fc, *p)
        impl_rates.append(got)
        tagp = case["probes"][j][3]
        run.count("probe:" + tagp)
        ok = any(got == a for a in allowed[j])     # (floats: equal numbers; a rate of -0.0 is the rate 0)
        if not ok:
            run.oracle_failure(dict(case, probes=[case["probes"][j]]),
                               f"probe {tagp} at lon={p[0]!r} lat={p[1]!r} mag={p[2]!r}: get_rates gives {got!r}, "
                               f"the file's box gives {allowed[j]!r}")
            return
    # ---- every view of the forecast (data, sum, event_count, both layouts of the spatial marginal, the magnitude marginal,
    #      rate lookups) is probed before, between and after the calls of the history: all must agree with
    #      data = base x the factor in force (a cached / unscaled / corrupted view must not go unnoticed)
    start = datetime.datetime.fromisoformat(case["start"])
    end = datetime.datetime.fromisoformat(case["end"])
    days = (end - start).days
    # inside, and not in the round-off band below an edge (there the bin itself is not determined, even when both bins hold
    # the same rate)
    pts_in = [j for j in vec if len(allowed[j]) == 1 and not orc.in_band(*pts[j])][:12]
    flags = [orc.cells[c] for c in orc.order]
    layout = orc.positions(dlo, dhi) if lay == "cart" else None
    state = dict(factor=1, quad=None, quad_off=False, cat=None, array_factor=False, approx=False, no_scale=False)

    def cur_scale():
        """the private attribute `_scale` (read only to compare the factor itself with the model); when the tree under test
        has no such attribute the factor of a test date is taken from exact arithmetic and every comparison that needs it
        is made to 1e-9 through the PUBLIC views (data, get_rates, sum, marginals)"""
        try:
            return fc._scale
        except AttributeError:
            if not state["no_scale"]:
                run.count("helper-missing:_scale")
                note = "the forecast has no private attribute _scale on this tree: factors are judged through data / get_rates / sums (1e-9)"
                if note not in run.assumptions:
                    run.assumptions.append(note)
            state["no_scale"] = True
            return None

    def same(a_, b_):
        """bit for bit — or to 1e-9 once a factor had to be taken from exact arithmetic (no `_scale` to read)"""
        if not state["approx"]:
            return hx(a_) == hx(b_) or float(a_) == float(b_)
        return close(a_, b_)
    if lay == "cart" and layout is None:
        run.count("cartesian-layout:positions-unknown")

    def bits_equal(a_, b_):
        return a_.shape == b_.shape and numpy.array_equal(numpy.ascontiguousarray(a_).view(numpy.int64),
                                                           numpy.ascontiguousarray(b_).view(numpy.int64))

    def snapshot():
        return numpy.array(fc.data, dtype=float)

    def cart_view():
        """spatial_counts(cartesian=True) as a float array; quadtree regions print and may refuse uncovered rasters"""
        if lay == "cart":
            return numpy.array(fc.spatial_counts(cartesian=True) if state.get("nlook", 0) % 2 else fc.spatial_counts(True), dtype=float)
        import contextlib, io
        if state["quad_off"]:
            return None
        if state["quad"] is None:
            xs_ = sorted({c[0] for c in orc.order}); ys_ = sorted({c[2] for c in orc.order})
            if len(xs_) * len(ys_) > (150 if tier_quick else 600):
                state["quad_off"] = True
                return None
            idx = [[next((k for k, c in enumerate(orc.order) if c[0] <= x < c[1] and c[2] <= y < c[3]), None) for x in xs_]
                   for y in ys_]
            state["quad"] = idx
        try:
            with contextlib.redirect_stdout(io.StringIO()):
                return numpy.array(fc.spatial_counts(cartesian=True), dtype=float)
        except (ValueError, IndexError):     # raster point in no tile of a partial partition: not a statement of C11
            state["quad_off"] = True
            run.count("cartesian-layout:quadtree-raster-refused")
            return None

    def cart_ok(when, want):
        """the map layout: the value of cell k at its bounding-box position, NaN elsewhere (holes, cells flagged 0)"""
        cart = cart_view()
        if cart is None:
            return True
        rows_ = [math.fsum(want[i, :]) for i in range(want.shape[0])]
        if lay == "cart":
            if layout is None:
                ok = close(float(numpy.nansum(cart)), math.fsum(r for r, f in zip(rows_, flags) if f == 1))
                exp = None
            else:
                ny, nx, pos = layout
                exp = numpy.full((ny, nx), numpy.nan)
                for k, (iy, ix) in enumerate(pos):
                    if flags[k] == 1:
                        exp[iy, ix] = rows_[k]
        else:
            exp = numpy.array([[numpy.nan if k is None else rows_[k] for k in r] for r in state["quad"]], dtype=float)
        if exp is not None:
            ok = cart.shape == exp.shape and numpy.array_equal(numpy.isnan(cart), numpy.isnan(exp)) and \
                all(close(a_, b_) for a_, b_ in zip(cart[~numpy.isnan(exp)].ravel(), exp[~numpy.isnan(exp)].ravel()))
        run.count("view:cartesian-layout")
        if not ok:
            run.oracle_failure(case, f"{when}: spatial_counts(cartesian=True) is not the spatial marginal of base x "
                                     f"{state['factor']!r} laid out on the bounding box (got {cart.tolist()!r}, expected "
                                     f"{None if exp is None else exp.tolist()!r})")
        return ok

    def exp_rate(j):
        """base rate of inside probe j x the factor in force (for an array factor: the entry of base x factor at the probe's bin)"""
        f = state["factor"]
        if isinstance(f, numpy.ndarray) and f.ndim > 0:
            return float((base * f)[orc.locate(*pts[j])])
        return float(vec[j] * f)

    def lookups(when, want_factor):
        if not pts_in:
            return True
        try:
            # the same points as numpy arrays, Python lists, tuples (in turn); magnitudes that are whole numbers also as
            # an integer array
            state["nlook"] = state.get("nlook", 0) + 1
            # (tuples only on Cartesian regions: see AWAITING_DECISION, QuadtreeGrid2D.get_index_of returns None for a tuple)
            box = ((numpy.array, list, tuple) if lay == "cart" else (numpy.array, list))[state["nlook"] % (3 if lay == "cart" else 2)]
            qm = [pts[j][2] for j in pts_in]
            if state["nlook"] % 4 == 1 and all(float(v).is_integer() for v in qm):
                qm = numpy.array([int(v) for v in qm])
                run.count("lookup with integer magnitudes")
            else:
                qm = box(qm)
            qx_, qy_ = box([pts[j][0] for j in pts_in]), box([pts[j][1] for j in pts_in])
            for a_ in (qx_, qy_, qm):
                if isinstance(a_, numpy.ndarray):
                    OWNED.append((a_, a_.copy(), "a coordinate / magnitude array handed to get_rates"))
            del OWNED[:-6]
            r = [lambda: fc.get_rates(qx_, qy_, qm), lambda: fc.get_rates(lons=qx_, lats=qy_, mags=qm),
                 lambda: fc.get_rates(qx_, qy_, qm, None, False), lambda: fc.get_rates(qx_, qy_, mags=qm, ret_inds=False, data=None)
                 ][state["nlook"] % 4]()
            bad = [j for j, v in zip(pts_in, r) if not same(v, exp_rate(j))] if len(r) == len(pts_in) else ["length"]
        except Exception as e:
            bad = [f"{type(e).__name__}: {e}"]
        run.count("probe:in-history", len(pts_in))
        if bad:
            run.oracle_failure(case, f"{when}: get_rates is not base rate x {want_factor!r} ({bad[:2]}; history {case['ops']})")
            return False
        return True

    def views_ok(when):
        try:
            return views_ok_(when)
        except Exception as e:       # a view that raises (e.g. a factor that no longer broadcasts) is not a harness problem
            run.oracle_failure(case, f"{when}: reading the forecast raised {type(e).__name__}: {e} (history {case['ops']})")
            return False

    def scribble():
        """the caller overwrites, in place, every array a public call returns (data, get_rates, both layouts of the spatial
        marginal, the magnitude marginal, target_event_rates): the forecast must not notice — each is the caller's own copy"""
        outs = [fc.data, fc.spatial_counts(), fc.magnitude_counts()]
        if lay == "cart":
            outs.append(fc.spatial_counts(cartesian=True))
        if pts_in:
            gx_, gy_, gm_ = (numpy.array([pts[j][n_] for j in pts_in]) for n_ in range(3))
            outs.append(fc.get_rates(gx_, gy_, gm_))
            if state.get("nlook", 0) % 3 == 0:
                outs.append(fc.target_event_rates(target_catalog(), scale=bool(state.get("nlook", 0) % 2))[0])
        for o in outs:
            if isinstance(o, numpy.ndarray) and o.ndim > 0 and o.flags.writeable and o.dtype.kind == "f":
                o[...] = -7.25
        run.count("returned arrays overwritten by the caller")

    def views_ok_(when):
        if state.get("nlook", 0) % 2 == 0:
            scribble()
        factor = state["factor"]
        want = base * factor
        data = snapshot()
        if not (bits_equal(data, want) if not state["approx"] else
                (data.shape == numpy.shape(want) and numpy.allclose(data, want, rtol=1e-9, atol=1e-300))):
            run.oracle_failure(case, f"{when}: data is not base x {factor!r} (history {case['ops']})")
            return False
        tot = float(fc.sum())
        sc = numpy.asarray(fc.spatial_counts(), dtype=float)
        mc = numpy.asarray(fc.magnitude_counts(), dtype=float)
        ec = float(fc.event_count)
        if sc.shape != (data.shape[0],) or mc.shape != (data.shape[1],) or \
                not all(close(sc[i], math.fsum(data[i, :])) for i in range(data.shape[0])) or \
                not all(close(mc[k], math.fsum(data[:, k])) for k in range(data.shape[1])):
            run.oracle_failure(case, f"{when}: spatial_counts / magnitude_counts are not the row / column sums of data")
            return False
        if not (close(math.fsum(sc), tot) and close(math.fsum(mc), tot) and close(tot, math.fsum(data.ravel()))
                and close(ec, tot)):
            run.oracle_failure(case, f"{when}: marginals / event_count do not sum to the total: "
                                     f"{math.fsum(sc)!r} {math.fsum(mc)!r} {ec!r} {tot!r}")
            return False
        return cart_ok(when, want) and lookups(when, factor) and owned_intact(run, case)

    def target_catalog():
        if state["cat"] is None:
            from csep.core import catalogs
            state["cat"] = catalogs.CSEPCatalog(data=[(f"e{n_}", 1262304000000 + 1000 * n_, pts[j][1], pts[j][0], 5.0, pts[j][2])
                                                      for n_, j in enumerate(pts_in)])
        return state["cat"]

    def read_once(kind):
        """one read-only call; returns (canonical observation for the model | None, error text | None)"""
        factor = state["factor"]
        want = base * factor
        if kind in ("tr1", "tr0"):
            rates, nf = fc.target_event_rates(target_catalog(), scale=(kind == "tr1")) if state.get("nlook", 0) % 2 else \
                (fc.target_event_rates(target_catalog(), kind == "tr1") if state.get("nlook", 0) % 4 else
                 fc.target_event_rates(scale=(kind == "tr1"), target_catalog=target_catalog()))
            div = days if kind == "tr1" else 1
            rates = [float(v) for v in numpy.asarray(rates, dtype=float)]
            exp = [exp_rate(j) / div for j in pts_in]
            if len(rates) != len(exp) or not all(close(a_, b_, 1e-9 if state["approx"] else 1e-12) for a_, b_ in zip(rates, exp)):
                return None, f"target_event_rates(scale={kind == 'tr1'}) = {rates[:3]!r}, base rate x {factor!r} / {div} = {exp[:3]!r}"
            if not close(float(nf), math.fsum(want.ravel()) / div):
                return None, f"target_event_rates(scale={kind == 'tr1'}) total {float(nf)!r}, expected {math.fsum(want.ravel()) / div!r}"
            return dict(rates=rates, total=float(nf)), None
        if kind == "gr":
            r = fc.get_rates(numpy.array([pts[j][0] for j in pts_in]), numpy.array([pts[j][1] for j in pts_in]),
                             numpy.array([pts[j][2] for j in pts_in]))
            rates = [float(v) for v in r]
            if len(rates) != len(pts_in) or not all(same(v, exp_rate(j)) for v, j in zip(rates, pts_in)):
                return None, f"get_rates = {rates[:3]!r} is not base rate x {factor!r}"
            return dict(rates=rates), None
        if kind == "gri":
            # get_rates(..., ret_inds=True): the rates and WHERE they were read (cell index, magnitude index)
            gx_, gy_, gm_ = (numpy.array([pts[j][n_] for j in pts_in]) for n_ in range(3))
            r, inds = fc.get_rates(gx_, gy_, gm_, ret_inds=True) if state.get("nlook", 0) % 2 else fc.get_rates(gx_, gy_, gm_, None, True)
            rates = [float(v) for v in r]
            if len(rates) != len(pts_in) or not all(same(v, exp_rate(j)) for v, j in zip(rates, pts_in)):
                return None, f"get_rates(ret_inds=True) = {rates[:3]!r} is not base rate x {factor!r}"
            got = [(int(a_), int(b_)) for a_, b_ in zip(inds[0], inds[1])]
            exp = [orc.locate(*pts[j]) for j in pts_in]
            if got != exp:
                return None, f"get_rates(ret_inds=True) indices {got[:4]} are not (cell, magnitude bin) {exp[:4]} of the points"
            return dict(rates=rates), None
        if kind == "grd":
            # get_rates(..., data=A): the lookup is made in the array handed in, at the points' (cell, magnitude bin)
            arr = numpy.arange(base.size, dtype=float).reshape(base.shape) + 0.5
            OWNED.append((arr, arr.copy(), "the array handed to get_rates(data=)"))
            gx_, gy_, gm_ = (numpy.array([pts[j][n_] for j in pts_in]) for n_ in range(3))
            r = fc.get_rates(gx_, gy_, gm_, data=arr) if state.get("nlook", 0) % 2 else fc.get_rates(gx_, gy_, gm_, arr)
            exp = [float(arr[orc.locate(*pts[j])]) for j in pts_in]
            if [float(v) for v in r] != exp:
                return None, f"get_rates(data=A) = {[float(v) for v in r][:4]!r}, A at the points' bins = {exp[:4]!r}"
            return dict(skip=True), None
        if kind in ("sum", "ec"):
            v = float(fc.sum() if kind == "sum" else fc.event_count)
            return (dict(total=v), None) if close(v, math.fsum(want.ravel())) else (None, f"{kind} = {v!r}, expected {math.fsum(want.ravel())!r}")
        if kind == "sc":
            v = [float(t) for t in numpy.asarray(fc.spatial_counts() if state.get("nlook", 0) % 2 else fc.spatial_counts(cartesian=False)
                                                 if state.get("nlook", 0) % 4 else fc.spatial_counts(False), dtype=float)]
            exp = [math.fsum(want[i, :]) for i in range(want.shape[0])]
            return (dict(vals=v), None) if len(v) == len(exp) and all(close(a_, b_) for a_, b_ in zip(v, exp)) else \
                (None, f"spatial_counts() = {v[:4]!r}, expected {exp[:4]!r}")
        if kind == "mc":
            v = [float(t) for t in numpy.asarray(fc.magnitude_counts(), dtype=float)]
            exp = [math.fsum(want[:, k]) for k in range(want.shape[1])]
            return (dict(vals=v), None) if len(v) == len(exp) and all(close(a_, b_) for a_, b_ in zip(v, exp)) else \
                (None, f"magnitude_counts() = {v[:4]!r}, expected {exp[:4]!r}")
        if kind == "scc":
            cart = cart_view()           # validated by cart_ok in views_ok right after the call
            if cart is None or lay != "cart" or layout is None:
                return dict(skip=True), None
            return dict(grid=[[None if numpy.isnan(v) else float(v) for v in r] for r in cart]), None
        if kind == "data":
            d = snapshot()
            ok_ = bits_equal(d, want) if not state["approx"] else numpy.allclose(d, want, rtol=1e-9, atol=1e-300)
            return (dict(vals=[float(v) for v in d.ravel()]), None) if ok_ else (None, f"data is not base x {factor!r}")
        if kind == "misc":
            m2 = [float(v) for v in numpy.asarray(fc.get_magnitudes())]
            ok = m2 == orc.mags and float(fc.min_magnitude) == min(orc.mags) and fc.num_mag_bins == len(orc.mags) and \
                fc.num_nodes == len(orc.order) and [float(v) for v in fc.get_longitudes()] == [c[0] for c in orc.order] and \
                [float(v) for v in fc.get_latitudes()] == [c[2] for c in orc.order]
            if pts_in:
                fc.get_index_of(numpy.array([pts[j][0] for j in pts_in]), numpy.array([pts[j][1] for j in pts_in]))
                fc.get_magnitude_index(numpy.array([pts[j][2] for j in pts_in]))
            return (dict(skip=True), None) if ok else (None, "magnitudes / cell origins / counts of cells and bins changed")
        if kind == "bad":
            # round 7, class (i): calls the library refuses — the exception is caught and the history goes on; whatever they
            # raise, the forecast must be as it was (checked by the snapshot and the views right after)
            n_ref = 0
            for bad in (lambda: fc.get_rates(numpy.array([1e6]), numpy.array([1e6]), numpy.array([orc.mags[0]])),
                        lambda: fc.get_rates(numpy.array([orc.order[0][0]]), numpy.array([orc.order[0][2]]), numpy.array([-1e6])),
                        lambda: fc.target_event_rates("not a catalog", scale=True),
                        lambda: fc.scale_to_test_date("2010-01-01"),
                        lambda: fc.get_magnitude_index(numpy.array([-1e9])),
                        lambda: fc.get_index_of(numpy.array([1e6]), numpy.array([1e6])) if lay == "cart" else None):
                try:
                    bad()
                except Exception:
                    n_ref += 1
            run.count("calls refused by the library inside a history", n_ref)
            return dict(skip=True), None
        if kind == "empty" and lay != "cart":
            # (zero lookup points on a quadtree region: the unchanged tree fails — QuadtreeGrid2D.get_index_of returns a plain
            # list for an empty array and get_rates calls .astype on it — so this form is left out for quadtree layouts)
            run.count("read-skipped:empty lookup on a quadtree region (unsupported by the unchanged tree)")
            return dict(skip=True), None
        if kind == "empty":
            # class (m): no lookup point / a target catalog without events
            from csep.core import catalogs as catalogs_
            e_ = numpy.array([])
            r0 = fc.get_rates(e_, e_, e_)
            rt, nf = fc.target_event_rates(catalogs_.CSEPCatalog(data=[]), scale=False)
            if len(r0) != 0 or len(rt) != 0 or not close(float(nf), math.fsum(want.ravel())):
                return None, f"no lookup points: get_rates gives {r0!r}, target_event_rates gives {rt!r} and the total {float(nf)!r}"
            return dict(skip=True), None
        raise RuntimeError(f"unknown read {kind}")

    def do_read(kind):
        """a read-only call, twice: right answer both times, and the forecast's rates are bit-for-bit what they were"""
        if kind in ("tr1", "tr0", "gr", "gri", "grd") and not pts_in:
            run.count("read-skipped:no-inside-probe")
            return dict(skip=True)
        before = snapshot()
        obs = None
        for rep in (1, 2):
            try:
                o, errtext = read_once(kind)
            except Exception as e:
                o, errtext = None, f"raised {type(e).__name__}: {e}"
            if errtext:
                run.oracle_failure(case, f"read {kind} (call {rep}) at factor {state['factor']!r}: {errtext} (history {case['ops']})")
                return None
            if not bits_equal(snapshot(), before):
                run.oracle_failure(case, f"read {kind} (call {rep}) changed the forecast: data is no longer what it was before "
                                         f"the call (history {case['ops']})")
                return None
            obs = obs or o
        run.count("read:" + kind)
        if not views_ok(f"after read {kind}"):
            return None
        return obs

    if not views_ok("before the history"):
        return
    # ---- histories of scale / scale_to_test_date calls with read-only calls in between
    factor = 1
    enc_ops, enc_calls, observations = [], [], []
    enc_aops, date_asks = [], []
    for nop_, op in enumerate(case["ops"]):
        if cplan and cplan["at"] == nop_:
            run.count("forecast replaced by its " + cplan["form"] + " in the middle of a history")
            fc = copy_of(fc, cplan["form"])
            if not views_ok(f"after replacing the forecast by its {cplan['form']}"):
                return
        if op[0] == "r":
            o = do_read(op[1])
            if o is None:
                return
            if not o.get("skip"):
                kind_ = "gr" if op[1] == "gri" else op[1]
                enc_calls.append("r," + kind_ + ("," + str(days) if kind_ == "tr1" else ""))
                observations.append((kind_, o))
            continue
        try:
            if op[0] == "t":
                t_ = datetime.datetime.fromisoformat(op[1])
                t_ = t_.replace(tzinfo=datetime.timezone.utc) if case.get("aware") else t_
                res_t = fc.scale_to_test_date(t_) if len(enc_calls) % 2 else fc.scale_to_test_date(test_datetime=t_)
        except Exception as e:
            run.oracle_failure(case, f"{op} raised {type(e).__name__}: {e}")
            return
        if op[0] == "s" and op[1].startswith("arr:"):
            v = array_factor(op[1], base.shape)
            if isinstance(v, numpy.ndarray):
                OWNED.append((v, v.copy(), "an ndarray handed to scale()"))
            res = fc.scale(v)
            factor = numpy.array(v)
            state["array_factor"] = True
            enc_ops.append("s,1")      # place holder: the scalar model (one rational factor) is not asked about this history
            enc_aops.append(enc_factor(v))      # ... the array-factor model (c11_arr) is
            run.count("op:scale-by-ndarray:" + op[1].split(":")[1])
        elif op[0] == "s":
            if op[1].startswith("kw:"):       # the factor handed over by keyword
                v = fh(op[1][3:])
                res = fc.scale(val=v)
            else:
                v = int(op[1][4:]) if op[1].startswith("int:") else fh(op[1])
                res = fc.scale(v)
            factor = v
            # (an integer factor is converted to binary64 by numpy before the product: the model gets that double)
            enc_ops.append("s," + frac(float(v) if isinstance(v, int) and abs(v) > 2 ** 53 else v))
            enc_aops.append(enc_ops[-1])
            run.count("op:scale")
        else:
            t = datetime.datetime.fromisoformat(op[1])
            res = res_t
            # the model computes the fraction from the three datetimes (testDateFraction): asked below, compared bit for bit
            sc_ = cur_scale()
            if sc_ is not None and start < t < end and numpy.ndim(sc_) != 0:
                run.oracle_failure(case, f"scale_to_test_date({t}) inside the period did not set the decimal-year fraction: "
                                         f"an array factor is still in force (history {case['ops']})")
                return
            if sc_ is not None:
                date_asks.append((drv.ask(f"c11_date {micros(start)} {micros(end)} {micros(t)}"), op[1],
                                  float(sc_) if start < t < end else None))
            if start < t < end:
                q = (decimal_year_exact(t + datetime.timedelta(1)) - decimal_year_exact(start)) / \
                    (decimal_year_exact(end) - decimal_year_exact(start))
                if sc_ is None:
                    sc_ = float(q)              # judged through the public views, to 1e-9
                    state["approx"] = True
                if days >= 31 and not close(float(sc_), q):
                    run.oracle_failure(case, f"scale_to_test_date({t}) set the factor {sc_!r}, exact fraction {float(q)!r}")
                    return
                factor = float(sc_)
                enc_ops.append("t," + frac(factor))
                run.count("op:test_date-inside")
            else:
                enc_ops.append("t,none")
                run.count("op:test_date-outside")
            enc_aops.append(enc_ops[-1])
        enc_calls.append(enc_ops[-1])
        state["factor"] = factor
        # (what the call returns — the forecast itself today — is not part of the property: only recorded)
        run.count("scale call returned " + ("the forecast itself" if res is fc else "something else"))
        # absolute, never cumulative: data = base x the factor in force, in every view
        if not views_ok(f"after {op}"):
            return
    data = numpy.asarray(fc.data, dtype=float)
    tot, sc, mc = float(fc.sum()), numpy.asarray(fc.spatial_counts(), dtype=float), numpy.asarray(fc.magnitude_counts(), dtype=float)
    if qtext is not None:
        # the quadtree loader statement by statement, from the characters of the file (Model/QuadLoaders.lean): quadkeys in
        # first-appearance order, magnitudes, the rate array as loaded
        qi = drv.ask(("c11_qascii " if lay == "qascii" else "c11_qcsv ") + hexs(qtext))
        qk_impl = [q.decode() if isinstance(q, bytes) else str(q) for q in getattr(fc.region, "quadkeys", [])]
        QUAD_ASKS.append((case, qi, qk_impl, mags, [float(v) for v in base.ravel()]))
    if case.get("oracle_only"):
        run.count("judged by the oracle only (file beyond 2^16 rows)")
        run.case(summary, None)
        return
    # ---- model
    arr = None
    if state["array_factor"]:
        # histories with an ndarray factor: judged by the oracle at every step (above); the scalar model is asked about the
        # load only, the array-factor model (Model/ForecastArray.lean) about the final state of the whole history
        ia = drv.ask(" ".join(["c11_arr", "1" if case["swap"] else "0", frac(dlo), frac(dhi), enc_rows(case),
                               ";".join(",".join(frac(v) for v in pts[j]) for j in pts_in) or "-", ";".join(enc_aops) or "-"]))
        arr = (ia, dict(data=[float(v) for v in data.ravel()], total=tot, spatial=[float(v) for v in sc],
                        magc=[float(v) for v in mc], rates=[exp_rate(j) for j in pts_in], approx=state["approx"]))
        enc_ops, observations = [], []
    i = drv.ask(line.replace(" OPS", " " + (";".join(enc_ops) or "-")))
    # the same question asked of the TEXT-level model: rows, dLo, dHi are computed by the model from the characters
    it = drv.ask(" ".join(["c11_text", "1" if case["swap"] else "0", hexs(text), line.split(" ")[5],
                           ";".join(enc_ops) or "-"])) if text else None
    # internals of the region (cell size, per-cell flags) are compared when the tree under test still exposes them
    dh = float(fc.region.dh) if lay == "cart" and hasattr(fc.region, "dh") else None
    mask = [int(v) for v in fc.region.poly_mask] if lay == "cart" and hasattr(fc.region, "poly_mask") else None
    fsc = cur_scale()
    impl = dict(dh=dh, mags=mags, ncell=int(fc.region.num_nodes), origins=origins, mask=mask, rates=impl_rates,
                factor=None if (fsc is None or state["approx"]) else fsc, data=[float(v) for v in data.ravel()], total=tot,
                spatial=[float(v) for v in sc], magc=[float(v) for v in mc], approx=state["approx"])
    if state["array_factor"]:
        impl.update(factor=1, data=[float(v) for v in base.ravel()], total=math.fsum(base.ravel()),
                    spatial=[math.fsum(base[i_, :]) for i_ in range(base.shape[0])],
                    magc=[math.fsum(base[:, k_]) for k_ in range(base.shape[1])])
    band = [len(a) > 1 for a in allowed]
    hist = None
    if observations:
        # the read-only calls of the history, in the model: each returns a function of base and the factor in force
        posenc = ",".join(f"{a}:{b}" for a, b in layout[2]) if layout else "-"
        ny_, nx_ = (layout[0], layout[1]) if layout else (0, 0)
        ptsenc = ";".join(",".join(frac(v) for v in pts[j]) for j in pts_in) or "-"
        ih = drv.ask(" ".join(["c11_hist", "1" if case["swap"] else "0", frac(dlo), frac(dhi), enc_rows(case), ptsenc,
                               ";".join(enc_calls) or "-", posenc, str(ny_), str(nx_)]))
        hist = (ih, observations, None if state["approx"] else cur_scale())
    if pts_in:
        final = [exp_rate(j) for j in pts_in]
        qx, qy, qm = (numpy.array([pts[j][n_] for j in pts_in]) for n_ in range(3))
        own_mags = list(orc.mags)

        def still_own():
            try:
                m_now = [float(v) for v in numpy.asarray(fc.magnitudes)]
                if m_now != own_mags:
                    return f"magnitudes are now {m_now}, the file's lower magnitude edges are {own_mags}"
                r_now = [float(v) for v in fc.get_rates(qx, qy, qm)]
            except Exception as e:
                return f"raised {type(e).__name__}: {e}"
            if len(r_now) != len(final) or not all(same(a_, b_) for a_, b_ in zip(r_now, final)):
                return f"get_rates gives {r_now[:4]!r}, its file (x the factor in force) gives {final[:4]!r}"
            return None
        LIVE.append((case, still_own))
        del LIVE[:-2]
    pending.append((case, i, impl, band, hist, it, arr, date_asks))
    nontriv = (len(orc.order) >= 2 and len(orc.mags) >= 2) or any(r[9] != 1 for r in rows)
    run.case(summary, (tuple(tuple(r) for r in rows), json.dumps(case["ops"])) if nontriv else None)


def fval(x):
    """the factor as numpy multiplies with it: an integer beyond 2^53 is first converted to binary64"""
    return Fraction(float(x)) if isinstance(x, int) and not isinstance(x, bool) and abs(x) > 2 ** 53 else Fraction(x)


def run_case_w(run, drv, pending, case, tmpdir, tag, tier_quick=True):
    """run_case; for one case in eight every numeric / user / future warning raised while the library works is an error
    (DeprecationWarning is left alone: the catalog constructor of the unchanged tree calls datetime.utcnow())"""
    import hashlib
    import warnings
    if int(hashlib.sha1(json.dumps(case["rows"][:3]).encode()).hexdigest()[:2], 16) % 8 == 0 or case.get("strict_warnings"):
        run.count("run with RuntimeWarning / UserWarning / FutureWarning as errors")
        import decimal
        with warnings.catch_warnings(), numpy.errstate(divide="raise", invalid="raise"), decimal.localcontext() as dctx:
            # (round 7, class k: numpy raises on divide / invalid, the decimal context has 2..6 digits)
            dctx.prec = 2 + len(case["rows"]) % 5
            # a WARNING alone is never a violation (a harmless rewrite may make a third-party library warn, e.g. mercantile's
            # FutureWarning at the east edge): only numpy's divide / invalid ERROR state and the decimal context are forced
            return run_case(run, drv, pending, case, tmpdir, tag, tier_quick)
    return run_case(run, drv, pending, case, tmpdir, tag, tier_quick)


def rlist(s):
    return [] if s == "-" else [Fraction(t) for t in s.split(",")]


def obs_differs(kind, o, rec):
    """compare one read-only call's observation (implementation) with the model's record; returns a text or None"""
    tag, _, body = rec.partition(":")
    try:
        if kind in ("tr1", "tr0", "gr"):
            rates, _, total = body.partition(":")
            mr = [] if rates == "-" else rates.split(",")
            if tag != "R" or len(mr) != len(o["rates"]) or "x" in mr or \
                    not all(close(a, Fraction(b)) for a, b in zip(o["rates"], mr)):
                return f"{kind}: rates impl {o['rates'][:3]!r} model {mr[:3]}"
            if kind != "gr" and (total == "-" or not close(o["total"], Fraction(total))):
                return f"{kind}: total impl {o['total']!r} model {total}"
        elif kind in ("sum", "ec"):
            if tag != "S" or not close(o["total"], Fraction(body)):
                return f"{kind}: impl {o['total']!r} model {body}"
        elif kind in ("sc", "mc", "data"):
            mv = rlist(body)
            if tag != "V" or len(mv) != len(o["vals"]) or not all(close(a, b) for a, b in zip(o["vals"], mv)):
                return f"{kind}: impl {o['vals'][:4]!r} model {[float(v) for v in mv[:4]]!r}"
        elif kind == "scc":
            mg = [[None if t == "nan" else Fraction(t) for t in ([] if r == "-" else r.split(","))] for r in body.split(";")]
            g = o["grid"]
            if tag != "G" or len(mg) != len(g) or any(len(a) != len(b) for a, b in zip(g, mg)) or \
                    any((x is None) != (y is None) or (x is not None and not close(x, y)) for a, b in zip(g, mg) for x, y in zip(a, b)):
                return f"scc: impl {g!r} model {body[:200]}"
    except Exception as e:          # unparsable record
        return f"{kind}: model record {rec[:80]!r} ({type(e).__name__})"
    return None


def flush(run, drv, pending):
    out = drv.run()
    for case, qi, keys, mags_, base_ in QUAD_ASKS:
        run.count("quadtree loader: statement-level model asked")
        o = out[qi]
        if o in ("none", "bad-op") or o.count("|") != 2:
            run.mismatch(case, "quadtree file loaded", o[:200])
            continue
        mk, mm, mb = o.split("|")
        qd = []
        if keys and mk.split(",") != keys:
            qd.append(f"quadkeys impl {keys[:4]} model {mk.split(',')[:4]}")
        if [Fraction(v) for v in mags_] != rlist(mm):
            qd.append("magnitudes")
        if [Fraction(v) for v in base_] != rlist(mb):
            qd.append("rate array (order / values)")
        if qd:
            run.mismatch(case, qd, o[:300])
    del QUAD_ASKS[:]
    for case, i, impl, band, hist, it, arr, date_asks in pending:
        o = out[i]
        for k, text_, got in date_asks:
            # scale_to_test_date: the factor set (or nothing set) is what the model computes from start / end / test date
            # (whether a factor is set must agree exactly; the factor itself to 1e-9: "data = original x last factor" does not
            # fix the last bit of the fraction, so a rewrite that reorders its float operations stays green — bit-for-bit
            # agreement with the model's binary64 computation is recorded in the evidence)
            run.count("test-date fraction: model asked")
            want = None if out[k] == "none" else Fraction(out[k])
            have = None if got is None else Fraction(got)
            if want is not None and have is not None:
                run.count("test-date fraction: " + ("bit-exact agreement with the model" if want == have else "NOT bit-exact (within 1e-9)"))
            if out[k] == "bad-op" or (want is None) != (have is None) or (want is not None and not close(have, want)):
                run.mismatch(case, f"scale_to_test_date({text_}) set {got!r}", f"model (testDateFraction): {out[k]}")
        if arr is not None:
            ia, av = arr
            run.count("array-factor model asked")
            if out[ia] in ("none", "bad-op", "nofit"):
                run.mismatch(case, "history with an ndarray factor: views computed", out[ia])
            else:
                md, mt, msc, mmc, mr = out[ia].split("|")
                ad = []
                if ([Fraction(v) for v in av["data"]] != rlist(md)) if not av["approx"] else \
                        (len(av["data"]) != len(rlist(md)) or not all(close(a, b) for a, b in zip(av["data"], rlist(md)))):
                    ad.append("data under the array factor (bit-exact _data * _scale, numpy broadcasting)")
                if not close(av["total"], Fraction(mt)):
                    ad.append("total under the array factor")
                if len(av["spatial"]) != len(rlist(msc)) or not all(close(a, b) for a, b in zip(av["spatial"], rlist(msc))):
                    ad.append("spatial_counts under the array factor")
                if len(av["magc"]) != len(rlist(mmc)) or not all(close(a, b) for a, b in zip(av["magc"], rlist(mmc))):
                    ad.append("magnitude_counts under the array factor")
                mrl = [] if mr == "-" else mr.split(",")
                if len(mrl) != len(av["rates"]) or any(b == "x" or (Fraction(a) != Fraction(b) and not (av["approx"] and close(a, Fraction(b))))
                                                       for a, b in zip(av["rates"], mrl)):
                    ad.append(f"get_rates under the array factor: impl {av['rates'][:3]!r} model {mrl[:3]}")
                if ad:
                    run.mismatch(case, ad, out[ia][:300])
        if it is not None:
            run.count("text-level model asked")
            if out[it] != o:
                # numpy.loadtxt + Decimal(repr()) as modelled from the characters disagree with the doubles / decimals the
                # harness derived with Python itself (and which the implementation has just been compared with)
                run.mismatch(case, "rows / cell-size decimals as Python reads them: " + o[:300],
                             "text-level model (DecimalText.loadtxt, reprValue): " + out[it][:300])
        if hist is not None:
            ih, observations, fscale = hist
            recs = out[ih].split("|")
            hd = []
            if out[ih] in ("none", "bad-op") or len(recs) != len(observations) + 1:
                hd.append(f"history of reads: model answered {out[ih][:120]!r}")
            else:
                for (kind, ob), rec in zip(observations, recs):
                    d = obs_differs(kind, ob, rec)
                    if d:
                        hd.append(d)
                        break
                if not hd and fscale is not None and (not recs[-1].startswith("F:") or Fraction(recs[-1][2:]) != fval(fscale)):
                    hd.append(f"factor after the history: impl {fscale!r} model {recs[-1]}")
            if hd:
                run.mismatch(case, hd, out[ih][:300])
        if impl is None or impl == "loaded":
            # malformed file (outside the property's well-formed files): whether both sides refuse it is recorded only
            run.count("malformed file: " + ("model and implementation agree" if (impl is None) == (o == "none") else
                                            "implementation " + ("refuses" if impl is None else "loads") + " what the model does not"))
            continue
        if o in ("none", "bad-op"):
            run.mismatch(case, "loaded", o)
            continue
        info, rates, factor, data, total, spatial, magc = o.split("|")
        parts = info.split(";")
        mdh, mmags, mn, mcells = Fraction(parts[0]), rlist(parts[1]), int(parts[2]), [rlist(c) for c in parts[3:]]
        diffs = []
        if impl["dh"] is not None:
            # the cell size is an internal of the region: its effect (every written lower corner is inside its own cell) is
            # what the probes decide; bit-for-bit agreement with the model's dh is recorded
            run.count("region.dh " + ("bit-exact agreement with the model" if Fraction(impl["dh"]) == mdh else "DIFFERS from the model's"))
            if not close(impl["dh"], mdh, 1e-6):
                diffs.append(f"dh impl {impl['dh']!r} model {float(mdh)!r}")
        if [Fraction(m) for m in impl["mags"]] != mmags:
            diffs.append("magnitudes")
        if impl["ncell"] != mn or [(Fraction(a), Fraction(b)) for a, b in impl["origins"]] != [(c[0], c[2]) for c in mcells]:
            diffs.append("cells")
        if impl["mask"] is not None and [Fraction(v) for v in impl["mask"]] != [c[4] for c in mcells]:
            diffs.append("flags")
        mr = rates.split(",") if rates != "-" else []
        for j, (a, b) in enumerate(zip(impl["rates"], mr)):
            if band[j]:
                continue
            if (a == "x") != (b == "x") or (a != "x" and Fraction(a) != Fraction(b)):
                diffs.append(f"probe {case['probes'][j]}: impl {a!r} model {b}")
                break
        if impl["factor"] is not None and fval(impl["factor"]) != Fraction(factor):
            diffs.append(f"factor impl {impl['factor']!r} model {factor}")
        if not impl.get("approx") and [Fraction(v) for v in impl["data"]] != rlist(data):
            diffs.append("data (bit-exact base x factor)")
        if not close(impl["total"], Fraction(total)):
            diffs.append("total")
        if not all(close(a, b) for a, b in zip(impl["spatial"], rlist(spatial))) or len(impl["spatial"]) != len(rlist(spatial)):
            diffs.append("spatial_counts")
        if not all(close(a, b) for a, b in zip(impl["magc"], rlist(magc))) or len(impl["magc"]) != len(rlist(magc)):
            diffs.append("magnitude_counts")
        if diffs:
            run.mismatch(case, diffs, o[:300])
    pending.clear()


# ----------------------------------------------------------------------------- option handling of load_gridded_forecast
# Input / call classes on which the UNCHANGED code misbehaves and whose place relative to the property text is for the
# integrator to decide (see notes/C11.md "Genuine-defect candidates"); they are not exercised meanwhile.
AWAITING_DECISION = [
    "GriddedForecast.get_valid_midpoints(): raises AttributeError on every forecast (reads region.bbox_max, an attribute "
    "that does not exist; the cells flagged 1 are region.poly_mask / bbox_mask)",
    "get_rates(lons, lats, mags) with arguments of different lengths: the documented RuntimeError is raised only when ALL "
    "THREE lengths differ pairwise-in-sequence (`and` instead of `or`); (2, 2, 1) and (2, 1, 1) are broadcast silently",
    "get_rates / get_index_of with TUPLE arguments on a quadtree region: QuadtreeGrid2D.get_index_of handles list, ndarray, "
    "int, float and returns None for anything else; get_rates then evaluates data[None, idm], i.e. returns rows of the rate "
    "array selected by the MAGNITUDE index, shape (1, n, n_mag), without any error (lists and arrays are right)",
]


def option_cases(run, rng, drv, tmpdir, n):
    """which calls of csep.load_gridded_forecast are refused and which reach a loader (csep/__init__.py:455-475), compared with
    ForecastFile.loadDispatch at the granularity refused / loaded-by-the-caller's-loader / loaded-by-load_ascii.  The class of
    the exception is only recorded."""
    import csep
    from csep.core.forecasts import GriddedForecast
    good = "10.0 10.1 20.0 20.1 0.0 30.0 5.0 5.1 0.5 1\n10.0 10.1 20.0 20.1 0.0 30.0 5.1 5.2 0.25 1\n"
    asked = []
    for k in range(n):
        ext = rng.choice(["dat", "dat", "xml", "h5", "bin", "txt", "csv", "", "dat2", "xml.dat", "dat.xml"])
        exists = rng.random() < 0.85
        lk = rng.choice(["none", "none", "callable", "callable", "notcallable", "returns-nonforecast"])
        fn = os.path.join(tmpdir, f"opt{k}" + ("." + ext if ext else ""))
        if exists:
            with open(fn, "w") as f:
                f.write(good)
        called = {}

        def loader(fname, **kw):
            called["yes"] = True
            if lk == "returns-nonforecast":
                return rng.choice([None, (1, 2, 3), numpy.zeros((1, 2))])
            return GriddedForecast.load_ascii(fname, **kw)
        arg = dict(none=None, callable=loader, notcallable=rng.choice([3, "load_ascii", [1], 2.5])).get(lk, loader)
        try:
            fc = csep.load_gridded_forecast(fn, loader=arg)
            got = "loader" if called else "ascii"
            if not isinstance(fc, GriddedForecast) or float(fc.sum()) != 0.75 or \
                    float(fc.get_rates(numpy.array([10.05]), numpy.array([20.05]), numpy.array([5.15]))[0]) != 0.25:
                run.oracle_failure(dict(kind="load_gridded_forecast options", ext=ext, exists=exists, loader=lk),
                                   "a call that was accepted did not return the forecast of the file")
        except Exception as e:
            got = "refused"
            run.count("option-refusal:" + type(e).__name__)
        finally:
            if exists:
                os.unlink(fn)
        run.count("load_gridded_forecast options:" + got)
        last_ext = os.path.splitext(fn)[-1][1:]
        i = drv.ask(" ".join(["c11_dispatch", "1" if exists else "0", hexs(last_ext),
                              "none" if lk == "none" else ("notcallable" if lk == "notcallable" else "callable")]))
        j = drv.ask("c11_name " + hexs(fn))
        asked.append((dict(kind="load_gridded_forecast options", ext=ext, exists=exists, loader=lk), i, got, lk, j, last_ext))
    return asked


def option_flush(run, out, asked):
    for case, i, got, lk, j, last_ext in asked:
        m = out[i]
        want = "refused" if m.endswith("Error") else m
        if lk == "returns-nonforecast" and want == "loader":
            want = "refused"          # final isinstance check (csep/__init__.py:474)
        if got != want:
            if want in ("loader", "ascii"):
                # a call the documented rules send to a loader is refused / served by the other loader: the file is not loaded
                run.mismatch(case, got, m)
            else:
                # the model refuses and the implementation accepts (and returns the file's forecast: checked above): option
                # handling where the property is silent — recorded only
                run.count("option handling differs from the model where the property is silent")
        if out[j].split(",")[1] != hexs(last_ext):
            run.mismatch(dict(case, what="os.path.splitext"), last_ext, out[j])


# ----------------------------------------------------------------------------- entry points
def corpus_cases():
    d = os.path.join(os.path.dirname(os.path.dirname(os.path.abspath(__file__))), "corpus", "C11")
    out = []
    if os.path.isdir(d):
        for f in sorted(os.listdir(d)):
            if f.endswith(".json"):
                c = json.load(open(os.path.join(d, f)))
                out.append(c.get("case", c))
    return out


def run(run, rng, tier):
    run.assumptions.append("coordinates, magnitude edges and rates are written with repr() / %.17g, so numpy.loadtxt reads back "
                           "exactly the intended doubles")
    run.assumptions.append("probes within 1e-10 relative below a cell or magnitude edge may be attributed to either side "
                           "(documented bin1d_vec tolerance); all other probes must hit exactly")
    run.assumptions.append("no probe lies beyond the upper side of an axis that has a single cell (known finding D4 of C01)")
    run.assumptions.append("for forecast periods >= 31 days the float decimal-year fraction is also required to agree with the exact "
                           "one to 1e-9 (numerical oracle); for every period (1 day ... 10 years) it is compared bit for bit with "
                           "the model's binary64 computation (testDateFraction)")
    drv, pending = Driver(), []
    n = 0
    LIVE.clear()
    del QUAD_ASKS[:]
    # the text layer (decimal token -> double, repr -> decimal, int()) against the running Python / numpy
    run.extra["text_tokens_compared"] = c11_text.token_stream(run, rng, 1500 if tier == "quick" else 20000)
    run.extra["awaiting_decision"] = AWAITING_DECISION
    with tempfile.TemporaryDirectory(prefix="c11_") as tmp:
        odrv = Driver()
        asked = option_cases(run, rng, odrv, tmp, 60 if tier == "quick" else 600)
        option_flush(run, odrv.run(), asked)
        for c in corpus_cases():
            if c.get("kind") == "two-loads":       # two files loaded one after the other in one process
                run_case(run, drv, pending, c["first"], tmp, "corpus%da" % n)
                run_case(run, drv, pending, c["second"], tmp, "corpus%db" % n)
            else:
                run_case(run, drv, pending, c, tmp, "corpus%d" % n)
            n += 1
        # sizes beyond 2^16 rows (quick: one file; thorough: six)
        for _ in range(1 if tier == "quick" else 6):
            run_case_w(run, drv, pending, gen_big_cart_case(rng, tier), tmp, "big%d" % n, tier_quick=(tier == "quick"))
            n += 1
        nfiles = 850 if tier == "quick" else 10000
        for _ in range(nfiles):
            k = rng.random()
            if k < 0.78:
                case = gen_cart_case(rng, tier)
            elif k < 0.9:
                case = gen_quad_case(rng, tier, "qascii")
            else:
                case = gen_quad_case(rng, tier, "qcsv")
            run_case_w(run, drv, pending, case, tmp, str(n), tier_quick=(tier == "quick"))
            n += 1
            if case["layout"] == "cart" and not case["malformed"] and rng.random() < 0.2:
                run.count("sibling file: same cells, other magnitude bins")
                run_case(run, drv, pending, sibling_case(rng, case, tier), tmp, str(n) + "s", tier_quick=(tier == "quick"))
                n += 1
            if len(pending) >= 400:
                flush(run, drv, pending)
                drv = Driver()
    flush(run, drv, pending)
    # the tile bounds written into the quadtree files (mercantile) against C17's model of the standard tile scheme (Float
    # Mercator latitude through libm, `c17_mercbounds`): recorded — the verdicts above are decided by the file's own numbers
    keys = sorted(_QUAD_CACHE)[:4000]
    if keys:
        import struct
        d2 = Driver()
        asks = [(keys[a:a + 200], d2.ask("c17_mercbounds " + ",".join(keys[a:a + 200]))) for a in range(0, len(keys), 200)]
        out = d2.run()
        agree = differ = 0
        for ks, i in asks:
            recs = out[i].split(",")
            for q, rec in zip(ks, recs):
                b = _QUAD_CACHE[q]
                bits = [str(struct.unpack(">Q", struct.pack(">d", v))[0]) for v in (b[0], b[1], b[2], b[3])]
                if rec.split(":") == bits:
                    agree += 1
                else:
                    differ += 1
        run.extra["tile_bounds_vs_c17_model"] = dict(agree=agree, differ=differ)
        if differ:
            run.assumptions.append(f"mercantile's tile bounds differ from C17's Float model on {differ} of {agree + differ} quadkeys "
                                   "(last-bit differences of libm); the files carry mercantile's numbers")


def replay(run, payload):
    drv, pending = Driver(), []
    case = payload["case"]
    LIVE.clear()
    del QUAD_ASKS[:]
    if isinstance(case, dict) and case.get("kind") in c11_text.TOKEN_KINDS:
        c11_text.replay_token(run, case)
        return
    if isinstance(case, dict) and case.get("kind") == "two-loads":
        LIVE.clear()
        with tempfile.TemporaryDirectory(prefix="c11_") as tmp:
            run_case(run, drv, pending, case["first"], tmp, "replay1")
            run_case(run, drv, pending, case["second"], tmp, "replay2")
        flush(run, drv, pending)
        return
    if isinstance(case, dict) and case.get("kind") == "load_gridded_forecast options":
        import random
        with tempfile.TemporaryDirectory(prefix="c11_") as tmp:
            odrv = Driver()
            asked = option_cases(run, random.Random(payload.get("seed", 0)), odrv, tmp, 200)
            option_flush(run, odrv.run(), asked)
        return
    if "probes" in payload.get("all_probes", {}):
        case = dict(case, probes=payload["all_probes"]["probes"])
    with tempfile.TemporaryDirectory(prefix="c11_") as tmp:
        run_case(run, drv, pending, case, tmp, "replay")
    flush(run, drv, pending)
