"""C18 — evaluation results and regions survive serialisation: correspondence of EvaluationResult.to_dict/from_dict,
csep.write_json (json.dump default=_json_default), csep.load_evaluation_result and CartesianGrid2D.to_dict/from_dict with
Model/ResultJson.lean + direct oracle on the real round trip."""
import ast
import contextlib
import datetime
import io
import json
import math
import os
import random
import struct
import tempfile
import warnings

import numpy

from .core import Driver, REPO, frac, next_down, next_up
from . import c18_tree
from . import c18_text
from . import c18_calls

LEVEL_TEXT = ("Proof: a field value whose kinds lie in {int, bool, float, numpy integer/bool/floating scalars, str, None, "
              "lists/tuples/arrays of these} is read back equal after json.dump(default=_json_default)/json.load, for every "
              "nesting and length (structural induction), numpy scalars as the numbers they hold, tuples as lists and NaN as NaN; every result class of models.py has a factory entry building "
              "that class (decide over tables re-extracted from the source on every run); a written result of a known "
              "class loads as the same class with all nine fields equal; an unmasked region rebuilt from its dictionary "
              "is the same region, hence indexes every point identically. Tied to the code by running all 19 public "
              "evaluation functions on generated inputs (incl. -inf, nan, None outcomes), recording the kind of every "
              "field (the safe-set hypothesis), and comparing the real write/load with the model field by field. "
              "Round 3: the value model has dictionaries (json.dump sort_keys=True: key coercion, TypeError on mixed or "
              "non-JSON keys; json.load: str keys, last duplicate wins): safe trees of any nesting round-trip, every JSON "
              "tree without duplicate names is a fixed point of load-then-write, every loaded value is stable; the whole "
              "result file is one object read by load_evaluation_result (type dispatch, nine subscripts); "
              "EvaluationConfiguration / Event / FileSystem to_dict/from_dict; CartesianGrid2D.from_dict with its error "
              "branches in the code's order, optional magnitudes, and QuadtreeGrid2D.to_dict; an unmasked region (with or "
              "without magnitudes) rebuilt from its dictionary indexes every point identically. All of these are compared "
              "with the real code on every run (harness/c18_tree.py). "
              "Round 4: the JSON TEXT layer is inside the model (Model/JsonText.lean): the characters json.dump(indent=4, "
              "separators=(',', ': '), sort_keys=True) writes (ensure_ascii escapes incl. surrogate pairs, NaN / Infinity tokens, "
              "sorted members, indentation) and the json.load parser (whitespace, NUMBER_RE, all string escapes, duplicate "
              "members). Proved for ALL trees: parse(render j) = j with members sorted; the loaded value of the written text of safe "
              "data is its normal form (load_render_safe, load_save); every string and every integer round-trips at character "
              "level; any whitespace-only layout parses alike; the text is pure ASCII; NaN / +-Infinity survive as tokens. Floats: "
              "for every finite double the round trip needs the computable fact floatOkB (NUMBER_RE matches the whole shortest repr "
              "and reading it gives the same bits) - a hypothesis of the theorems (FloatsOK), kernel-checked on examples and "
              "evaluated by the driver for every double met in a run. Round 6: that hypothesis is DISCHARGED for every finite double that "
              "is zero (either sign) or normal (`float_ok_normal`: pyReprF is property C14's FloatText.floatStr; NUMBER_RE is proved "
              "to accept each of the four repr layouts at character level, the bit pattern <-> rational maps are proved inverse on "
              "normal patterns, C11's reprSearch_roundtrip gives the value), so parse_render_normal / load_render_safe_normal / "
              "load_save_normal / render_ascii_normal carry no float hypothesis; subnormal doubles stay a per-value computable check. "
              "The loader's nesting limit is an explicit parameter (loadLimited L: a written tree loads back iff its depth <= L, beyond "
              "it RecursionError, never another value; L is measured on every run). Every function under csep/ that constructs a "
              "result class is enumerated from the source on every run; each constructs a class the factory maps to itself "
              "(producers_factory_total, producer_result_class_preserved).")
LEVEL_NOTE = ("The JSON text layer is modelled at character level (round 4) except float.__repr__ / float(): Model/JsonFloat.lean "
              "is an executable transcription of the shortest repr on top of C11's DecimalText.reprValue whose round trip is a "
              "per-double computable hypothesis (checked for every double of every run by op c18_text_floatok), not a theorem for "
              "all doubles. Not modelled: lone surrogate escapes in a hand-written file, integers of more than 4300 digits, > ~990 "
              "nesting levels, the byte decoding of open() (the written text is ASCII; a sample of every round trip is re-run in a "
              "child process under LC_ALL=C with UTF-8 mode off so that nothing depends on the locale encoding). Only objects that reach str(obj) in _json_default (an ndarray "
              "nested in a field, a datetime) are outside the safe set; no evaluation function stores one. The former defect "
              "D29 (numpy.int64 min_mw written as a string, fixed by 98f1bb3) is a permanent corpus case.")
DESIGN_REF = "DESIGN.md §4 C18"

THEOREMS = ["ResultJson.roundtrip_safe", "ResultJson.numpy_scalars_roundtrip_as_numbers",
            "ResultJson.stringified_objects_do_not_roundtrip", "ResultJson.roundtrip_idempotent",
            "ResultJson.loaded_is_plain", "ResultJson.roundtrip_stable", "ResultJson.safe_decidable", "ResultJson.factory_total", "ResultJson.factory_aliases",
            "ResultJson.class_preserved", "ResultJson.write_fails_iff", "ResultJson.result_roundtrip",
            "ResultJson.string_distribution_split", "ResultJson.rebuild_eq", "ResultJson.rebuild_same_index",
            "ResultJson.rebuild_any_observable", "ResultJson.masked_region_not_preserved",
            # second loader (csep.load_json / FileSystem.load), in-memory pair, non-finite values
            "ResultJson.loaders_agree", "ResultJson.loaders_agree_on_written", "ResultJson.load_json_roundtrip",
            "ResultJson.nonfinite_survive", "ResultJson.from_dict_to_dict",
            # Properties/C18_Tree.lean — JSON value tree with dictionaries
            "JsonTree.tree_roundtrip_safe", "JsonTree.safe_image_nodup", "JsonTree.decode_encode_fixed",
            "JsonTree.safe_image_fixed", "JsonTree.loaded_is_plain", "JsonTree.tree_roundtrip_stable",
            "JsonTree.tree_norm_idempotent", "JsonTree.tree_safe_decidable", "JsonTree.int_keys_come_back_as_strings",
            "JsonTree.bool_none_keys_come_back_as_strings", "JsonTree.bad_key_raises", "JsonTree.sortable_one_class",
            "JsonTree.mixed_keys_raise", "JsonTree.stringified_inside_dict", "JsonTree.duplicate_member_last_wins",
            "JsonTree.embedding_consistent",
            # Properties/C18_Records.lean — whole files, records, region dictionaries
            "JsonTree.result_roundtrip_tree", "JsonTree.load_type_dispatch", "JsonTree.dict_distribution_keeps_keys_only",
            "JsonTree.evalcfg_roundtrip", "JsonTree.evalcfg_new_norm", "JsonTree.evalcfg_new_invariant",
            "JsonTree.evalcfg_missing_key", "JsonTree.evalcfg_update_then_get", "JsonTree.event_roundtrip",
            "JsonTree.event_time_exact_iff", "JsonTree.event_microseconds_lost", "JsonTree.repo_roundtrip",
            "JsonTree.repo_from_dict_keys", "JsonTree.region_dict_roundtrip", "JsonTree.region_file_roundtrip",
            "JsonTree.region_same_index", "JsonTree.region_same_lattice", "JsonTree.region_magnitudes_dropped",
            "JsonTree.region_magnitudes_optional", "JsonTree.region_from_dict_error_iff",
            "JsonTree.region_bad_polygon_typeError", "JsonTree.region_empty_polygons_indexError",
            "JsonTree.quadtree_dict_is_not_a_cartesian_dict", "JsonTree.quadtree_dict_file_roundtrip",
            # Properties/C18_Text.lean — the JSON text layer (round 4)
            "JsonText.parse_renderRaw", "JsonText.parse_render", "JsonText.parse_render_nofloat", "JsonText.whitespace_irrelevant",
            "JsonText.compact_same", "JsonText.decode_parse_render", "JsonText.load_render_safe", "JsonText.load_save",
            "JsonText.string_roundtrip", "JsonText.int_roundtrip", "JsonText.nonfinite_tokens", "JsonText.render_ascii",
            "JsonText.float_numeral_alphabet",
            # round 6: floats without hypothesis, nesting limit, producers
            "JsonText.float_ok_normal", "JsonText.floatsOK_of_normal", "JsonText.parse_render_normal",
            "JsonText.decode_parse_render_normal", "JsonText.load_render_safe_normal", "JsonText.load_save_normal",
            "JsonText.render_ascii_normal", "JsonText.depth_sortTree", "JsonText.load_limited_ok", "JsonText.load_limited_too_deep",
            "JsonText.load_limited_normal", "ResultJson.producers_classes_known", "ResultJson.producers_factory_total",
            "ResultJson.every_class_produced", "ResultJson.producer_result_class_preserved"]
TRUSTED = ["Lean 4.33 kernel", "axioms: propext, Classical.choice, Quot.sound at most",
           "CPython json text: modelled at character level (Model/JsonText.lean) and compared with the real files on every run; "
           "float.__repr__ / float(): the character model is C14's FloatText.floatStr, proved to read back for zero / normal doubles "
           "(subnormals: per-value check); still trusted: open() decodes the ASCII text the library writes in every locale "
           "(re-run in a child process under the C locale)",
           "numpy.float64 is a float subclass and json writes it as a number; every other numpy scalar reaches "
           "_json_default and is written as its .item(); other unknown objects as str(obj) (all re-checked per value by "
           "the correspondence)",
           "the tables resultClasses / factoryTable of Model/ResultJson.lean equal the source: re-extracted with ast "
           "(factory dict of load_evaluation_result) and introspection (subclasses in csep.models) on every run and "
           "compared through the driver op c18_tables",
           "regions: the Lean region is the tuple (origins, dh, mask, name) with an exact-lattice index; the real "
           "cleaner_range / bin1d_vec arithmetic is property C01/C02's model. The C18 oracle compares the REAL original "
           "and rebuilt regions point by point",
           "member order of JSON objects is not modelled (dict equality ignores it; entries are compared sorted by name); "
           "float dict keys are not modelled and not generated",
           "epoch_time_to_utc_datetime on an integer of milliseconds is exact (C15's subject; re-checked on every generated "
           "Event); os.path.expanduser/expandvars leave the generated urls unchanged",
           "region dictionaries: coordinates / dh / magnitudes are float64 bit patterns; Grid.fromDict returns `unmodelled` "
           "for non-float coordinates, ragged magnitudes and non-list iterables (not generated)",
           "harness/c18.py, harness/c18_tree.py generators and comparison; driver parsing (Proto.lean, Drive/C18.lean, "
           "Drive/C18b.lean)"]
RULE = ("every public saver / loader pair for results (write_json | FileSystem.save with and without backup) x "
        "(load_evaluation_result | csep.load_json(Class) | FileSystem.load(Class) | Class.from_dict(json.load) | in-memory "
        "Class.from_dict(to_dict())) and regions (write_json/load_json | FileSystem.save/load | from_dict(to_dict()) | through json "
        "text); histories: a dictionary from an earlier to_dict() edited by the caller, then saved again; load A, load B, load A; "
        "a path overwritten; region A rebuilt after region B of the same name; result / region unchanged by serialising; one "
        "distribution of > 2^16 entries ending in inf, -inf, nan (either byte order) and one lattice of > 2^16 cells per run; "
        "results: 19 evaluation functions x variants {normal, zero_rate (-inf), empty_obs (nan/None/not-valid), single "
        "(nan t-test), int_mags (numpy.int64 min_mw)} x random small grids, plus synthetic results of every class with "
        "random field values of all kinds (nested tuples, nan/inf, None, unicode, numpy scalars); regions: random "
        "unmasked lattices (holes, shuffled cell order, decimal and dyadic spacings, inferred dh) probed at cell corners, "
        "upper edges, one-ulp neighbours, midpoints and outside points, plus masked dyadic lattices (correspondence only). "
        "A case is non-trivial when a compared field holds nan/inf/None/tuple/array/nested data or a region probe lies on "
        "a cell edge; distinct by (function, variant, field kinds and special values) or (lattice, probe set). Round 3 "
        "sub-cases (own sub_seed each): values with dicts of every key kind (str, int, bool, None, mixed, numpy, tuple, "
        "bytes); results of every class with dict-valued fields and numpy arrays of every dtype and shape (0-d..3-d, empty) "
        "as test_distribution; EvaluationConfiguration (falsy evaluations, removed keys, getters, update_version, re-save), "
        "Event (sub-millisecond, negative, None times), FileSystem (unexpected / missing keys, __eq__, backup, IOError); "
        "region dictionaries of lattices with and without magnitudes under 26 kinds of damage, directly and through a "
        "file; quadtree dictionaries. Round 4: section `text` (500 / 4000 sub-cases: value trees with control characters, quotes, "
        "non-ASCII and astral strings, every float class incl. subnormals / 1e16 / 1e22 / random bit patterns, big integers, "
        "empty containers, int / bool / None keys: the model's parser on the real file, the real loader on the model's text, "
        "truncated files, 110 hand-made texts incl. 66 malformed ones); 36 / 200 results of every class with non-ASCII forecast / "
        "catalog / test names + one real evaluation + regions through every writer / reader pairing in a CHILD PROCESS under "
        "LC_ALL=C, PYTHONUTF8=0 (thorough also C.UTF-8 and UTF-8 mode); the spacing argument of a region as numpy.float32 / "
        "float64 / int / numpy.int64 (float32 with a non-dyadic spacing: known finding D44, signature SIG_D44). Round 6 "
        "(harness/c18_calls.py): the producers table from the source; every public call positionally and by keyword in both orders, "
        "module-level and csep-level entry points (20 / 150 sub-cases x 12 writer-loader pairs + 7 ways to build a region); results "
        "with -0.0, subnormals, the largest double, integers beyond 2^53 / 2^63 as python ints, numpy int64 / uint64 scalars and "
        "arrays, float32 subnormals, distributions of exactly 0 / 1 / 65535 / 65536 / 65537 entries, regions with origins at -0.0, "
        "across zero, at the date line / poles (36 / 400); caller-owned dictionaries and arrays left alone, loads independent, "
        "to_dict not aliased (12 / 100); relative paths under another working directory, another TZ, warnings as errors, a save "
        "after a failed save (5 / 40); files nested just below / at / beyond the measured loader limit")

FIELDS = ("test_distribution", "name", "observed_statistic", "quantile", "status", "obs_catalog_repr", "sim_name",
          "obs_name", "min_mw")


# ----------------------------------------------------------------------------- value encoding (shared with Drive/C18.lean)
def hexs(s):
    return s.encode("utf-8").hex()


def f64tok(x):
    x = float(x)
    if x != x:
        return "nan"
    return str(struct.unpack("<Q", struct.pack("<d", x))[0])


def enc(v, td=False):
    """prefix encoding of a Python value by EXACT type; an ndarray is an array only as test_distribution (to_dict calls
    .tolist()), anywhere else _json_default stringifies it (as any object that is not a numpy scalar)"""
    t = type(v)
    if v is None:
        return ["n"]
    if t is bool:
        return ["b1" if v else "b0"]
    if t is int:
        return [f"i{v}"]
    if t is float:
        return ["f" + f64tok(v)]
    if t is numpy.float64:
        return ["F" + f64tok(v)]
    if isinstance(v, numpy.bool_):
        return ["B1" if v else "B0"]
    if isinstance(v, numpy.integer):
        return [f"I{int(v)}"]
    if isinstance(v, numpy.floating):
        return ["G" + f64tok(float(v))]          # float32 / float16: .item() is the Python float it holds
    if isinstance(v, str):
        return ["s" + hexs(str(v))]              # str and str subclasses (numpy.str_) are written natively
    if t is str:
        return ["s" + hexs(v)]
    if t is list:
        return [f"l{len(v)}"] + [x for e in v for x in enc(e)]
    if t is tuple:
        return [f"t{len(v)}"] + [x for e in v for x in enc(e)]
    if isinstance(v, numpy.ndarray):
        if td and v.ndim >= 1:
            tl = v.tolist()
            return [f"a{len(tl)}"] + [x for e in tl for x in enc(e)]
        if td and v.ndim == 0:
            return enc(v[()], td=True)
        return ["o" + hexs(str(v))]
    return ["o" + hexs(str(v))]


def kind_of(v):
    t = type(v)
    if v is None:
        return "None"
    if t in (list, tuple):
        inner = sorted(set(kind_of(e) for e in v))
        return f"{t.__name__}[{'|'.join(inner)}]"
    if isinstance(v, numpy.ndarray):
        return f"ndarray:{v.dtype}"
    if t is float or t is numpy.float64:
        x = float(v)
        sp = "nan" if x != x else ("inf" if x == math.inf else ("-inf" if x == -math.inf else ""))
        return (("float64" if t is numpy.float64 else "float") + (":" + sp if sp else ""))
    return t.__module__.split(".")[0] + "." + t.__name__ if t.__module__ != "builtins" else t.__name__


def is_safe(v, td=False):
    t = type(v)
    if v is None or t in (bool, int, float, str) or t is numpy.float64:
        return True
    if isinstance(v, (numpy.integer, numpy.bool_, numpy.floating)):
        return True
    if t in (list, tuple):
        return all(is_safe(e) for e in v)
    if isinstance(v, numpy.ndarray) and td:
        return all(is_safe(e) for e in (v.tolist() if v.ndim else [v.tolist()]))
    return False


def py_norm(v, td=False):
    """what 'equal after the round trip' means: tuples/arrays as lists, numpy scalars as the Python numbers they hold"""
    t = type(v)
    if isinstance(v, numpy.bool_):
        return bool(v)
    if isinstance(v, numpy.integer):
        return int(v)
    if isinstance(v, numpy.floating):
        return float(v)
    if t in (list, tuple):
        return [py_norm(e) for e in v]
    if isinstance(v, numpy.ndarray) and td:
        return py_norm(v.tolist())
    return v


def same(a, b):
    """equality of VALUES: numbers compared numerically (4 == 4.0, NaN == NaN, -0.0 distinguished from 0.0 only
    between floats), bools only with bools, strings with strings, None with None, lists elementwise"""
    num = lambda x: isinstance(x, (int, float)) and not isinstance(x, bool)
    if num(a) and num(b) and type(a) is not type(b):
        return a == b
    if type(a) is not type(b):
        return False
    if isinstance(a, list):
        return len(a) == len(b) and all(same(x, y) for x, y in zip(a, b))
    if isinstance(a, float):
        return (a != a and b != b) or (a == b and math.copysign(1, a) == math.copysign(1, b))
    return a == b


def td_list(v):
    """to_dict's handling of test_distribution (models.py:83-86), on the harness side for the expectation"""
    if hasattr(v, "tolist"):
        return v.tolist()
    return list(v)


def special(v):
    if isinstance(v, (list, tuple)):
        return any(special(e) for e in v) or len(v) == 0 or isinstance(v, tuple)
    if isinstance(v, numpy.ndarray):
        return True
    if v is None:
        return True
    if isinstance(v, float):
        return v != v or v in (math.inf, -math.inf)
    return False


# ----------------------------------------------------------------------------- source-derived tables
def extract_tables():
    """factory dict of load_evaluation_result via ast; EvaluationResult subclasses of csep.models via introspection"""
    src = open(os.path.join(REPO, "csep", "__init__.py")).read()
    tree = ast.parse(src)
    factory, how = None, "ast"
    for node in ast.walk(tree):
        if isinstance(node, ast.FunctionDef) and node.name == "load_evaluation_result":
            for sub in ast.walk(node):
                if isinstance(sub, ast.Assign) and isinstance(sub.value, ast.Dict) and \
                        any(isinstance(t, ast.Name) and t.id == "evaluation_result_factory" for t in sub.targets):
                    factory = {}
                    for k, v in zip(sub.value.keys, sub.value.values):
                        if isinstance(k, ast.Constant) and isinstance(v, (ast.Name, ast.Attribute)):
                            factory[k.value] = v.id if isinstance(v, ast.Name) else v.attr
                        else:
                            factory = None
                            break
    import csep.models as M
    classes = [n for n, c in vars(M).items() if isinstance(c, type) and issubclass(c, M.EvaluationResult)
               and c.__module__ == M.__name__]
    if factory is None:
        how = "unavailable"
    return classes, factory, how


def check_tables(run, drv, pend):
    classes, factory, how = extract_tables()
    run.extra["tables_extracted_by"] = how
    run.extra["result_classes"] = sorted(classes)
    case = dict(mode="tables", classes=sorted(classes), factory=factory)
    run.case(case, ("tables",))
    if factory is None:
        run.assumptions.append("factory dict of load_evaluation_result has no literal shape any more: table "
                               "comparison skipped, per-class round trips still run")
    else:
        for c in classes:
            if factory.get(c) != c:
                run.oracle_failure(dict(mode="synthetic", cls=c, fields={f: ["s" + hexs("x")] for f in FIELDS if f != "test_distribution"}
                                        | {"test_distribution": ["l0"]}),
                                   f"result class {c} has no factory entry building it (entry: {factory.get(c)!r})")
        pend.append(("tables", case, drv.ask("c18_tables"), (sorted(classes), factory)))
    return classes


# ----------------------------------------------------------------------------- evaluation inputs
NUM_SIM = 25
START = datetime.datetime(2020, 1, 1)
END = datetime.datetime(2021, 1, 1)
EPOCH0 = 1577836800000
YEAR = 366 * 86400 * 1000
VARIANTS = ("normal", "zero_rate", "empty_obs", "single", "int_mags")
LABELS = ("poisson.number_test", "poisson.likelihood_test", "poisson.conditional_likelihood_test",
          "poisson.spatial_test", "poisson.magnitude_test", "poisson.paired_t_test", "poisson.w_test",
          "binomial.negative_binomial_number_test", "binomial.binary_spatial_test",
          "binomial.binary_conditional_likelihood_test", "binomial.binary_paired_t_test", "brier.brier_score_test",
          "catalog.number_test", "catalog.spatial_test", "catalog.magnitude_test", "catalog.pseudolikelihood_test",
          "catalog.calibration_test", "catalog.resampled_magnitude_test", "catalog.MLL_magnitude_test")


class Setup:
    def __init__(self, rng, variant):
        self.variant = variant
        self.nlon, self.nlat = rng.randint(2, 5), rng.randint(2, 5)
        self.dh = rng.choice([0.1, 0.25, 0.5])
        self.lon0 = rng.choice([10.0, -120.5, 0.0, 170.0])
        self.lat0 = rng.choice([40.0, -30.0, 0.5])
        if variant == "int_mags":
            self.mags = numpy.array([4, 5, 6, 7])          # integer magnitude edges: dtype int64
            self.dmw = 1.0
        else:
            self.mags = numpy.array([4.0, 4.5, 5.0, 5.5])
            self.dmw = 0.5

    def region(self):
        from csep.core.regions import CartesianGrid2D
        orig = numpy.array([[self.lon0 + self.dh * i, self.lat0 + self.dh * j]
                            for i in range(self.nlon) for j in range(self.nlat)])
        return CartesianGrid2D.from_origins(orig, dh=self.dh, magnitudes=self.mags.copy(), name="c18-grid")

    def event(self, rng, k, cell=None):
        if cell is None:
            cell = (rng.randrange(self.nlon), rng.randrange(self.nlat))
        mb = min(int(rng.expovariate(1.0)), len(self.mags) - 1)
        lon = round(self.lon0 + self.dh * cell[0] + self.dh * rng.uniform(0.2, 0.8), 4)
        lat = round(self.lat0 + self.dh * cell[1] + self.dh * rng.uniform(0.2, 0.8), 4)
        mag = round(float(self.mags[mb]) + self.dmw * rng.uniform(0.1, 0.9), 2)
        return (str(k), EPOCH0 + rng.randrange(1000, YEAR - 1000), lat, lon, round(rng.uniform(1, 30), 1), mag)

    def gridded(self, rng, name, zero=()):
        from csep.core.forecasts import GriddedForecast
        reg = self.region()
        data = numpy.array([[rng.uniform(0.05, 0.6) / (1 + m) for m in range(len(self.mags))]
                            for _ in range(self.nlon * self.nlat)])
        for i in zero:
            data[i, :] = 0.0
        return GriddedForecast(start_time=START, end_time=END, data=data, region=reg, magnitudes=self.mags.copy(),
                               name=name)

    def catfore(self, rng, name, forbidden=None, n_cat=20):
        from csep.core.catalogs import CSEPCatalog
        from csep.core.forecasts import CatalogForecast
        reg = self.region()
        cats = []
        for c in range(n_cat):
            evs = []
            n = rng.randrange(1, 9)
            while len(evs) < n:
                cell = (rng.randrange(self.nlon), rng.randrange(self.nlat))
                if forbidden is not None and cell == forbidden and self.nlon * self.nlat > 1:
                    continue
                evs.append(self.event(rng, len(evs), cell))
            cats.append(CSEPCatalog(data=sorted(evs, key=lambda e: e[1]), name=f"{name}-{c}", catalog_id=c, region=reg))
        return CatalogForecast(catalogs=cats, name=name, region=reg, start_time=START, end_time=END, n_cat=n_cat)


def make_inputs(rng, variant):
    from csep.core.catalogs import CSEPCatalog
    s = Setup(rng, variant)
    n_obs = 0 if variant == "empty_obs" else (1 if variant == "single" else rng.randrange(3, 9))
    events = [s.event(rng, k) for k in range(n_obs)]
    if variant == "zero_rate":
        # known finding D10 (C06): the binary simulations loop forever when the observed catalog has more active cells
        # than the forecast has positive-rate cells. One cell gets zero rate below, so keep the observed events inside
        # at most (number of cells - 1) distinct cells.
        ncell = s.nlon * s.nlat
        def cell_of(e):
            return (int(math.floor((e[3] - s.lon0) / s.dh)), int(math.floor((e[2] - s.lat0) / s.dh)))
        seen = []
        for k, e in enumerate(events):
            c = cell_of(e)
            if c not in seen:
                if len(seen) >= ncell - 1:
                    events[k] = s.event(rng, k, cell=rng.choice(seen))
                else:
                    seen.append(c)
    reg = s.region()
    zero_cell, zero_idx = None, ()
    if variant == "zero_rate":
        e0 = events[0]
        zero_idx = (int(reg.get_index_of([e0[3]], [e0[2]])[0]),)
        zero_cell = (int(math.floor((e0[3] - s.lon0) / s.dh)), int(math.floor((e0[2] - s.lat0) / s.dh)))
    cat = CSEPCatalog(data=sorted(events, key=lambda e: e[1]), name="c18-observed", region=reg)
    g = s.gridded(rng, "c18-gridded", zero_idx)
    g2 = s.gridded(rng, "c18-benchmark")
    cfs = [s.catfore(rng, f"c18-catfore{i}", zero_cell) for i in range(3)]
    seeds = {lab: rng.randrange(1, 2 ** 31 - 1) for lab in LABELS}
    return dict(g=g, g2=g2, cat=cat, cfs=cfs, seeds=seeds, setup=s)


def calls(inp):
    from csep.core import poisson_evaluations as P, binomial_evaluations as B, brier_evaluations as R, \
        catalog_evaluations as C
    g, g2, cat, cfs, s = inp["g"], inp["g2"], inp["cat"], inp["cfs"], inp["seeds"]
    cf = cfs[0]
    ns = NUM_SIM
    return [
        ("poisson.number_test", lambda: P.number_test(g, cat)),
        ("poisson.likelihood_test", lambda: P.likelihood_test(g, cat, num_simulations=ns, seed=s["poisson.likelihood_test"])),
        ("poisson.conditional_likelihood_test",
         lambda: P.conditional_likelihood_test(g, cat, num_simulations=ns, seed=s["poisson.conditional_likelihood_test"])),
        ("poisson.spatial_test", lambda: P.spatial_test(g, cat, num_simulations=ns, seed=s["poisson.spatial_test"])),
        ("poisson.magnitude_test", lambda: P.magnitude_test(g, cat, num_simulations=ns, seed=s["poisson.magnitude_test"])),
        ("poisson.paired_t_test", lambda: P.paired_t_test(g, g2, cat)),
        ("poisson.w_test", lambda: P.w_test(g, g2, cat)),
        ("binomial.negative_binomial_number_test", lambda: B.negative_binomial_number_test(g, cat, 4.0 * g.event_count)),
        ("binomial.binary_spatial_test",
         lambda: B.binary_spatial_test(g, cat, num_simulations=ns, seed=s["binomial.binary_spatial_test"])),
        ("binomial.binary_conditional_likelihood_test",
         lambda: B.binary_conditional_likelihood_test(g, cat, num_simulations=ns,
                                                      seed=s["binomial.binary_conditional_likelihood_test"])),
        ("binomial.binary_paired_t_test", lambda: B.binary_paired_t_test(g, g2, cat)),
        ("brier.brier_score_test", lambda: R.brier_score_test(g, cat, num_simulations=ns, seed=s["brier.brier_score_test"])),
        ("catalog.number_test", lambda: C.number_test(cf, cat, verbose=False)),
        ("catalog.spatial_test", lambda: C.spatial_test(cf, cat, verbose=False)),
        ("catalog.magnitude_test", lambda: C.magnitude_test(cf, cat, verbose=False)),
        ("catalog.pseudolikelihood_test", lambda: C.pseudolikelihood_test(cf, cat, verbose=False)),
        ("catalog.calibration_test",
         lambda: C.calibration_test([C.number_test(f, cat, verbose=False) for f in cfs])),
        ("catalog.resampled_magnitude_test",
         lambda: C.resampled_magnitude_test(cf, cat, verbose=False, seed=s["catalog.resampled_magnitude_test"])),
        ("catalog.MLL_magnitude_test",
         lambda: C.MLL_magnitude_test(cf, cat, verbose=False, seed=s["catalog.MLL_magnitude_test"])),
    ]


@contextlib.contextmanager
def quiet():
    with warnings.catch_warnings(), contextlib.redirect_stdout(io.StringIO()), numpy.errstate(all="ignore"):
        warnings.simplefilter("ignore")
        yield


class EvalTimeout(BaseException):
    pass


@contextlib.contextmanager
def time_limit(seconds):
    import signal

    def handler(signum, frame):
        raise EvalTimeout()
    old_h = signal.signal(signal.SIGALRM, handler)
    signal.setitimer(signal.ITIMER_REAL, seconds)
    try:
        yield
    finally:
        signal.setitimer(signal.ITIMER_REAL, 0)
        signal.signal(signal.SIGALRM, old_h)


# ----------------------------------------------------------------------------- one result
def _check_result(run, drv, pend, res, case, produced_by_library, tmp):
    """write with csep.write_json, load with csep.load_evaluation_result, oracle + queue model comparison"""
    import csep
    cls = type(res).__name__
    vals = {f: getattr(res, f) for f in FIELDS}
    kinds = {f: kind_of(vals[f]) for f in FIELDS}
    safe = {f: is_safe(vals[f], td=(f == "test_distribution")) for f in FIELDS}
    for f in FIELDS:
        run.count(f"kind:{f}:{kinds[f]}" if produced_by_library else "synthetic-field")
    path = os.path.join(tmp, "r.json")
    nontriv = any(special(vals[f]) for f in FIELDS)
    key = (case.get("label", cls), case.get("variant"), tuple(sorted(kinds.items())),
           tuple(f for f in FIELDS if special(vals[f])))
    case = dict(case, cls=cls, kinds=kinds)
    run.case(case, key if nontriv else None)
    # --- the real round trip
    wrote = True
    try:
        with quiet():
            csep.write_json(res, path)
    except Exception as e:
        wrote = False
        werr = f"{type(e).__name__}: {e}"
    loaded, lerr = None, None
    if wrote:
        try:
            loaded = csep.load_evaluation_result(path)
        except Exception as e:
            lerr = f"{type(e).__name__}: {e}"
        # trusted text layer: json.loads(text) equals the tree json built, and is stable under a second dump/load
        tree = json.load(open(path))
        if not _tree_same(json.loads(json.dumps(tree)), tree):
            raise RuntimeError(f"json text layer is not the identity on {tree!r}")
    # --- a loaded result written and loaded again is unchanged (theorem roundtrip_stable; model-level, not the property)
    if wrote and loaded is not None:
        p2 = os.path.join(tmp, "r2.json")
        try:
            with quiet():
                csep.write_json(loaded, p2)
            again = csep.load_evaluation_result(p2)
            diff = [f for f in FIELDS if not same(getattr(again, f), getattr(loaded, f))]
            if diff or type(again) is not type(loaded):
                run.mismatch(dict(case, op="re-save"), f"fields {diff} change when a loaded result is saved again",
                             "roundtrip_stable")
        except Exception as e:
            # model: `write` fails exactly when test_distribution is a bare scalar / None (tdList = none)
            if isinstance(e, TypeError) and not isinstance(loaded.test_distribution, (list, str)):
                run.count("re-save-unwritable(scalar test_distribution)")
            else:
                run.mismatch(dict(case, op="re-save"), f"{type(e).__name__}: {e}", "roundtrip_stable")
    # --- oracle (only for results the library produced, or synthetic ones made of safe kinds)
    judge = produced_by_library or all(safe.values())
    if produced_by_library and not all(safe.values()):
        run.count("library-result-with-unsafe-kind:" + ",".join(f for f in FIELDS if not safe[f]))
    if judge:
        if not wrote:
            if produced_by_library:
                run.oracle_failure(case, f"write_json raised {werr}")
            else:
                run.count("synthetic-unwritable(test_distribution not iterable)")
        elif lerr:
            run.oracle_failure(case, f"load_evaluation_result raised {lerr}")
        else:
            if type(loaded).__name__ != cls:
                run.oracle_failure(case, f"class {cls} loaded back as {type(loaded).__name__}")
            elif type(loaded) is not type(res):
                run.oracle_failure(case, f"class {type(res).__module__}.{cls} loaded back as ANOTHER class of the same name: "
                                         f"{type(loaded).__module__}.{type(loaded).__name__}")
            for f in FIELDS:
                got = py_norm(getattr(loaded, f), td=True)
                if f == "test_distribution":
                    if isinstance(vals[f], str):
                        run.count("td-nonnumeric-string(not judged)")
                        continue
                    exp = py_norm(td_list(vals[f]))
                else:
                    exp = py_norm(vals[f])
                if not same(got, exp):
                    run.oracle_failure(dict(case, field=f), f"{cls}.{f}: wrote {vals[f]!r} ({kinds[f]}), loaded {got!r}")
    # --- every other saver / loader pair, and histories (lessons 1-3)
    if wrote and not lerr:
        try:
            extra_paths(run, drv, pend, res, case, cls, vals, kinds, judge, loaded, tmp, path)
        except Exception as e:          # never a harness crash: the deviation is the finding
            import traceback
            tb = traceback.extract_tb(e.__traceback__)[-1]
            run.mismatch(dict(case, op="extra_paths"), f"{type(e).__name__}: {e} (c18.py:{tb.lineno})"[:300], "saver / loader pairs behave")
    # --- model
    if wrote and not lerr:
        for f in FIELDS:
            td = f == "test_distribution"
            op = "c18_td" if td else "c18_field"
            pend.append((op, dict(case, field=f), drv.ask(f"{op} {','.join(enc(vals[f], td=td))}"),
                         (",".join(enc(py_norm(getattr(loaded, f), td=True))), safe[f])))
        pend.append(("factory", case, drv.ask(f"c18_factory {hexs(cls)}"), hexs(type(loaded).__name__)))
    elif not wrote and werr.startswith("TypeError"):
        pend.append(("c18_td", dict(case, field="test_distribution"),
                     drv.ask(f"c18_td {','.join(enc(vals['test_distribution'], td=True))}"), ("err", None)))
    elif wrote:
        pend.append(("factory", case, drv.ask(f"c18_factory {hexs(cls)}"), "KeyError" if "KeyError" in lerr else lerr))
    else:
        run.mismatch(dict(case, op="write_json"), werr, "the model writes every result whose test_distribution is iterable")


_HIST = {"prev": None, "n": 0, "region": None}


def _fields_of(obj, td=True):
    return {f: py_norm(getattr(obj, f), td=td) for f in FIELDS}


def _judge_loaded(run, case, how, loaded, cls, vals, kinds):
    """the property's predicate on ONE loaded object: same class, nine fields equal by value"""
    if isinstance(loaded, str):
        run.oracle_failure(dict(case, loader=how), f"{how} raised {loaded}")
        return
    if type(loaded).__name__ != cls:
        run.oracle_failure(dict(case, loader=how), f"{how}: class {cls} loaded back as {type(loaded).__name__}")
    for f in FIELDS:
        try:
            got = py_norm(getattr(loaded, f), td=True)
        except Exception as e:
            run.oracle_failure(dict(case, field=f, loader=how), f"{how}: loaded object has no usable field {f}: {type(e).__name__}")
            continue
        if f == "test_distribution":
            if isinstance(vals[f], str):
                continue
            try:
                exp = py_norm(td_list(vals[f]))
            except TypeError:
                continue
        else:
            exp = py_norm(vals[f])
        if not same(got, exp):
            run.oracle_failure(dict(case, field=f, loader=how), f"{how}: {cls}.{f}: wrote {vals[f]!r} ({kinds[f]}), loaded {got!r}")


def _try(fn):
    try:
        return fn()
    except Exception as e:
        return f"{type(e).__name__}: {e}"[:160]


def extra_paths(run, drv, pend, res, case, cls, vals, kinds, judge, loaded, tmp, path):
    """every public saver / loader pair for a result, and histories around them.
    savers : csep.write_json(res, f) | FileSystem(url=f).save(res.to_dict()) | …save(…, backup=True) over an existing file
    loaders: csep.load_evaluation_result(f) | csep.load_json(Class, f) | FileSystem(url=f).load(Class) |
             Class.from_dict(json.load(f)) | in memory Class.from_dict(res.to_dict())
    histories: the caller edits a dictionary obtained from to_dict() earlier, then the result is saved again; load A, load B,
    load A again; a path overwritten by another result; the result object itself must be unchanged by saving."""
    import copy
    import csep
    from csep.core.repositories import FileSystem
    klass = type(res)
    nonfinite = any(_has_nonfinite(vals[f]) for f in FIELDS)
    run.count("loaders:" + ("nonfinite" if nonfinite else "finite"))
    ref = _fields_of(loaded)
    # ---- loaders on the file write_json made
    alt = {"csep.load_json": _try(lambda: csep.load_json(klass, path)),
           "FileSystem.load": _try(lambda: FileSystem(url=path).load(klass)),
           "from_dict(json.load)": _try(lambda: klass.from_dict(json.load(open(path))))}
    for how, obj in alt.items():
        if judge:
            _judge_loaded(run, case, how, obj, cls, vals, kinds)
        # all loaders read the same file: field by field the same values, whatever they are (model: loaders_agree)
        if isinstance(obj, str):
            run.mismatch(dict(case, op="loaders_agree", loader=how), obj, "the object load_evaluation_result builds")
        else:
            diff = [f for f in FIELDS if not same(py_norm(getattr(obj, f, None), td=True), ref[f])]
            if diff or type(obj) is not type(loaded):
                run.mismatch(dict(case, op="loaders_agree", loader=how),
                             {f: repr(getattr(obj, f, None))[:80] for f in diff} or type(obj).__name__, "same as load_evaluation_result")
    pend.append(("factory", dict(case, op="c18_loaders"), drv.ask(f"c18_loaders {hexs(cls)} {hexs(cls)}"),
                 hexs(type(loaded).__name__) + ";" + (hexs(type(alt["csep.load_json"]).__name__) if not isinstance(alt["csep.load_json"], str) else "E")))
    # ---- in memory: Class.from_dict(res.to_dict())
    mem = _try(lambda: klass.from_dict(res.to_dict()))
    if judge:
        _judge_loaded(run, case, "from_dict(to_dict())", mem, cls, vals, kinds)
    # ---- second saver (FileSystem.save of the dictionary, then again with backup=True over the existing file)
    p2 = os.path.join(tmp, "r_fs.json")
    for backup in (False, True):
        w = _try(lambda: FileSystem(url=p2).save(res.to_dict(), backup=backup))
        obj = w if isinstance(w, str) else _try(lambda: csep.load_evaluation_result(p2))
        if judge:
            _judge_loaded(run, case, f"FileSystem.save(backup={backup}) -> load_evaluation_result", obj, cls, vals, kinds)
    for fn in os.listdir(tmp):
        if fn.startswith("r_fs_backup_"):
            os.unlink(os.path.join(tmp, fn))
    # ---- history: the caller edits a dictionary obtained EARLIER, then the result is serialised again
    before = {f: enc(vals[f], td=(f == "test_distribution")) for f in FIELDS}
    d = _try(lambda: res.to_dict())
    if isinstance(d, dict):
        for k in list(d):
            if k == "test_distribution" and isinstance(d[k], list):
                d[k].append(777.0)               # in place: the list to_dict built for the caller
                if d[k]:
                    d[k][0] = "edited"
            elif k != "type":
                d[k] = "edited-by-caller"        # re-bound entries
        d["type"] = "EvaluationResult" if cls != "EvaluationResult" else "CatalogNumberTestResult"
        p3 = os.path.join(tmp, "r_hist.json")
        w = _try(lambda: csep.write_json(res, p3))
        obj = w if isinstance(w, str) else _try(lambda: csep.load_evaluation_result(p3))
        if judge:
            _judge_loaded(run, dict(case, history="edit-earlier-dict"), "write_json after the caller edited an earlier to_dict()", obj, cls,
                          vals, kinds)
        elif not isinstance(obj, str):
            diff = [f for f in FIELDS if not same(py_norm(getattr(obj, f, None), td=True), ref[f])]
            if diff or type(obj) is not type(loaded):
                run.mismatch(dict(case, op="history:edit-earlier-dict"), diff or type(obj).__name__, "same file as before the edit")
        run.count("history:edit-earlier-dict")
    # the result object itself is not changed by to_dict / saving / loading
    after = {f: _try(lambda f=f: enc(getattr(res, f), td=(f == "test_distribution"))) for f in FIELDS}
    if after != before:
        ch = [f for f in FIELDS if after[f] != before[f]]
        run.oracle_failure(dict(case, history="save-changes-result"), f"fields {ch} of the result object changed while it was written / read")
    # ---- history: load A, load B, load A again; then A's path is overwritten by B
    _HIST["n"] += 1
    pa = os.path.join(tmp, f"h{_HIST['n'] % 2}.json")
    prev = _HIST["prev"]
    w = _try(lambda: csep.write_json(res, pa))
    if not isinstance(w, str):
        cur = _try(lambda: csep.load_json(klass, pa) if _HIST["n"] % 3 == 0 else csep.load_evaluation_result(pa))
        if prev is not None and os.path.exists(prev[0]) and prev[0] != pa:
            again = _try(lambda: csep.load_json(prev[2], prev[0]) if _HIST["n"] % 2 else csep.load_evaluation_result(prev[0]))
            if isinstance(again, str) or [f for f in FIELDS if not same(py_norm(getattr(again, f, None), td=True), prev[1][f])]:
                run.oracle_failure(dict(case, history="load-A-load-B-load-A"),
                                   "a result file loaded again after another file was written and loaded gives other values")
            run.count("history:load-A-B-A")
            # overwrite A's path with the current result: the loaders must see the new content
            w2 = _try(lambda: csep.write_json(res, prev[0]))
            over = w2 if isinstance(w2, str) else _try(lambda: csep.load_evaluation_result(prev[0]))
            if not isinstance(cur, str) and (isinstance(over, str) or
                                             [f for f in FIELDS if not same(py_norm(getattr(over, f, None), td=True), _fields_of(cur)[f])]):
                run.oracle_failure(dict(case, history="overwrite-path"), "a path overwritten by another result is loaded with stale / other values")
        if not isinstance(cur, str):
            _HIST["prev"] = (pa, _fields_of(cur), klass)


def _has_nonfinite(v):
    if isinstance(v, (list, tuple)):
        return any(_has_nonfinite(e) for e in v)
    if isinstance(v, numpy.ndarray):
        return v.dtype.kind == "f" and bool(numpy.any(~numpy.isfinite(v)))
    if isinstance(v, (float, numpy.floating)):
        return not math.isfinite(float(v))
    return False


def _first_unsafe(v):
    if isinstance(v, (list, tuple)):
        for e in v:
            u = _first_unsafe(e)
            if u is not None:
                return u
        return None
    return None if is_safe(v) else v


def _tree_same(a, b):
    if type(a) is not type(b):
        return False
    if isinstance(a, dict):
        return a.keys() == b.keys() and all(_tree_same(a[k], b[k]) for k in a)
    if isinstance(a, list):
        return len(a) == len(b) and all(_tree_same(x, y) for x, y in zip(a, b))
    if isinstance(a, float):
        return (a != a and b != b) or a == b
    return a == b


# ----------------------------------------------------------------------------- synthetic values
def gen_scalar(rng, allow_unsafe):
    k = rng.random()
    floats = [0.0, -0.0, 1.5, -2.25, 1e-300, 1.7e308, 5e-324, 0.1, 1 / 3, math.nan, math.inf, -math.inf, 1e22, 123456789.125]
    if k < 0.2:
        return rng.choice(floats) if rng.random() < 0.7 else rng.uniform(-1e3, 1e3)
    if k < 0.4:
        return numpy.float64(rng.choice(floats) if rng.random() < 0.7 else rng.gauss(0, 10))
    if k < 0.52:
        return rng.choice([0, 1, -1, 7, 2 ** 53 + 1, -10 ** 20, rng.randrange(-1000, 1000)])
    if k < 0.62:
        return rng.choice(["", "normal", "not-valid", "N-Test", "x y,z", "µ-test ✓", "NaN", "1.5", "a\nb", '"q"',
                           # text that a "clean-up" of names would alter: surrounding / inner white space, case, long, CJK, emoji
                           " lead", "trail ", "  both  ", "\ttab\t", " ", "\n", "MiXeD Case", "a  b", "地震 予測", "\U0001F30B v2",
                           "x" * 300, "null", "None", "true", "0", "-", "'single'", "back\\slash", "a/b\\c.json", "%s {0} $HOME ~"])
    if k < 0.7:
        return None
    if k < 0.75:
        return rng.random() < 0.5
    if k < 0.9:
        # numpy scalars: written through .item() (safe since 98f1bb3)
        return rng.choice([numpy.int64(rng.randrange(-50, 50)), numpy.int32(3), numpy.bool_(rng.random() < 0.5),
                           numpy.float32(1.5), numpy.uint8(200), numpy.float32(math.nan), numpy.int64(2 ** 62),
                           numpy.float16(0.1), numpy.float32(-math.inf), numpy.int64(0)])
    if allow_unsafe:
        # objects json cannot encode and that are not numpy scalars reach str(obj)
        return rng.choice([Opaque("2020-01-01 00:00:00"), Opaque("<obj>"), numpy.array([1.0, 2.0]), numpy.array([[1, 2], [3, 4]])])
    return rng.uniform(-5, 5)


class Opaque:
    """an object json cannot encode and that is not a numpy scalar: _json_default writes str(obj)"""

    def __init__(self, s):
        self.s = s

    def __str__(self):
        return self.s

    def __repr__(self):
        return f"Opaque({self.s!r})"


def gen_value(rng, depth, allow_unsafe):
    if depth > 0 and rng.random() < 0.45:
        n = rng.choice([0, 1, 2, 2, 3, 6])
        xs = [gen_value(rng, depth - 1, allow_unsafe) for _ in range(n)]
        return tuple(xs) if rng.random() < 0.5 else xs
    return gen_scalar(rng, allow_unsafe)


def gen_td(rng, allow_unsafe):
    k = rng.random()
    if k < 0.3:
        return numpy.array([rng.choice([rng.gauss(0, 1), math.nan, -math.inf, 0.0]) for _ in range(rng.choice([0, 1, 5, 40]))])
    if k < 0.4:
        return numpy.array([rng.randrange(0, 30) for _ in range(rng.choice([1, 4, 20]))])      # int64 array -> ints
    if k < 0.43:
        return numpy.array([[1.0, 2.0], [3.0, math.nan]])
    if k < 0.45:
        # non-native byte order, and a distribution longer than 2^16 (not a multiple of 2^16) with non-finite entries
        return rng.choice([numpy.array([1.5, -math.inf, math.nan, 2.0 ** 60], dtype=">f8"), numpy.array([3, -7, 2 ** 40], dtype=">i8"),
                           numpy.concatenate([numpy.arange(65536 + 17, dtype=float), [math.inf, -math.inf, math.nan]]),
                           numpy.array([7, 70000, 2 ** 31], dtype=">u4")])
    if k < 0.5:
        return rng.choice(["normal", "", "ab"])
    if k < 0.55 and allow_unsafe:
        return rng.choice([None, 3.5, 7, numpy.float64(2.5), numpy.int64(4), numpy.float32(0.5)])
    v = gen_value(rng, 2, allow_unsafe)
    return v if isinstance(v, (list, tuple)) else [v]


def dec(tokens):
    """inverse of enc for replays (tokens: list of str)"""
    it = iter(tokens)

    def one():
        t = next(it)
        h, b = t[0], t[1:]
        if h == "n":
            return None
        if h == "b":
            return b == "1"
        if h == "i":
            return int(b)
        if h in "fF":
            x = math.nan if b == "nan" else struct.unpack("<d", struct.pack("<Q", int(b)))[0]
            return x if h == "f" else numpy.float64(x)
        if h == "I":
            return numpy.int64(int(b))
        if h == "B":
            return numpy.bool_(b == "1")
        if h == "s":
            return bytes.fromhex(b).decode("utf-8")
        if h == "G":
            x = math.nan if b == "nan" else struct.unpack("<d", struct.pack("<Q", int(b)))[0]
            with numpy.errstate(all="ignore"):
                y = numpy.float32(x)
            return y if (x != x or float(y) == x) else numpy.float16(x)
        if h == "o":
            return Opaque(bytes.fromhex(b).decode("utf-8"))
        if h in "lta":
            xs = [one() for _ in range(int(b))]
            return xs if h == "l" else (tuple(xs) if h == "t" else numpy.array(xs))
        raise ValueError(t)
    return one()


def make_big(case):
    import csep.models as M
    td = numpy.concatenate([numpy.arange(case["n"], dtype=float), [math.inf, -math.inf, math.nan]]).astype(case["order"] + "f8")
    return getattr(M, case["cls"])(test_distribution=td, name="big", observed_statistic=numpy.float64(-math.inf),
                                    quantile=(0.25, math.nan), status="normal", obs_catalog_repr="", sim_name="f", obs_name="c",
                                    min_mw=4.95)


def make_synthetic(cls, fields):
    import csep.models as M
    kw = {f: dec(fields[f]) for f in FIELDS}
    return getattr(M, cls)(**kw)


# ----------------------------------------------------------------------------- regions
def gen_lattice(rng, dyadic):
    nx, ny = rng.randint(2, 7), rng.randint(2, 7)
    if dyadic:
        dh = rng.choice([0.25, 0.5, 1.0, 2.0])
        lon0 = dh * rng.randrange(-40, 40)
        lat0 = dh * rng.randrange(-20, 20)
    elif rng.random() < 0.25:
        # fine lattices: many significant decimals in origins and spacing
        dh = rng.choice([1.25e-05, 0.0004, 3e-06, 0.001])
        lon0 = round(rng.uniform(-179, 170), 8)
        lat0 = round(rng.uniform(-80, 70), 8)
    else:
        dh = rng.choice([0.1, 0.05, 0.2, 0.3, 0.01, 1.0, 0.25])
        lon0 = round(rng.uniform(-179, 170), rng.choice([0, 1, 2]))
        lat0 = round(rng.uniform(-80, 70), rng.choice([0, 1, 2]))
    cells = [(i, j) for i in range(nx) for j in range(ny)]
    if rng.random() < 0.6:
        keep = [c for c in cells if rng.random() < 0.8]
        # keep at least two columns and two rows populated (single row/column regions are known finding D4 of C01)
        if len(set(c[0] for c in keep)) >= 2 and len(set(c[1] for c in keep)) >= 2:
            # the bounding box must stay the same so that xs/ys are unchanged
            if {0, nx - 1} <= set(c[0] for c in keep) and {0, ny - 1} <= set(c[1] for c in keep):
                cells = keep
    if rng.random() < 0.5:
        rng.shuffle(cells)
    origins = [(lon0 + dh * i, lat0 + dh * j) for i, j in cells]
    return origins, dh


def probes_for(rng, origins, dh, dyadic):
    pts = []
    for (x, y) in rng.sample(origins, min(len(origins), 10)):
        pts += [(x, y), (x + dh / 2, y + dh / 2), (x + dh, y), (x, y + dh), (x + dh, y + dh)]
        if not dyadic:
            pts += [(next_down(x), y + dh / 3), (next_up(x), y + dh / 3), (x + dh / 3, next_down(y)),
                    (next_down(x + dh), y + dh / 3), (x + dh * rng.random(), y + dh * rng.random())]
    xs = [o[0] for o in origins]
    ys = [o[1] for o in origins]
    pts += [(min(xs) - dh, min(ys)), (max(xs) + 2 * dh, max(ys)), (min(xs), max(ys) + 3 * dh), (min(xs) - dh / 2, min(ys) - dh / 2)]
    return pts


def locate(region, p):
    try:
        return int(region.get_index_of([p[0]], [p[1]])[0])
    except ValueError:
        return None


def _check_region(run, drv, pend, origins, dh, mask, probes, dyadic, infer_dh, tmp, big=False):
    import csep
    from csep.core import regions
    from csep.core.regions import CartesianGrid2D
    oarr = numpy.array(origins, dtype=float)
    case = dict(mode="region", origins=[[float(a).hex(), float(b).hex()] for a, b in origins], dh=float(dh).hex(),
                mask=mask, probes=[[float(a).hex(), float(b).hex()] for a, b in probes], dyadic=dyadic, infer_dh=infer_dh)
    if big:     # the lattice is regenerated from its parameters on replay
        case = dict(mode="region", big=big, dh=float(dh).hex(), mask=None, probes=case["probes"], dyadic=False, infer_dh=False)
    try:
        if mask is None:
            r = CartesianGrid2D.from_origins(oarr, dh=None if infer_dh else dh, name="lattice")
        else:
            r = CartesianGrid2D([regions.Polygon(b) for b in regions.compute_vertices(oarr, dh)], dh, name="lattice",
                                mask=numpy.array(mask))
        a = [locate(r, p) for p in probes]
    except Exception as e:   # the lattice itself cannot be built / queried: not a serialisation matter
        run.count(f"region-unbuildable:{type(e).__name__}")
        return
    path = os.path.join(tmp, "region.json")
    try:
        csep.write_json(r, path)
        r2 = csep.load_json(CartesianGrid2D, path)
        b = [locate(r2, p) for p in probes]
    except Exception as e:
        run.case(case, None)
        if mask is None:
            run.oracle_failure(case, f"region could not be written and rebuilt: {type(e).__name__}: {e}")
        else:
            run.mismatch(dict(case, op="c18_region"), f"{type(e).__name__}: {e}", "rebuilt region exists")
        return
    on_edge = True
    run.case(case if len(origins) <= 6 else dict(mode="region", ncells=len(origins), dh=float(dh).hex(), masked=mask is not None,
                                                  dyadic=dyadic, nprobes=len(probes)),
             ("region", tuple(map(tuple, case.get("origins", [[str(big)]])[:8])), case["dh"], len(probes), mask is not None) if on_edge else None)
    run.count("region-masked" if mask is not None else "region-unmasked")
    run.extra["region_probes"] = run.extra.get("region_probes", 0) + len(probes)
    if mask is None:
        if a != b:
            j = [i for i in range(len(a)) if a[i] != b[i]][0]
            run.oracle_failure(dict(case, probes=[case["probes"][j]]),
                               f"point {probes[j]!r}: original region index {a[j]}, rebuilt region index {b[j]}")
        if not (r == r2) or r2.to_dict() != r.to_dict():
            run.oracle_failure(case, "rebuilt region's dictionary differs from the original's")
        # every other public saver / loader pair for a region, and histories around them
        from csep.core.repositories import FileSystem
        import copy
        p2 = os.path.join(tmp, "region_fs.json")
        alts = {"from_dict(to_dict())": lambda: CartesianGrid2D.from_dict(r.to_dict()),
                "from_dict(json text of to_dict())": lambda: CartesianGrid2D.from_dict(json.loads(json.dumps(r.to_dict()))),
                "FileSystem.save -> FileSystem.load": lambda: (FileSystem(url=p2).save(r.to_dict()), FileSystem(url=p2).load(CartesianGrid2D))[1],
                "write_json -> from_dict(json.load)": lambda: CartesianGrid2D.from_dict(json.load(open(path)))}
        for how, fn in alts.items():
            def rebuilt_indices(fn=fn):
                x = fn()
                return [locate(x, q) for q in probes]
            c = _try(rebuilt_indices)
            if c != a:
                j = 0 if isinstance(c, str) else [i for i in range(len(a)) if a[i] != c[i]][0]
                run.oracle_failure(dict(case, probes=[case["probes"][j]], pair=how),
                                   f"{how}: point {probes[j]!r}: original region index {a[j]}, rebuilt region gives {c if isinstance(c, str) else c[j]}")
        # the original region still indexes as before (serialising does not change it)
        a2 = _try(lambda: [locate(r, q) for q in probes])
        if a2 != a:
            run.oracle_failure(dict(case, history="serialise-changes-region"), "the region indexes differently after it was serialised")
        # history: region A rebuilt again after region B (same name, possibly same dh and cell count) went through the loaders
        prev = _HIST.get("region")
        if prev is not None:
            def again():
                x = CartesianGrid2D.from_dict(copy.deepcopy(prev[0]))
                return [locate(x, q) for q in prev[1]]
            c = _try(again)
            if c != prev[2]:
                run.oracle_failure(dict(prev[3], history="rebuild-A-after-B"),
                                   "a region dictionary rebuilt again after another region was serialised / rebuilt indexes differently")
            run.count("history:region-A-B-A")
        _HIST["region"] = (copy.deepcopy(r.to_dict()), list(probes), list(a), case)
    if dyadic:
        ostr = ";".join(f"{frac(x)},{frac(y)}" for x, y in origins)
        pstr = ";".join(f"{frac(x)},{frac(y)}" for x, y in probes)
        mstr = "-" if mask is None else ",".join("1" if m else "0" for m in mask)
        pend.append(("region", case, drv.ask(f"c18_region {ostr} {frac(dh)} {mstr} {pstr}"), (a, b)))


AWAITING_DECISION = []
# known finding D44 (known_findings.json): a spacing handed over as numpy.float32 is written as float(dh), the widened binary
# value, while the region itself was built from the decimal the float32 prints as; the rebuilt region's edges drift and points
# at lattice nodes change cell. The signature is passed ONLY for that shape of failure (float32 spacing whose widening changes
# the value, the rebuilt region exists and carries the widened spacing, every cell midpoint keeps its index); anything else
# in this class - another numeric type, a rebuild that raises, midpoints that move - is reported as a violation.
SIG_D44 = "region-dh-float32-rebuilt-with-widened-spacing"


def check_region_dhform(run, rng, form, tmp, spec=None):
    """same float64 lattice, the spacing argument in another numeric type"""
    import csep
    from csep.core.regions import CartesianGrid2D
    if spec is None:
        if form in ("int", "int64"):
            dh = rng.choice([1, 2])
            lon0, lat0 = float(rng.randrange(-100, 100)), float(rng.randrange(-50, 50))
        else:
            dh = rng.choice([0.1, 0.05, 0.2, 0.3, 0.25, 0.5])
            lon0, lat0 = round(rng.uniform(-179, 170), 1), round(rng.uniform(-80, 70), 1)
        spec = dict(lon0=lon0, lat0=lat0, dh=dh, nx=rng.randint(2, 6), ny=rng.randint(2, 6))
    dh, lon0, lat0 = spec["dh"], spec["lon0"], spec["lat0"]
    case = dict(mode="region-dhform", form=form, spec=spec)
    origins = numpy.array([(lon0 + dh * i, lat0 + dh * j) for i in range(spec["nx"]) for j in range(spec["ny"])], dtype=float)
    dhv = {"float32": numpy.float32, "float64": numpy.float64, "int": int, "int64": numpy.int64}[form](dh)
    d = float(dh)
    probes = [p for x, y in origins.tolist() for p in ((x, y), (x + d / 2, y + d / 2), (x + d / 3, y + d / 3), (x + d, y + d))]
    try:
        r = CartesianGrid2D.from_origins(origins, dh=dhv, name="lattice")
        a = [locate(r, p) for p in probes]
    except Exception as e:
        run.count(f"region-dhform-unbuildable:{form}:{type(e).__name__}")
        return
    run.case(case, ("region-dhform", form, dh, spec["nx"], spec["ny"]))
    path = os.path.join(tmp, "region_form.json")
    for how, fn in (("from_dict(to_dict())", lambda: CartesianGrid2D.from_dict(r.to_dict())),
                    ("write_json -> load_json", lambda: (csep.write_json(r, path), csep.load_json(CartesianGrid2D, path))[1])):
        def rebuilt(fn=fn):
            x = fn()
            return [locate(x, q) for q in probes], float(x.dh)
        c = _try(rebuilt)
        c, dh2 = c if isinstance(c, tuple) else (c, None)
        if c != a:
            j = 0 if isinstance(c, str) else [i for i in range(len(a)) if a[i] != c[i]][0]
            msg = (f"dh given as {form} ({dhv!r}), {how}: point {probes[j]!r}: original region index {a[j]}, rebuilt region gives "
                   f"{c if isinstance(c, str) else c[j]}")
            sig = None
            if form == "float32" and not isinstance(c, str) and float(dhv) != float(dh) and dh2 == float(dhv) \
                    and all(a[i] == c[i] for i in range(1, len(a), 4)):       # probes 1, 5, 9, … are the cell midpoints
                sig = SIG_D44
            run.oracle_failure(dict(case, pair=how), msg, signature=sig)
            run.count(f"region-dhform:{form}:{'known-finding-D44' if sig else 'DIFFERS'}")
            return
    run.count(f"region-dhform:{form}:same-index")


# ----------------------------------------------------------------------------- flush
def flush(run, drv, pend):
    out = drv.run()
    for what, case, i, impl in pend:
        o = out[i]
        if c18_tree.flush_one(run, what, case, o, impl) or c18_text.flush_one(run, what, case, o, impl):
            continue
        if what == "tables":
            classes, factory = impl
            cl, fa = o.split(";")
            mcl = sorted(cl.split("|"))
            mfa = dict(kv.split(">") for kv in fa.split("|"))
            if mcl != classes or mfa != factory:
                # what the property needs of the tables: every result class of the MODEL exists and its factory entry builds it.
                # Extra aliases / an additional class in the source are no change of behaviour for the classes the theorems speak
                # about (a new class without its own entry is reported by the oracle in check_tables): recorded, not judged
                if all(c in classes and factory.get(c) == c for c in mcl):
                    run.count("tables:source-has-extra-entries(not judged)")
                else:
                    run.mismatch(dict(case, op="c18_tables"), dict(classes=classes, factory=factory), dict(classes=mcl, factory=mfa))
        elif what == "c18_field":
            loaded, safe = impl
            parts = o.split(" ")
            if len(parts) == 3 and (parts[2] == "1") == safe and not safe and parts[1] != loaded:
                # the written form of a field that is NOT made of safe kinds (str() of an ndarray today) is incidental
                run.count("field:written-form-of-unsafe-value-differs(not judged)")
            elif len(parts) != 3 or parts[1] != loaded or (parts[2] == "1") != safe:
                run.mismatch(dict(case, op="c18_field"), [loaded, safe], o)
        elif what == "c18_td":
            loaded, _ = impl
            if o != loaded:
                if o == "err" or o[:1].isupper():
                    run.count("model-refuses-input:c18_td:implementation-differs(not judged)")   # e.g. a scalar distribution
                else:
                    run.mismatch(dict(case, op="c18_td"), loaded, o)
        elif what == "factory":
            if o != impl:
                if case.get("mode") == "unknown-class":
                    # what the loader does with a class name that NO result class has (KeyError today) is an incidental
                    # behaviour the property does not speak about: recorded, not judged
                    run.count(f"unknown-stored-class:implementation={impl}:model={o}(not judged)")
                else:
                    run.mismatch(dict(case, op="c18_factory"), impl, o)
        elif what == "region":
            a, b = impl
            sh = lambda l: ",".join("n" if v is None else str(v) for v in l) if l else "-"
            if o != sh(a) + ";" + sh(b):
                run.mismatch(dict(case, op="c18_region"), sh(a) + ";" + sh(b), o)


def _guarded(run, case, what, fn, *a, **kw):
    """a deviation of the implementation that trips the check routine itself (unexpected type / shape / exception) is a
    reported difference with the case as replay, never a harness crash (RuntimeError = the harness's own trusted-base
    assertions, kept as crashes)"""
    try:
        return fn(*a, **kw)
    except RuntimeError:
        raise
    except Exception as e:
        import traceback
        tb = traceback.extract_tb(e.__traceback__)[-1]
        run.mismatch(dict(case, op=what), f"{type(e).__name__}: {e} ({os.path.basename(tb.filename)}:{tb.lineno})"[:300],
                     f"{what}: outputs of the expected shape and type")


def check_result(run, drv, pend, res, case, produced_by_library, tmp):
    return _guarded(run, case, "check_result", _check_result, run, drv, pend, res, case, produced_by_library, tmp)


def check_region(run, drv, pend, origins, dh, mask, probes, dyadic, infer_dh, tmp, big=False):
    case = dict(mode="region", big=big, probes=[[float(a).hex(), float(b).hex()] for a, b in probes], dh=float(dh).hex()) if big else \
        dict(mode="region", origins=[[float(a).hex(), float(b).hex()] for a, b in origins], dh=float(dh).hex(), mask=mask,
             probes=[[float(a).hex(), float(b).hex()] for a, b in probes], dyadic=dyadic, infer_dh=infer_dh)
    return _guarded(run, case, "check_region", _check_region, run, drv, pend, origins, dh, mask, probes, dyadic, infer_dh, tmp, big=big)


# ----------------------------------------------------------------------------- run
def run_eval(run, drv, pend, sub_seed, variant, tmp, only=None):
    rng = random.Random(sub_seed)
    with quiet():
        inp = make_inputs(rng, variant)
    for label, fn in calls(inp):
        if only and label != only:
            continue
        case = dict(mode="eval", label=label, variant=variant, sub_seed=sub_seed)
        try:
            with quiet(), time_limit(30):
                res = fn()
        except EvalTimeout:      # a non-terminating evaluation (cf. known finding D10 of C06) produces no result
            run.count(f"eval-timeout:{label}:{variant}")
            run.assumptions.append(f"{label} did not finish within 30 s on sub_seed={sub_seed} variant={variant}: skipped")
            continue
        except Exception as e:   # an evaluation that raises produces no result: outside C18 (other properties)
            run.count(f"eval-raised:{label}:{type(e).__name__}")
            continue
        if res is None:
            run.count(f"no-result:{label}:{variant}")
            continue
        c18_calls.check_produced(run, case, res)
        check_result(run, drv, pend, res, case, True, tmp)


def run(run, rng, tier):
    drv, pend = Driver(), []
    thorough = tier == "thorough"
    _HIST.update(prev=None, n=0, region=None)
    with tempfile.TemporaryDirectory(prefix="c18_") as tmp:
        cdir = os.path.join(os.path.dirname(os.path.dirname(os.path.abspath(__file__))), "corpus", "C18")
        if os.path.isdir(cdir):
            for f in sorted(os.listdir(cdir)):
                if f.endswith(".json"):
                    replay(run, json.load(open(os.path.join(cdir, f))), _ctx=(drv, pend, tmp))
        classes = check_tables(run, drv, pend)
        c18_calls.define_user_classes()      # (j) same-name classes of the calling program exist during the whole run
        c18_calls.check_producers(run, classes, extract_tables()[1])
        # 1. every evaluation function on generated inputs
        reps = 60 if thorough else 10
        for variant in VARIANTS:
            for _ in range(reps):
                run_eval(run, drv, pend, rng.randrange(2 ** 31), variant, tmp)
        # 2. synthetic results of every class, all kinds of values
        for cls in sorted(classes):
            for _ in range(300 if thorough else 40):
                allow_unsafe = rng.random() < 0.5
                vals = {f: gen_value(rng, 2, allow_unsafe) for f in FIELDS}
                vals["test_distribution"] = gen_td(rng, allow_unsafe)
                fields = {f: enc(vals[f], td=(f == "test_distribution")) for f in FIELDS}
                case = dict(mode="synthetic", cls=cls, fields=fields)
                try:
                    res = make_synthetic(cls, fields)
                except Exception:
                    continue
                check_result(run, drv, pend, res, case, False, tmp)
        # SIZES / VALUE CLASSES, deterministic: a distribution of more than 2^16 entries (not a multiple of 2^16) ending in
        # inf, -inf, nan, a -inf statistic, non-native byte order — one class per quick run, every class in thorough
        for cls in (sorted(classes) if thorough else [rng.choice(sorted(classes))]):
            n = 65536 + rng.randrange(1, 400)
            case = dict(mode="synthetic-big", cls=cls, n=n, order=rng.choice(["<", ">"]))
            check_result(run, drv, pend, make_big(case), case, False, tmp)
            run.count("synthetic-big(>2^16 distribution)")
        # unknown class name stored in the file: KeyError in the library, `none` in the model
        import csep
        p = os.path.join(tmp, "unk.json")
        json.dump({"type": "NoSuchResult"}, open(p, "w"))
        try:
            csep.load_evaluation_result(p)
            got = "loaded"
        except KeyError:
            got = "KeyError"
        except Exception as e:
            got = type(e).__name__
        pend.append(("factory", dict(mode="unknown-class"), drv.ask(f"c18_factory {hexs('NoSuchResult')}"), got))
        # 3. regions
        for i in range(600 if thorough else 120):
            dyadic = i % 3 == 0
            origins, dh = gen_lattice(rng, dyadic)
            probes = probes_for(rng, origins, dh, dyadic)
            infer = (not dyadic) and rng.random() < 0.2 and len(origins) >= 2
            if infer:
                # from_origins infers dh from the first two origins: make them neighbours
                origins = sorted(origins)
                if abs(abs(origins[1][1] - origins[0][1]) - dh) > dh / 2 and abs(abs(origins[1][0] - origins[0][0]) - dh) > dh / 2:
                    infer = False
            check_region(run, drv, pend, origins, dh, None, probes, dyadic, infer, tmp)
            if dyadic:
                mask = [1 if rng.random() < 0.7 else 0 for _ in origins]
                check_region(run, drv, pend, origins, dh, mask, probes, True, False, tmp)
        # 3c. ARGUMENT FORMS of the spacing: dh handed over as numpy.float32 / numpy.float64 / int / numpy.int64 (the lattice
        #     itself is the same float64 lattice); the rebuilt region must index every probe like the original
        for i in range(200 if thorough else 24):
            check_region_dhform(run, rng, ["float32", "float64", "int", "int64"][i % 4], tmp)
        # 4. value trees with dictionaries, whole files, EvaluationConfiguration / Event / FileSystem, region dictionaries
        c18_tree.run_all(run, drv, pend, rng, thorough, tmp)
        # 5. round 4: the JSON TEXT layer (model's writer / parser against the real files), and the round trips of the property
        #    under other process environments (locale / text encoding) in a child process
        c18_text.run_all(run, drv, pend, rng, thorough, tmp)
        c18_text.check_depth(run, drv, pend, tmp)
        c18_text.run_envs(run, rng, thorough, classes)
        # 6. round 6: call shapes (positional / keyword, alternative entry points), numeric extremes, caller-owned objects, process state
        c18_calls.run_all(run, rng, thorough, tmp, classes)
        # 3b. SIZES: a lattice of more than 2^16 cells (257 x 256), probes in cells whose index exceeds 65535
        for _ in range(2 if thorough else 1):
            dh = rng.choice([0.1, 0.25])
            lon0, lat0 = rng.choice([-30.0, 100.0]), rng.choice([-20.0, 10.0])
            nx, ny = 257 + rng.randrange(3), 256
            origins = [(lon0 + dh * i, lat0 + dh * j) for i in range(nx) for j in range(ny)]
            last = [origins[k] for k in (rng.sample(range(65536, nx * ny), 10) + [nx * ny - 1, 65536, 65535, 0])]
            probes = [(x + dh / 2, y + dh / 2) for x, y in last] + [(x, y) for x, y in last[:4]] + [(lon0 - dh, lat0)]
            try:
                check_region(run, drv, pend, origins, dh, None, probes, False, False, tmp,
                             big=dict(lon0=lon0, lat0=lat0, dh=dh, nx=nx, ny=ny))
            except Exception as e:
                run.mismatch(dict(mode="region", big=True, ncells=nx * ny), f"{type(e).__name__}: {e}"[:200], "a region of > 2^16 cells round-trips")
            run.count("region-big(>2^16 cells)")
        flush(run, drv, pend)


def replay(run, payload, _ctx=None):
    case = payload.get("case", payload)
    if _ctx:
        drv, pend, tmp = _ctx
        _replay_one(run, drv, pend, case, tmp)
        return
    drv, pend = Driver(), []
    with tempfile.TemporaryDirectory(prefix="c18_") as tmp:
        _replay_one(run, drv, pend, case, tmp)
        flush(run, drv, pend)


def _replay_one(run, drv, pend, case, tmp):
    mode = case.get("mode")
    if mode == "text-depth":
        c18_text.check_depth(run, drv, pend, tmp)
    elif mode == "calls":
        c18_calls.run_case(run, case["sub"], case["sub_seed"], tmp, extract_tables()[0])
    elif mode == "producers":
        c18_calls.check_producers(run, extract_tables()[0], extract_tables()[1])
    elif mode == "region-dhform":
        check_region_dhform(run, None, case["form"], tmp, spec=case["spec"])
    elif mode == "env":
        c18_text.check_env(run, case["env"], [case["spec"]])
    elif mode == "tree":
        c18_tree.run_case(run, drv, pend, case["section"], case["sub_seed"], tmp)
    elif mode == "eval":
        run_eval(run, drv, pend, case["sub_seed"], case["variant"], tmp, only=case["label"])
    elif mode == "synthetic-big":
        check_result(run, drv, pend, make_big(case), dict(mode="synthetic-big", cls=case["cls"], n=case["n"], order=case["order"]),
                     False, tmp)
    elif mode == "synthetic":
        res = make_synthetic(case["cls"], case["fields"])
        check_result(run, drv, pend, res, dict(mode="synthetic", cls=case["cls"], fields=case["fields"]),
                     False, tmp)
    elif mode == "region" and case.get("big"):
        g = case["big"]
        origins = [(g["lon0"] + g["dh"] * i, g["lat0"] + g["dh"] * j) for i in range(g["nx"]) for j in range(g["ny"])]
        probes = [(float.fromhex(a), float.fromhex(b)) for a, b in case["probes"]]
        check_region(run, drv, pend, origins, g["dh"], None, probes, False, False, tmp, big=g)
    elif mode == "region":
        origins = [(float.fromhex(a), float.fromhex(b)) for a, b in case["origins"]]
        probes = [(float.fromhex(a), float.fromhex(b)) for a, b in case["probes"]]
        check_region(run, drv, pend, origins, float.fromhex(case["dh"]), case.get("mask"), probes,
                     case.get("dyadic", False), case.get("infer_dh", False), tmp)
    else:
        check_tables(run, drv, pend)
