"""C04 — catalog filtering: correspondence of CSEPCatalog.filter / filter_spatial / csep.load_catalog(apply_filters=True)
with Model/Filter.lean + direct oracle (Fraction list comprehension) + metamorphic checks on the implementation's own outputs."""
import datetime
import decimal
import math
import os
import tempfile
from fractions import Fraction

import numpy

from .core import Driver, frac
from .c04_mct import _guarded

LEVEL_TEXT = ("Proof: filtering by any list of statements equals one pass keeping exactly the rows for which every statement "
              "holds (order, multiplicity, fields unchanged), is invariant under statement permutation and grouping, idempotent; "
              "datetime statements equal origin-time statements at the epoch millisecond; in_place=False leaves every existing "
              "object's events untouched; spatial filter keeps exactly the events in a half-open cell. Unbounded in events, "
              "statements and call histories (induction, kernel-checked). Tied to the code by call histories on generated catalogs. "
              "apply_mct (time-dependent completeness cut) is inside the model: on a time-sorted catalog it keeps exactly the rows that "
              "are not (in [event_epoch, t_crit_epoch] and below the completeness magnitude), is idempotent and commutes with statement "
              "and spatial filters; on any catalog it is that cut on the rows in front of the first row later than t_crit; the filter "
              "stage of CatalogForecast.__next__ (filter, apply_mct, filter_spatial) is one pass with the conjunction of the three "
              "predicates. NaN and infinite values are in the model (IEEE comparison): a NaN attribute satisfies no statement, a "
              "statement and its complement do not cover such rows, and on finite catalogs the extended filter is the finite one. "
              "The spatial filter on quadtree regions keeps exactly the events inside a half-open tile. "
              "Round 4: the statement TEXT is inside the model (Model/FilterText.lean): str.split(' '), the column and operator "
              "lookups, float(value) incl. nan / inf words, digit groups, blanks and overflow, strptime_to_utc_epoch with its format "
              "selection, CPython's field grammar and the discarded UTC offset. Proved for every text: every statement "
              "'<column> <op> <value text>' over the five columns and operators reads as (column, operator, float(value text)); a "
              "datetime statement and the origin-time statement written for the same millisecond are the same statement; a "
              "statement is read only with exactly three / four single-space tokens; filtering by a list of statement strings = "
              "read all (first failure raises, rows untouched) then one pass with the conjunction, independent of the order and "
              "grouping of the strings. The int64 origin-time column compared with a float threshold is modelled as numpy does it "
              "(conversion to float64) and proved to be the exact comparison for every instant datetime can represent (sharp: "
              "differs at 2^53+1 ms).")
LEVEL_NOTE = ("Statement text (round 4): the model reads the characters itself; texts are ASCII (Unicode digits / blanks that float() and "
              "re also accept are not modelled, never generated). The history / metamorphic / mct generators of earlier rounds still "
              "hand parsed statements to the model (thresholds written with repr, civil date fields); c04_text hands over the raw "
              "strings. Texts that are not statements (doubled space, unknown operator / column, a value float() rejects, an "
              "impossible date) are outside the property: only the agreement model-raises <=> code-raises is recorded. A datetime "
              "text with a UTC offset other than +00:00 is parsed and the offset discarded by the code (W-C04-4, awaiting a "
              "decision, not generated). The region lookup inside filter_spatial is the exact half-open cell "
              "test; events in the documented round-off band just below a cell edge are excluded from the comparison (C01/C02). "
              "The two transcendental floats of apply_mct (10**x for t_crit, log10 for the completeness magnitude) are inputs of the "
              "model, computed by the harness with the code's formulas; magnitudes within 1e-9 of the completeness magnitude are not "
              "compared.")
DESIGN_REF = "DESIGN.md §4 C04"
TECHNIQUE = "Lean 4 proof over an exact executable model + differential correspondence on call histories + exact oracle"

THEOREMS = ["CatFilter.holds_iff", "CatFilter.holds_at_threshold", "CatFilter.holds_originTime_frac",
            "CatFilter.holds_originTime_eq_frac", "CatFilter.filter_eq", "CatFilter.filter_mem_iff",
            "CatFilter.filter_count", "CatFilter.filter_sublist", "CatFilter.filter_perm", "CatFilter.filter_append",
            "CatFilter.filter_single", "CatFilter.filter_separately", "CatFilter.filter_comm", "CatFilter.filter_idem",
            "CatFilter.datetime_stmt_eq", "CatFilter.datetime_holds_iff", "CatFilter.datetime_floor_ms",
            "CatFilter.not_in_place_preserves_original", "CatFilter.in_place_returns_self",
            "CatFilter.step_filter_events", "CatFilter.step_spatial_events", "CatFilter.step_filter_none_iff",
            "CatFilter.call_not_in_place_preserves", "CatFilter.call_in_place_others", "CatFilter.chain_in_place",
            "CatFilter.filterSpatial_eq", "CatFilter.filterSpatial_mem_iff", "CatFilter.filterSpatial_sublist",
            "CatFilter.loadApply_region", "CatFilter.loadApply_no_region", "CatFilter.loadApply_no_filters",
            # apply_mct, filter stage of CatalogForecast.__next__, spatial filter extras (Properties/C04_Mct.lean)
            "CatFilter.applyMct_eq_loop", "CatFilter.applyMct_nil", "CatFilter.finding_d37_unrepaired", "CatFilter.mct_eq_prefix",
            "CatFilter.mct_sorted_eq_filter", "CatFilter.mct_mem_iff", "CatFilter.mct_count", "CatFilter.mct_sublist",
            "CatFilter.mct_idem", "CatFilter.applyMct_twice", "CatFilter.mct_comm_rowfilter", "CatFilter.mct_comm_filter",
            "CatFilter.mct_comm_spatial", "CatFilter.filters_preserve_sorted", "CatFilter.filterSpatial_comm_filter",
            "CatFilter.filterSpatial_count", "CatFilter.stepMct_in_place", "CatFilter.next_all_stages", "CatFilter.next_off",
            "CatFilter.next_mct_empty_ok", "CatFilter.filterSpatialQuad_mem_iff", "CatFilter.filterSpatialQuad_sublist",
            "CatFilter.filterSpatialQuad_idem", "CatFilter.filterSpatialQuad_comm_filter", "CatFilter.filterSpatialQuad_single_tile",
            # NaN / infinite attribute values and thresholds (Properties/C04_Nan.lean)
            "CatFilter.holdsF_nan_attr", "CatFilter.holdsF_nan_threshold", "CatFilter.filterF_eq", "CatFilter.filterF_mem_iff",
            "CatFilter.nan_row_removed", "CatFilter.holdsF_compl", "CatFilter.compl_both_false_on_nan", "CatFilter.holdsF_inf_attr",
            "CatFilter.filterF_perm", "CatFilter.filterF_append", "CatFilter.filterF_idem", "CatFilter.holdsF_toF",
            "CatFilter.filterF_toF",
            # round 4: the statement text (Properties/C04_Text.lean), the int64 column in a float comparison (C04_Int64.lean)
            "CatFilter.splitSpace_join", "CatFilter.splitSpace_double", "CatFilter.opOfSym_some_iff", "CatFilter.attrOfName_some_iff",
            "CatFilter.parse_render_num", "CatFilter.parse_render_badfloat", "CatFilter.parse_render_datetime",
            "CatFilter.datetime_text_eq_origin_text", "CatFilter.parse_ok_shape", "CatFilter.parse_token_count",
            "CatFilter.parse_double_space", "CatFilter.filterTexts_eq", "CatFilter.filterTexts_ok", "CatFilter.filterTexts_error",
            "CatFilter.filterTexts_append", "CatFilter.filterTexts_perm_ok", "CatFilter.finding_tz_offset_discarded",
            "CatFilter.holdsCode_eq_holds", "CatFilter.datetime_range_exact", "CatFilter.filterCode_eq_filter",
            "CatFilter.int64_beyond_2p53_differs", "C04Tables.operators_sound", "C04Tables.tags_sem"]
TRUSTED = ["Lean 4.33 kernel", "axioms: propext, Classical.choice, Quot.sound at most",
           "numpy boolean-mask indexing keeps the rows with a true mask, in order (modelled as List.filter)",
           "numpy converts the int64 origin_time column to float64 (round to nearest even) for the comparison with a Python float "
           "(NEP 50); proved exact on datetime's range",
           "CPython's float(str) and _strptime on ASCII text are what Model/DecimalText.lean / FilterText.lean transcribe "
           "(validated on every run: c04_float / c04_strp against float() and strptime_to_utc_epoch on every generated token, "
           "incl. ties between neighbouring doubles, overflow, denormals); Soft64.fl64 is binary64 rounding",
           "region cell lookup (bin1d_vec, cleaner_range) is the subject of C01/C02; here only its half-open result is used",
           "apply_mct: t_crit_epoch and the per-event decision `mw < m_main - 4.5 - 0.75*log10(days)` are computed by the harness "
           "(same formulas, float64) and handed to the model; numpy.log10(0) = -inf (an event at the mainshock instant is removed)",
           "harness/c04.py, harness/c04_mct.py generators, canonicalisation and comparison; driver parsing (Drive/C04.lean, Proto.lean)"]
RULE = ("histories of 1..6 calls (filter with string / list / tuple / None statements, filter_spatial; both in_place values; any "
        "object of the history as target) on catalogs of 0..50 events whose attribute values come from small pools (ties); "
        "thresholds drawn from the catalog's own values (equality), their 1-ulp / 1-ms neighbours, own values moved by a "
        "fraction of a unit (origin_time thresholds that are not whole milliseconds: X+-0.5, X+-0.4, 1000*timestamp(), negative "
        "fractions; same offsets on the float columns), or at random; all 5 "
        "attributes x 5 operators; datetime statements in 4 text layouts at millisecond boundaries with sub-millisecond digits; "
        "after every call every object of the history is snapshotted (ids in order + all fields). A history is non-trivial "
        "when some call kept a proper non-empty subset or hit a threshold equal to an event's value; distinct by "
        "(events, calls). Metamorphic: shuffled / split / repeated statement lists and datetime-vs-origin_time on the "
        "implementation's own outputs. load_catalog(apply_filters=True) with custom loader and with a written csep-csv file. "
        "apply_mct: 1..40 rows, 80 % time-sorted, rows before / exactly at / 1 ms after the mainshock instant, exactly at t_crit_epoch "
        "(when t_crit is exactly 1 / 10 / 100 days) and 1 ms later, magnitudes at the completeness magnitude +-1e-6 .. +-2, event_epoch "
        "as int / numpy.int64 / float, second call, commutation with statement filters; CatalogForecast.__next__ with every "
        "combination of carried filters / apply_mct / filter_spatial / apply_filters over two passes; filter and filter_spatial "
        "(update_stats, both in_place) incl. calls that keep every row, where the returned catalog must still share no row storage "
        "with the original. NaN / +-inf attribute values (25 % of depths) and NaN / inf thresholds through list / shuffled / "
        "one-by-one / repeated application and statement-complement pairs; sessions of 3-8 steps on two catalogs sharing one "
        "region object (Cartesian or quadtree) with filter / filter() / filter_spatial / apply_mct in both in_place modes and "
        "writes of the caller into an event array in between; catalogs from structured arrays in native and non-native byte "
        "order; catalogs of 65537..131079 events; empty catalogs through apply_mct and the forecast's filter stage. The class in "
        "c04_mct.AWAITING_DECISION (NaN coordinates with a Cartesian region in filter_spatial) is not generated. "
        "Round 4 (c04_text): 1-3 statement STRINGS per case handed to the model as characters: value texts as repr / %.17e / %.17g "
        "/ %.16E / %.20e, the exact decimal expansion of the double, the exact midpoint of two neighbouring doubles (tie, just "
        "above, just below), short decimals ('5', '5.', '.5'), digit groups (1_246_406), leading zeros, explicit '+', exponent "
        "forms (e / E, signed, zero-padded), overflow / underflow / denormal literals, nan / inf / infinity in any case and sign, "
        "blanks other than the space around the value; datetime texts with padded / unpadded fields, 0-6 fraction digits, "
        "+00:00 suffix, a tab after the blank; call forms string-by-string / list / tuple / statements= keyword / numpy.str_ / "
        "positional in_place / stored filters + filter() / load_catalog(apply_filters=True) / CatalogForecast.__next__; catalogs "
        "from lists and native / big-endian structured arrays, NaN / inf attribute values, instants at both ends of datetime's "
        "range. Oracle: what each text denotes (exact Fraction rounded once by integer division; integer calendar arithmetic). "
        "30 % of the cases add a text that is not a statement (12 malformation kinds): recorded only. The class in "
        "c04_text.AWAITING_DECISION (datetime text with a non-zero UTC offset; parked as outside the property) is not generated. "
        "Round 6: every call of a history in one of three call forms (in_place / update_stats / region / statements positionally "
        "in signature order, by keyword, mixed); the caller's statement list compared with a copy after the call; catalogs just "
        "above 500 / 2000 / 5000 / 2^16 events (c04_mct.sized_case), time-sorted and unsorted, heavy ties, thresholds equal to a "
        "row of an early block / the middle / the last row / +-1, all columns and operators, datetime form, exact numpy oracle, "
        "original untouched and no shared memory with in_place=False; apply_mct positionally and by keywords.")

ATTRS = [("origin_time", "t"), ("latitude", "lat"), ("longitude", "lon"), ("depth", "dep"), ("magnitude", "mag")]
OPS = [(">", "gt"), ("<", "lt"), (">=", "ge"), ("<=", "le"), ("==", "eq")]
OPF = {"gt": lambda a, v: a > v, "lt": lambda a, v: a < v, "ge": lambda a, v: a >= v, "le": lambda a, v: a <= v,
       "eq": lambda a, v: a == v}
COL = {"t": 1, "lat": 2, "lon": 3, "dep": 4, "mag": 5}
EPOCH = datetime.datetime(1970, 1, 1)
# fractional distances of a threshold from a whole number (a millisecond for origin_time, an integer-valued attribute otherwise)
FRAC_OFFSETS = [0.5, -0.5, 0.5, -0.5, 0.4, -0.4, 0.6, -0.6, 0.25, -0.25, 0.75, -0.75, 0.999, -0.999, 0.001, -0.001, 0.125, -0.125]


# ----------------------------------------------------------------------------- canonical forms
def snapshot(cat):
    """rows of a catalog object as tuples (id, ms, lat.hex, lon.hex, depth.hex, mag.hex)"""
    out = []
    for row in cat.catalog:
        out.append((int(row["id"].decode()), int(row["origin_time"]), float(row["latitude"]).hex(),
                    float(row["longitude"]).hex(), float(row["depth"]).hex(), float(row["magnitude"]).hex()))
    return out


def row_of(ev):
    """event (id, ms, lat, lon, dep, mag) -> snapshot tuple"""
    return (ev[0], ev[1], float(ev[2]).hex(), float(ev[3]).hex(), float(ev[4]).hex(), float(ev[5]).hex())


def rowval(row, key):
    i = COL[key]
    return Fraction(row[1]) if i == 1 else Fraction(float.fromhex(row[i]))


def holds(row, st):
    return OPF[st["op"]](rowval(row, st["attr"]), Fraction(st["value"]))


def enc_events(rows):
    if not rows:
        return "-"
    return ";".join(",".join([str(r[0]), str(r[1])] + [frac(float.fromhex(h)) for h in r[2:]]) for r in rows)


def enc_stmts(sts):
    return ";".join(s["enc"] for s in sts) if sts else "-"


def enc_region(reg):
    if reg is None:
        return "none"
    return ",".join([frac(reg["dh"])] + [frac(v) for o in reg["origins"] for v in o])


# ----------------------------------------------------------------------------- generators
def gen_events(rng, n):
    base = rng.choice([1246406400000, 0, -1097606850620, 946684800000, 4102444800000 - 5, -2208988800000 + 7,
                       rng.randrange(-2 * 10 ** 12, 4 * 10 ** 12)])
    tpool = [base + rng.choice([0, 1, -1, 2, 999, 1000, 1001, 86400000, rng.randrange(-10 ** 9, 10 ** 9)])
             for _ in range(rng.randint(1, 6))]
    mpool = [round(rng.uniform(2, 8), rng.choice([1, 1, 2]))for _ in range(rng.randint(1, 5))] + [rng.uniform(2, 8)]
    dpool = [float(rng.randrange(0, 40)) for _ in range(rng.randint(1, 4))] + [rng.uniform(0, 700), 0.0]
    lo0, la0 = rng.choice([(-118.0, 35.0), (0.0, 0.0), (172.5, -41.2), (-0.5, -0.5), (10.0, 45.0)])
    lopool = [round(lo0 + 0.1 * rng.randrange(-3, 8), 1) for _ in range(rng.randint(1, 5))] + [lo0 + rng.uniform(-1, 1)]
    lapool = [round(la0 + 0.1 * rng.randrange(-3, 8), 1) for _ in range(rng.randint(1, 5))] + [la0 + rng.uniform(-1, 1), -0.0]
    evs = []
    for i in range(n):
        if evs and rng.random() < 0.1:  # exact duplicate of an earlier row under a new id
            e = rng.choice(evs)
            evs.append((i + 1,) + e[1:])
        else:
            evs.append((i + 1, rng.choice(tpool), rng.choice(lapool), rng.choice(lopool), rng.choice(dpool), rng.choice(mpool)))
    ids = list(range(1, n + 1))
    rng.shuffle(ids)  # ids are labels, not positions
    return [(ids[i],) + e[1:] for i, e in enumerate(evs)]


def ms_to_datetime(ms, us_extra):
    return EPOCH + datetime.timedelta(milliseconds=ms) + datetime.timedelta(microseconds=us_extra)


def gen_stmt(rng, rows, allow_dt=True):
    """one statement: dict(text, enc, attr, op, value[str Fraction], kind)"""
    name, key = rng.choice(ATTRS)
    sym, op = rng.choice(OPS)
    own = [rowval(r, key) for r in rows]
    if key == "t":
        if own and rng.random() < 0.75:
            v = int(rng.choice(own)) + rng.choice([0, 0, 0, 1, -1])
        else:
            v = rng.randrange(-2 * 10 ** 12, 4 * 10 ** 12)
        if allow_dt and rng.random() < 0.5 and -12 * 10 ** 12 < v < 30 * 10 ** 12:
            us = rng.choice([0, 0, 1, 500, 999])
            layout = rng.choice(["naive-frac", "naive-nofrac", "aware-str", "aware-frac"])
            if layout == "naive-nofrac" or (layout == "aware-str" and rng.random() < 0.3):
                v, us = v - v % 1000, 0     # whole second: the text carries no fraction
            dt = ms_to_datetime(v, us)
            if layout == "naive-frac":
                s = dt.strftime("%Y-%m-%d %H:%M:%S.%f")
            elif layout == "naive-nofrac":
                s = dt.strftime("%Y-%m-%d %H:%M:%S")
            elif layout == "aware-str":  # the layout used by tests/test_catalog.py: str() of an aware datetime
                s = str(dt.replace(tzinfo=datetime.timezone.utc))
            else:
                s = dt.strftime("%Y-%m-%d %H:%M:%S.%f") + "+00:00"
            enc = f"dt,{op},{dt.year},{dt.month},{dt.day},{dt.hour},{dt.minute},{dt.second},{dt.microsecond}"
            return dict(text=f"datetime {sym} {s}", enc=enc, attr="t", op=op, value=str(v), kind="datetime:" + layout)
        if rng.random() < 0.3:
            # threshold that is NOT a whole number of milliseconds: the int64 column is compared with the double as it is
            # (no truncation / rounding of the threshold to the column's dtype). Around an own instant X (or 0, -1, 1):
            # midpoints X +- 0.5, X +- 0.4, X +- 0.999.., 1000 * datetime.timestamp() style values, negative fractions.
            if rng.random() < 0.15:
                v = rng.choice([0, 0, 1, -1, 2, -2])
            kk = rng.random()
            if kk < 0.55:
                off = rng.choice(FRAC_OFFSETS)
            elif kk < 0.8:
                off = rng.uniform(-1.0, 1.0)
            else:
                off = None
            if off is None:   # 1000 * datetime.timestamp() of an instant with microseconds (e.g. 1577836800123.4)
                fv = 1000 * (float(v) / 1000.0 + rng.randrange(1, 1000) * 1e-6)
            else:
                fv = float(v) + off
            txt = rng.choice([repr(fv), repr(fv), format(fv, ".17e"), format(fv, ".17g")])
            assert float(txt) == fv and " " not in txt
            kind = "origin_time-frac" if Fraction(fv).denominator != 1 else "origin_time"
            return dict(text=f"{name} {sym} {txt}", enc=f"t,{op},{frac(fv)}", attr="t", op=op, value=str(Fraction(fv)),
                        kind=kind)
        if rng.random() < 0.5:
            txt = str(v)                      # integer text, as tests/test_catalog.py writes it
        else:
            txt = repr(float(v))
        assert float(txt) == v
        return dict(text=f"{name} {sym} {txt}", enc=f"t,{op},{v}", attr="t", op=op, value=str(v), kind="origin_time")
    k = rng.random()
    if own and k < 0.5:
        v = float(rng.choice(own))
    elif own and k < 0.65:
        v = float(rng.choice(own))
        v = float(numpy.nextafter(v, rng.choice([-numpy.inf, numpy.inf])))
    elif own and k < 0.8:
        # an own value (or its integer part / 0) moved by a fraction of a unit: thresholds such as X.5, -0.5, X +- 0.4 must be
        # compared as they are (not truncated, rounded or cast)
        v = float(rng.choice(own))
        if rng.random() < 0.5:
            v = float(math.trunc(v))
        if rng.random() < 0.15:
            v = rng.choice([0.0, -0.0, 1.0, -1.0])
        v = v + (rng.choice(FRAC_OFFSETS) if rng.random() < 0.7 else rng.uniform(-1.0, 1.0))
    else:
        lo, hi = {"lat": (-90, 90), "lon": (-180, 180), "dep": (0, 700), "mag": (0, 10)}[key]
        v = rng.choice([rng.uniform(lo, hi), float(rng.randrange(lo, hi + 1)), round(rng.uniform(lo, hi), 1)])
    txt = repr(v) if rng.random() < 0.85 else rng.choice([format(v, ".17e"), format(v, ".17g")])
    assert float(txt) == v and " " not in txt
    return dict(text=f"{name} {sym} {txt}", enc=f"{key},{op},{frac(v)}", attr=key, op=op, value=str(Fraction(v)), kind=key)


def dec_grid(i, dh_text):
    return float(decimal.Decimal(i) * decimal.Decimal(dh_text))


def gen_region(rng, rows):
    """lattice region with >= 2 columns and >= 2 rows (single row/column regions are C01's known finding D4), holes allowed;
    origins are nearest doubles of decimals so that the lookup edges equal the origins"""
    dh_text = rng.choice(["0.1", "0.1", "0.5", "0.25", "1", "0.05", "2"])
    dh = float(dh_text)
    if rows and rng.random() < 0.7:
        r = rng.choice(rows)
        cx, cy = float.fromhex(r[3]), float.fromhex(r[2])
    else:
        cx, cy = rng.uniform(-170, 170), rng.uniform(-80, 80)
    i0 = int(numpy.floor(cx / dh)) - rng.randrange(0, 3)
    j0 = int(numpy.floor(cy / dh)) - rng.randrange(0, 3)
    nx, ny = rng.randint(2, 6), rng.randint(2, 6)
    cells = [(i, j) for i in range(nx) for j in range(ny)]
    keep = [c for c in cells if rng.random() < 0.8]
    # keep both extreme columns / rows so the bounding box has >= 2 columns and rows
    for c in [(0, 0), (nx - 1, ny - 1)]:
        if c not in keep:
            keep.append(c)
    rng.shuffle(keep)
    # round 7: cells that are part of the grid but carry the mask flag 0 (as in forecast files with a mask column): they belong
    # to the region object, not to the region — events inside them lie outside.  The two bounding-box corners stay active.
    masked = []
    if rng.random() < 0.35:
        masked = [c for c in keep if c not in [(0, 0), (nx - 1, ny - 1)] and rng.random() < 0.35]
        keep = [c for c in keep if c not in masked]
    origins = [(dec_grid(i0 + i, dh_text), dec_grid(j0 + j, dh_text)) for i, j in keep]
    reg = dict(dh=dh, dh_text=dh_text, origins=[[x, y] for x, y in origins])
    if masked:
        reg["masked"] = [[dec_grid(i0 + i, dh_text), dec_grid(j0 + j, dh_text)] for i, j in masked]
    # (h) COPIES BEFORE USE: the region object is replaced by a copy / deep copy / pickle image / dict image before it is used
    if rng.random() < 0.4:
        reg["copy"] = rng.choice(COPY_FORMS)
    return reg


def place_events_in_region(rng, evs, reg):
    """move some events onto interesting points of the region: lower corners, centres, just inside upper faces, in the band,
    outside, hole-ish neighbours"""
    dh = reg["dh"]
    out = []
    for e in evs:
        if reg.get("masked") and rng.random() < 0.25:
            ox, oy = rng.choice(reg["masked"])                 # inside a cell with mask flag 0: outside the region
            out.append((e[0], e[1], float(oy + dh * rng.choice([0.5, 0.25, 0.0])), float(ox + dh * rng.choice([0.5, 0.25, 0.0])), e[4], e[5]))
        elif rng.random() < 0.7:
            ox, oy = rng.choice(reg["origins"])
            k = rng.choice(["corner", "centre", "upper-in", "upper-on", "band", "left-out", "far", "edge-x", "edge-y"])
            if k == "corner":
                lon, lat = ox, oy
            elif k == "centre":
                lon, lat = ox + dh / 2, oy + dh / 2
            elif k == "upper-in":
                lon, lat = ox + dh * (1 - 1e-6), oy + dh * (1 - 1e-6)
            elif k == "upper-on":   # on the upper face: belongs to the neighbour (if any), never to this cell
                lon, lat = ox + dh, oy + dh / 3
            elif k == "band":
                lon, lat = float(numpy.nextafter(ox + dh, -numpy.inf)), oy + dh / 2
            elif k == "left-out":
                lon, lat = ox - dh * 1e-6, oy + dh / 2
            elif k == "edge-x":
                lon, lat = ox, oy + dh * rng.random()
            elif k == "edge-y":
                lon, lat = ox + dh * rng.random(), oy
            else:
                lon, lat = ox + rng.choice([-50, 50]) * dh, oy
            out.append((e[0], e[1], float(lat), float(lon), e[4], e[5]))
        else:
            out.append(e)
    return out


def in_band(reg, lon, lat):
    """point within the documented round-off band just below some cell edge (either answer allowed)"""
    dh = Fraction(reg["dh"])
    for p, idx in ((Fraction(lon), 0), (Fraction(lat), 1)):
        tol = Fraction(1, 10 ** 10) * max(1, abs(p))
        for o in reg["origins"]:
            for edge in (Fraction(o[idx]), Fraction(o[idx]) + dh):
                if 0 < edge - p <= tol:
                    return True
    return False


def inside_exact(reg, lon, lat):
    dh = Fraction(reg["dh"])
    lon, lat = Fraction(lon), Fraction(lat)
    return any(Fraction(o[0]) <= lon < Fraction(o[0]) + dh and Fraction(o[1]) <= lat < Fraction(o[1]) + dh
               for o in reg["origins"])


def gen_history(rng, tier):
    n = rng.choice([0, 1, 2, 3, 5, 8, 13, 20, 35, 50, rng.randint(0, 50)])
    evs = gen_events(rng, n)
    region0 = None
    regions = []
    want_spatial = rng.random() < 0.35
    if want_spatial:
        reg = gen_region(rng, [row_of(e) for e in evs])
        regions.append(reg)
        evs = place_events_in_region(rng, evs, reg)
        if rng.random() < 0.3:
            region0 = reg
    rows = [row_of(e) for e in evs]
    filters0 = [gen_stmt(rng, rows) for _ in range(rng.choice([0, 0, 1, 2]))]
    filters0_form = rng.choice(["string", "list"]) if len(filters0) == 1 else "list"
    calls = []
    nobj = 1
    for _ in range(rng.randint(1, 6)):
        target = rng.randrange(nobj)
        in_place = rng.random() < 0.5
        if want_spatial and rng.random() < 0.3:
            if rng.random() < 0.25:
                reg = None          # use the object's own region (may be absent -> exception)
            elif rng.random() < 0.7:
                reg = regions[0]
            else:
                reg = gen_region(rng, rows)
                regions.append(reg)
            calls.append(dict(kind="spatial", target=target, in_place=in_place, region=reg, cf=rng.randrange(3)))
        else:
            k = rng.random()
            if k < 0.1:
                form, sts = "none", None
            else:
                m = rng.choice([0, 1, 1, 1, 2, 2, 3, 4]) if k > 0.4 else 1
                sts = [gen_stmt(rng, rows) for _ in range(m)]
                form = rng.choice(["string", "list", "tuple"]) if m == 1 else rng.choice(["list", "tuple"])
            calls.append(dict(kind="filter", target=target, in_place=in_place, form=form, stmts=sts, cf=rng.randrange(3)))
        # round 7 — what happens to the target BEFORE the judged call:
        #   (h) it is replaced by a copy / deep copy / pickle image of itself (same rows, filters, region expected);
        #   (i) a statement list the library rejects (good statements followed by a malformed one) is tried on it, the exception is
        #       caught: the unchanged code rejects atomically — every object must still hold its rows for the legal calls that follow
        k2 = rng.random()
        if k2 < 0.12:
            calls[-1]["pre"] = dict(copy=rng.choice(["copy", "deepcopy", "pickle"]))
        elif k2 < 0.27:
            good = [gen_stmt(rng, rows) for _ in range(rng.choice([1, 1, 2]))]
            calls[-1]["pre"] = dict(reject=dict(good=[g["text"] for g in good], bad=rng.choice(REJECTED_STATEMENTS), in_place=rng.random() < 0.7,
                                                form=rng.choice(["list", "tuple"])))
        if not in_place:
            nobj += 1   # if the call raises no object is created; targets are re-mapped modulo the live count at run time
    return dict(events=[list(r) for r in rows], filters0=filters0, filters0_form=filters0_form, region0=region0, calls=calls,
                numstate=rng.random() < 0.25,     # (k) the judged calls run under numpy.errstate(all='raise') and a 3-digit decimal context
                subclass=rng.random() < 0.2)      # (j) the catalogs are instances of a user subclass that defines __len__ (empty = falsy)


# ----------------------------------------------------------------------------- execution of one history
# statements no reader of 'attribute op value' can accept: unknown operator, unknown column, a value that is no number, a missing value,
# an impossible date
REJECTED_STATEMENTS = ["magnitude => 4.0", "magnitud3 >= 4.0", "depth < abc", "magnitude >=", "datetime >= 2010-02-30 00:00:00",
                       "latitude ?? 3", "origin_time > twelve", "longitude <"]
COPY_FORMS = ["copy", "deepcopy", "pickle", "dict"]
COPY_PROBE = {}          # form -> True / reason it is left out (probed once per run on the tree under test)


def copy_image(obj, form):
    import copy
    import pickle
    if form == "copy":
        return copy.copy(obj)
    if form == "deepcopy":
        return copy.deepcopy(obj)
    if form == "pickle":
        return pickle.loads(pickle.dumps(obj))
    if form == "dict":
        return type(obj).from_dict(obj.to_dict())
    raise AssertionError(form)


def _plain_region(reg):
    """the region object of a region description; cells listed under `masked` are polygons of the grid with mask flag 0"""
    from csep.core.regions import CartesianGrid2D
    active = [list(map(float, o)) for o in reg["origins"]]
    if not reg.get("masked"):
        return CartesianGrid2D.from_origins(numpy.array(active, dtype=float), dh=reg["dh"])
    full = CartesianGrid2D.from_origins(numpy.array(active + [list(map(float, o)) for o in reg["masked"]], dtype=float), dh=reg["dh"])
    act = {(float(x), float(y)) for x, y in active}
    flags = numpy.array([1 if (float(o[0]), float(o[1])) in act else 0 for o in full.origins()])
    return CartesianGrid2D(full.polygons, reg["dh"], mask=flags)


def probe_copy_forms():
    """which copy forms the tree under test supports for a region with masked cells: the image must answer get_masked like the
    original ON THE UNCHANGED TREE's own terms (an exception or another answer here leaves the form out of the generators; a
    form that is supported must then give the original's results everywhere)"""
    if COPY_PROBE:
        return COPY_PROBE
    reg = dict(dh=0.5, origins=[[0.0, 0.0], [0.5, 0.0], [0.0, 0.5], [1.0, 0.5]], masked=[[0.5, 0.5], [1.0, 0.0]])
    for form in COPY_FORMS:
        try:
            r = _plain_region(reg)
            c = copy_image(r, form)
            c.get_masked(numpy.array([0.25]), numpy.array([0.25]))
            COPY_PROBE[form] = True
        except Exception as e:          # the unchanged tree cannot make this image of a region: the form is left out
            COPY_PROBE[form] = f"{type(e).__name__}: {e}"[:120]
    return COPY_PROBE


def build_region(reg):
    r = _plain_region(reg)
    form = reg.get("copy")
    # the dict image of a region drops the mask flags on the UNCHANGED tree (to_dict has no mask entry; C14 / C18's subject):
    # that form is used for regions without flagged cells only.  Forms the tree under test cannot produce at all (an exception
    # in the probe) are left out; a form it can produce must behave like the original.
    if form and probe_copy_forms().get(form) is True and not (form == "dict" and reg.get("masked")):
        r = copy_image(r, form)
    return r


def events_of(case):
    return [(r[0], r[1], float.fromhex(r[2]), float.fromhex(r[3]), float.fromhex(r[4]), float.fromhex(r[5]))
            for r in case["events"]]


def py_stmts(sts, form):
    if form == "none":
        return None
    texts = [s["text"] for s in sts]
    if form == "string":
        return texts[0]
    return tuple(texts) if form == "tuple" else list(texts)


@_guarded
def run_history(run, drv, pending, case):
    from csep.core.catalogs import CSEPCatalog
    rows0 = [tuple(r) for r in case["events"]]
    region_cache = {}

    def region_obj(reg):
        key = enc_region(reg) + "|" + repr(reg.get("masked")) + "|" + str(reg.get("copy"))
        if key not in region_cache:
            region_cache[key] = build_region(reg)
        return region_cache[key]

    kw = {}
    if case["filters0"]:
        kw["filters"] = py_stmts(case["filters0"], case["filters0_form"])
    if case["region0"] is not None:
        kw["region"] = region_obj(case["region0"])
    if case.get("subclass"):
        class UserCatalog(CSEPCatalog):
            """a user's catalog class: same constructor, a length, one more attribute"""
            project = "user"

            def __len__(self):
                return self.event_count
        CSEPCatalog = UserCatalog
        run.count("user-subclass-with-__len__")
    import contextlib
    import decimal as _decimal

    @contextlib.contextmanager
    def numeric_state():
        if not case.get("numstate"):
            yield
            return
        with numpy.errstate(divide="raise", invalid="raise", over="raise"), _decimal.localcontext() as ctx:
            ctx.prec = 3
            yield
    if case.get("numstate"):
        run.count("numeric-state:errstate-raise+decimal-prec-3")
    cat0 = CSEPCatalog(data=events_of(case), **kw)
    objs = [cat0]
    snaps = [snapshot(cat0)]
    if snaps[0] != rows0:
        run.oracle_failure(case, "constructor changed the rows")
        return
    # oracle-side state per object: rows, current filters (list of stmt dicts), region
    state = [dict(rows=rows0, filters=list(case["filters0"]), region=case["region0"])]
    flags, line_calls, nontriv, band_ids = [], [], False, set()
    for ci, call in enumerate(case["calls"]):
        tg = call["target"] % len(objs)
        tobj, tst = objs[tg], state[tg]
        # Which statements / region an object has STORED is fixed by the property only where the caller put them there
        # (constructor, an in-place call).  What a not-in-place call leaves stored on the original (`self.filters = statements`
        # happens in both modes today) and what the new instance carries (filter_spatial builds it without filters) is incidental:
        # calls that would read such a stored value (`filter()` / `filter_spatial()` without argument) are not made.
        if call["kind"] == "filter" and call["form"] == "none" and not tst.get("fk", True):
            run.count("skipped:stored-filters-not-fixed-by-the-property")
            continue
        if call["kind"] == "spatial" and call["region"] is None and not tst.get("rk", True):
            run.count("skipped:stored-region-not-fixed-by-the-property")
            continue
        pre = call.get("pre") or {}
        if pre.get("copy"):
            try:
                objs[tg] = tobj = copy_image(tobj, pre["copy"])
                run.count("pre:target replaced by its " + pre["copy"] + " image")
            except Exception as e:
                run.count(f"pre:{pre['copy']} image of a catalog not supported ({type(e).__name__})")
            if snapshot(tobj) != snaps[tg]:
                run.oracle_failure(case, f"call {ci}: the {pre['copy']} image of catalog object {tg} does not hold the rows of the original")
                return
        if pre.get("reject"):
            rj = pre["reject"]
            arg = list(rj["good"]) + [rj["bad"]]
            keep_rows = [list(s) for s in snaps]
            try:
                tobj.filter(tuple(arg) if rj["form"] == "tuple" else arg, in_place=rj["in_place"])
                rejected = False
            except Exception:
                rejected = True
            if not rejected:
                run.count("pre:malformed list accepted by the implementation (history ends, nothing judged)")
                break
            if [snapshot(o) for o in objs] != keep_rows:
                run.oracle_failure(case, f"call {ci}: filter({arg}, in_place={rj['in_place']}) was rejected with an exception, but catalog "
                                         f"objects no longer hold their rows: the caller catches the exception and goes on with legal calls")
                return
            run.count("pre:rejected statement list, exception caught, history goes on")
        before = [list(s) for s in snaps]
        exc = None
        try:
            # CALL FORMS: every argument positionally and by keyword, in the pinned signature order
            #   filter(statements=None, in_place=True); filter_spatial(region=None, update_stats=False, in_place=True)
            cf = call.get("cf", 0)
            if call["kind"] == "filter":
                arg = py_stmts(call["stmts"], call["form"])
                arg_copy = list(arg) if isinstance(arg, list) else arg
                with numeric_state():
                    if cf == 1:
                        res = tobj.filter(arg, call["in_place"])
                    elif cf == 2:
                        res = tobj.filter(statements=arg, in_place=call["in_place"])
                    else:
                        res = tobj.filter(arg, in_place=call["in_place"])
                run.count(f"callform:filter:{('kw-in_place', 'positional', 'all-keywords')[cf]}")
                # CALLER-OWNED INPUT: the statement list handed over is the caller's
                if isinstance(arg, list) and arg != arg_copy:
                    run.oracle_failure(case, f"call {ci}: filter modified the caller's statement list: {arg_copy} -> {arg}")
                    return
            else:
                reg = call["region"]
                robj = region_obj(reg) if reg is not None else None
                with numeric_state():
                    if cf == 1:
                        res = tobj.filter_spatial(robj, False, call["in_place"])
                    elif cf == 2:
                        res = tobj.filter_spatial(region=robj, update_stats=False, in_place=call["in_place"])
                    else:
                        res = tobj.filter_spatial(robj, in_place=call["in_place"])
                run.count(f"callform:filter_spatial:{('kw-in_place', 'positional', 'all-keywords')[cf]}")
        except Exception as e:          # which exception class rejects a call is not part of the property
            exc = type(e).__name__
            exc_text = f"{type(e).__name__}: {e}"
        # ---- direct oracle
        if call["kind"] == "filter":
            sts = call["stmts"] if call["form"] != "none" else (tst["filters"] or None)
            expect_exc = sts is None
            if not expect_exc:
                expected = [r for r in tst["rows"] if all(holds(r, s) for s in sts)]
                if any(rowval(r, s["attr"]) == Fraction(s["value"]) for r in tst["rows"] for s in sts) or \
                        0 < len(expected) < len(tst["rows"]) or any(s["kind"].startswith("datetime") for s in sts):
                    nontriv = True
                for s in sts:
                    run.count("stmt:" + s["kind"].split(":")[0] + ":" + s["op"])
                    fv = Fraction(s["value"])
                    if fv.denominator != 1:
                        run.count("frac-threshold:" + s["attr"])
                        # an event sits on the threshold's integer neighbour: truncating / rounding the threshold flips it
                        if any(rowval(r, s["attr"]) in (math.floor(fv), math.ceil(fv)) for r in tst["rows"]):
                            run.count("frac-threshold-hit:" + s["attr"])
                            nontriv = True
                    if s["kind"].startswith("datetime"):
                        run.count("layout:" + s["kind"].split(":")[1])
            line_calls.append(f"f:{tg}:{int(call['in_place'])}:" +
                              ("none" if call["form"] == "none" else enc_stmts(call["stmts"])))
            run.count("form:" + call["form"])
        else:
            reg = call["region"] if call["region"] is not None else tst["region"]
            expect_exc = reg is None
            if not expect_exc:
                expected = []
                for r in tst["rows"]:
                    lon, lat = float.fromhex(r[3]), float.fromhex(r[2])
                    if in_band(reg, lon, lat):
                        band_ids.add(r[0])
                        run.count("spatial:band")
                    if inside_exact(reg, lon, lat):
                        expected.append(r)
                if 0 < len(expected) < len(tst["rows"]):
                    nontriv = True
            line_calls.append(f"s:{tg}:{int(call['in_place'])}:{enc_region(call['region'])}")
            run.count("form:spatial")
        run.count("in_place" if call["in_place"] else "new_instance")
        if exc is not None and not expect_exc:
            run.oracle_failure(case, f"call {ci} raised {exc_text} although there are statements / a region to filter by")
            return
        if expect_exc and exc is None:
            # nothing to filter by (no statements given or stored / no region given or bound) and the call returned instead of
            # raising: the property only speaks about the statements that ARE given; with none, every row satisfies them.
            # Accepted iff no row of any object changed and the result holds the target's rows; the history ends before this call.
            now = [snapshot(o) for o in objs]
            if now != before or snapshot(res) != before[tg]:
                run.oracle_failure(case, f"call {ci}: nothing to filter by, the call did not raise and did not keep every row")
                return
            run.count("nothing-to-filter-by:tolerated")
            line_calls.pop()
            snaps = before
            break
        if exc:
            # "nothing to filter by" is rejected ATOMICALLY by the unchanged code (the check stands in front of everything else):
            # the caller catches the exception and goes on — every object must still hold its rows (round 7, class i)
            flags.append("0")
            run.count("exception")
            if [snapshot(o) for o in objs] != before:
                run.oracle_failure(case, f"call {ci} was rejected ({exc_text}) but changed the rows of a catalog")
                return
            snaps = before
            continue
        flags.append("1")
        is_new = all(res is not o for o in objs)
        if call["in_place"] and res is not tobj:
            run.oracle_failure(case, f"call {ci}: in_place=True did not return the catalog itself")
            return
        if not call["in_place"] and not is_new:
            run.oracle_failure(case, f"call {ci}: in_place=False returned an existing object")
            return
        if is_new:
            objs.append(res)
            state.append(dict(rows=None, filters=None, region=None))
        snaps = [snapshot(o) for o in objs]
        ri = objs.index(res) if not is_new else len(objs) - 1

        def strip(rows):
            return [r for r in rows if r[0] not in band_ids]
        got = snaps[ri]
        if strip(got) != strip(expected):
            run.oracle_failure(case, f"call {ci} ({call['kind']}, in_place={call['in_place']}): result rows "
                                     f"{[r[0] for r in got]} expected {[r[0] for r in expected]}")
            return
        # events of every other object untouched (with in_place=False that includes the target)
        for k in range(len(before)):
            if k == ri and call["in_place"]:
                continue
            if snaps[k] != before[k]:
                run.oracle_failure(case, f"call {ci}: catalog object {k} was modified (in_place={call['in_place']})")
                return
        # oracle state update (uses the implementation's rows for band events so later calls stay comparable)
        if call["kind"] == "filter":
            newf = list(sts)
            explicit = call["form"] != "none"
            tst["filters"] = newf
            if explicit:
                tst["fk"] = bool(call["in_place"])     # in place: stored by this call; not in place: incidental on the original
            if call["in_place"]:
                state[ri] = dict(tst, rows=got)
            else:
                state[ri] = dict(rows=got, filters=newf, region=tst["region"], fk=False, rk=False)
        else:
            explicit = call["region"] is not None
            tst["region"] = reg
            if explicit:
                tst["rk"] = bool(call["in_place"])
            if call["in_place"]:
                state[ri] = dict(tst, rows=got)
            else:
                state[ri] = dict(rows=got, filters=[], region=reg, fk=False, rk=False)
    # ---- correspondence with the Lean model: flags and ids of every object after the whole history
    line = " ".join(["c04_hist", enc_events(rows0), enc_stmts(case["filters0"]), enc_region(case["region0"])] + line_calls)
    i = drv.ask(line)
    impl = "|".join(["".join(flags) or "-"] + [",".join(str(r[0]) for r in s) or "-" for s in snaps])
    pending.append((case, i, impl, sorted(band_ids)))
    key = None
    if nontriv:
        key = (tuple(rows0), tuple(line_calls))
    run.case(dict(n_events=len(rows0), calls=line_calls[:3]), key)


def flush(run, drv, pending):
    out = drv.run()
    for case, i, impl, band in pending:
        model = out[i]
        if band:
            def drop(s):
                parts = s.split("|")
                res = [parts[0]]
                for p in parts[1:]:
                    ids = [] if p == "-" else [t for t in p.split(",") if int(t) not in band]
                    res.append(",".join(ids) or "-")
                return "|".join(res)
            if drop(impl) != drop(model):
                run.mismatch(case, impl, model)
        elif impl != model:
            run.mismatch(case, impl, model)
    pending.clear()


# ----------------------------------------------------------------------------- metamorphic checks on the implementation
@_guarded
def metamorphic(run, rng):
    from csep.core.catalogs import CSEPCatalog
    n = rng.choice([0, 1, 3, 8, 20, 50])
    evs = gen_events(rng, n)
    rows = [row_of(e) for e in evs]
    sts = [gen_stmt(rng, rows) for _ in range(rng.randint(1, 5))]
    texts = [s["text"] for s in sts]
    case = dict(kind="metamorphic", events=[list(r) for r in rows], stmts=sts)

    def fresh():
        return CSEPCatalog(data=[(r[0], r[1], float.fromhex(r[2]), float.fromhex(r[3]), float.fromhex(r[4]),
                                  float.fromhex(r[5])) for r in rows])
    try:
        base = snapshot(fresh().filter(list(texts)))
        sh = list(texts)
        rng.shuffle(sh)
        a = snapshot(fresh().filter(sh, in_place=rng.random() < 0.5))
        c = fresh()
        for t in texts:
            c = c.filter(t, in_place=rng.random() < 0.5)
        b = snapshot(c)
        k = rng.randint(0, len(texts))
        g = snapshot(fresh().filter(tuple(texts[:k])).filter(texts[k:], in_place=False))
        twice = fresh().filter(texts)
        twice = snapshot(twice.filter(texts))
        again = snapshot(fresh().filter(texts).filter())   # re-apply through the stored filters
        # datetime statement vs origin_time statement for the same instant
        dts = []
        for s in sts:
            if s["kind"].startswith("datetime"):
                sym = [o[0] for o in OPS if o[1] == s["op"]][0]
                d1 = snapshot(fresh().filter(s["text"], in_place=False))
                d2 = snapshot(fresh().filter(f"origin_time {sym} {s['value']}", in_place=False))
                dts.append(d1 == d2)
                run.count("meta:datetime-vs-origin_time")
    except Exception as e:
        run.oracle_failure(case, f"metamorphic run raised {type(e).__name__}: {e}")
        return
    expected = [r for r in rows if all(holds(r, s) for s in sts)]
    names = ["list-vs-oracle", "shuffled", "one-by-one", "split", "twice", "stored-filters"]
    for nm, got in zip(names, [base, a, b, g, twice, again]):
        if got != expected:
            run.oracle_failure(case, f"metamorphic {nm}: ids {[r[0] for r in got]} expected {[r[0] for r in expected]}")
            return
    if not all(dts):
        run.oracle_failure(case, "datetime statement and origin_time statement for the same instant select different events")
        return
    run.count("meta:ok")
    run.case(dict(kind="metamorphic", n=n, stmts=texts[:3]), ("meta", tuple(rows), tuple(texts)) if 0 < len(expected) < n else None)


# ----------------------------------------------------------------------------- load_catalog(apply_filters=True)
@_guarded
def load_case(run, drv, pending_load, rng, tmpdir):
    import csep
    from csep.core.catalogs import CSEPCatalog
    n = rng.choice([0, 1, 4, 10, 30])
    evs = gen_events(rng, n)
    reg = None
    if rng.random() < 0.5:
        reg = gen_region(rng, [row_of(e) for e in evs])
        evs = place_events_in_region(rng, evs, reg)
    via_file = rng.random() < 0.3 and n > 0
    rows = [row_of(e) for e in evs]
    kw = {}
    if via_file:
        # written csep-csv file; the oracle works on what the reader returns without filters
        fn = os.path.join(tmpdir, f"cat{rng.randrange(10 ** 9)}.csv")
        CSEPCatalog(data=evs).write_ascii(fn)
        plain = csep.load_catalog(fn)
        rows = snapshot_str_ids(plain)
        loader_kw = dict()
    else:
        fn = os.path.join(tmpdir, "not-read.csv")
        loader_kw = dict(loader=lambda fname: list(evs))
    sts = [gen_stmt(rng, rows) for _ in range(rng.choice([0, 1, 2, 3]))]
    form = rng.choice(["string", "list"]) if len(sts) == 1 else "list"
    if sts or rng.random() < 0.5:
        kw["filters"] = py_stmts(sts, form)
    if reg is not None:
        kw["region"] = build_region(reg)
    # the same `filter().filter_spatial()` / `except: filter()` tail is repeated in csep.query_comcat and csep.query_bsi
    # (csep/__init__.py:236, :295): reached with the web request replaced (a private reader helper; if it is not there the
    # entry point is skipped and load_catalog carries the clause)
    entry = "load_catalog"
    if not via_file and rng.random() < 0.3:
        entry = rng.choice(["query_comcat", "query_bsi"])
        import csep.utils.readers as _rd
        helper = "_" + entry
        if not (hasattr(_rd, helper) and hasattr(csep, entry)):
            run.count("helper-missing:" + helper)
            note = f"csep.utils.readers.{helper} / csep.{entry} not present in the tree under test: entry point not driven"
            if note not in run.assumptions:
                run.assumptions.append(note)
            entry = "load_catalog"
    case = dict(kind="load", events=[list(r) for r in rows], stmts=sts, region=reg, via_file=via_file, entry=entry)
    try:
        if entry == "load_catalog":
            cat = csep.load_catalog(fn, apply_filters=True, **loader_kw, **kw)
        else:
            import contextlib
            import io
            import csep.utils.readers as _rd
            saved = getattr(_rd, "_" + entry)
            setattr(_rd, "_" + entry, lambda **_kw: list(evs))
            try:
                with contextlib.redirect_stdout(io.StringIO()):
                    cat = getattr(csep, entry)(datetime.datetime(2000, 1, 1), datetime.datetime(2001, 1, 1), verbose=False,
                                               apply_filters=True, **kw)
            finally:
                setattr(_rd, "_" + entry, saved)
            run.count("load:" + entry)
        got = snapshot_str_ids(cat) if via_file else snapshot(cat)
        exc = False
    except Exception as e:              # which exception class rejects the call is not part of the property
        got, exc = None, True
        if sts:
            run.oracle_failure(case, f"load_catalog raised {type(e).__name__}: {e} with {len(sts)} filters")
            return
    if not sts and not exc:
        # apply_filters=True without any statement: the code raises; a version that filters by what IS there (the region,
        # if any) is acceptable too — checked below against the oracle with no statements; the model (which raises) is not asked
        run.count("load:no-statements-tolerated")
    run.count("load:file" if via_file else "load:loader")
    if exc:
        run.count("load:exception")
        i = drv.ask(" ".join(["c04_load", enc_events(rows), "-", enc_region(reg)]))
        pending_load.append((case, i, "exc", []))
        run.case(dict(kind="load", n=n), None)
        return
    expected = [r for r in rows if all(holds(r, s) for s in sts)]
    band = set()
    if reg is not None:
        band = {r[0] for r in expected if in_band(reg, float.fromhex(r[3]), float.fromhex(r[2]))}
        expected = [r for r in expected if inside_exact(reg, float.fromhex(r[3]), float.fromhex(r[2]))]
    if [r for r in got if r[0] not in band] != [r for r in expected if r[0] not in band]:
        run.oracle_failure(case, f"load_catalog(apply_filters=True): ids {[r[0] for r in got]} expected {[r[0] for r in expected]}")
        return
    if sts:
        i = drv.ask(" ".join(["c04_load", enc_events(rows), enc_stmts(sts), enc_region(reg)]))
        pending_load.append((case, i, ",".join(str(r[0]) for r in got if r[0] not in band) or "-", sorted(band)))
    run.case(dict(kind="load", n=n, filters=[s["text"] for s in sts][:3]),
             ("load", tuple(rows), tuple(s["text"] for s in sts)) if 0 < len(expected) < len(rows) else None)


def snapshot_str_ids(cat):
    out = []
    for row in cat.catalog:
        out.append((int(row["id"].decode()), int(row["origin_time"]), float(row["latitude"]).hex(),
                    float(row["longitude"]).hex(), float(row["depth"]).hex(), float(row["magnitude"]).hex()))
    return out


def flush_load(run, drv_out, pending_load):
    for case, i, impl, band in pending_load:
        model = drv_out[i]
        if band and model not in ("exc", "bad-op"):
            model = ",".join(t for t in model.split(",") if t != "-" and int(t) not in band) or "-"
        if impl != model:
            run.mismatch(case, impl, model)


# ----------------------------------------------------------------------------- entry points
def corpus_cases():
    d = os.path.join(os.path.dirname(os.path.dirname(os.path.abspath(__file__))), "corpus", "C04")
    out = []
    if os.path.isdir(d):
        import json
        for f in sorted(os.listdir(d)):
            if f.endswith(".json"):
                out.append(json.load(open(os.path.join(d, f))))
    return out


def run(run, rng, tier):
    run.assumptions.append("statement thresholds are written with repr(float) (or integer text for origin_time), so float(text) "
                           "is exactly the intended double")
    run.assumptions.append("origin times satisfy |t| < 2^53 ms, where the int64 -> float64 conversion in the comparison is exact")
    run.assumptions.append("spatial regions have >= 2 columns and >= 2 rows (single row/column lookups are known finding D4 of C01) "
                           "and decimal lattice origins; events within 1e-10 relative below a cell edge are not compared")
    drv, pending = Driver(), []
    for c in corpus_cases():
        payload = c.get("case", c)
        replay_case(run, drv, pending, payload)
    nh = 5000 if tier == "quick" else 50000
    for k in range(nh):
        run_history(run, drv, pending, gen_history(rng, tier))
        if len(pending) >= 4000:
            flush(run, drv, pending)
            drv = Driver()
    flush(run, drv, pending)
    for _ in range(1000 if tier == "quick" else 10000):
        metamorphic(run, rng)
    drv2, pl = Driver(), []
    with tempfile.TemporaryDirectory(prefix="c04_") as tmp:
        for _ in range(500 if tier == "quick" else 5000):
            load_case(run, drv2, pl, rng, tmp)
    flush_load(run, drv2.run(), pl)
    # datetime -> epoch: the model's own calendar arithmetic against the implementation on boundary instants
    from csep.utils.time_utils import strptime_to_utc_epoch
    drv3, exp = Driver(), []
    for _ in range(400 if tier == "quick" else 5000):
        ms = rng.choice([rng.randrange(-12 * 10 ** 12, 30 * 10 ** 12), rng.randrange(-5, 5) * 86400000 + rng.choice([-1, 0, 1]),
                         951782400000 + rng.choice([-1, 0, 1]), -2203891200000 + rng.choice([-1, 0, 1]),
                         4107542400000 + rng.choice([-1, 0, 1])])
        us = rng.choice([0, 1, 999])
        dt = ms_to_datetime(ms, us)
        impl = strptime_to_utc_epoch(dt.strftime("%Y-%m-%d %H:%M:%S.%f"))
        if impl != ms:
            run.oracle_failure(dict(kind="epoch", text=str(dt)), f"strptime_to_utc_epoch gives {impl}, instant is {ms}")
        drv3.ask(f"c04_epoch {dt.year},{dt.month},{dt.day},{dt.hour},{dt.minute},{dt.second},{dt.microsecond}")
        exp.append((str(dt), impl))
        run.count("epoch")
    for (txt, impl), o in zip(exp, drv3.run()):
        if str(impl) != o:
            run.mismatch(dict(kind="epoch", text=txt), impl, o)
    # apply_mct, CatalogForecast.__next__ filter stage, update_stats / no-shared-rows extras
    from . import c04_mct
    c04_mct.run_all(run, rng, tier, Driver)
    # round 4: the statement text (split, lookups, float(), strptime) read by the Lean model from the characters
    from . import c04_text
    c04_text.run_all(run, rng, tier, Driver)


def replay_case(run, drv, pending, case):
    kind = case.get("kind", "history")
    if kind == "text":
        from . import c04_text
        c04_text.replay(run, case, Driver)
        return
    if kind in ("mct", "next", "extra", "nan", "session", "bigfilter", "sized"):
        from . import c04_mct
        c04_mct.replay(run, case, Driver)
        return
    if kind == "history" or "calls" in case:
        run_history(run, drv, pending, case)
    elif kind == "metamorphic":
        _replay_meta(run, case)
    elif kind == "load":
        _replay_load(run, case)
    elif kind == "epoch":
        from csep.utils.time_utils import strptime_to_utc_epoch
        dt = datetime.datetime.strptime(case["text"], "%Y-%m-%d %H:%M:%S.%f" if "." in case["text"] else "%Y-%m-%d %H:%M:%S")
        d = dt - EPOCH
        ms = (d.days * 86400 + d.seconds) * 1000 + d.microseconds // 1000
        impl = strptime_to_utc_epoch(dt.strftime("%Y-%m-%d %H:%M:%S.%f"))
        if impl != ms:
            run.oracle_failure(case, f"strptime_to_utc_epoch gives {impl}, instant is {ms}")
        run.case(case, None)


def _replay_meta(run, case):
    from csep.core.catalogs import CSEPCatalog
    rows = [tuple(r) for r in case["events"]]
    sts = case["stmts"]
    texts = [s["text"] for s in sts]

    def fresh():
        return CSEPCatalog(data=[(r[0], r[1], float.fromhex(r[2]), float.fromhex(r[3]), float.fromhex(r[4]),
                                  float.fromhex(r[5])) for r in rows])
    expected = [r for r in rows if all(holds(r, s) for s in sts)]
    try:
        outs = {"list": snapshot(fresh().filter(list(texts))),
                "reversed": snapshot(fresh().filter(list(reversed(texts)))),
                "twice": snapshot(fresh().filter(texts).filter(texts)),
                "stored": snapshot(fresh().filter(texts).filter())}
        c = fresh()
        for t in texts:
            c = c.filter(t)
        outs["one-by-one"] = snapshot(c)
        for s in sts:
            if s["kind"].startswith("datetime"):
                sym = [o[0] for o in OPS if o[1] == s["op"]][0]
                if snapshot(fresh().filter(s["text"], in_place=False)) != \
                        snapshot(fresh().filter(f"origin_time {sym} {s['value']}", in_place=False)):
                    run.oracle_failure(case, "datetime statement and origin_time statement differ")
    except Exception as e:
        run.oracle_failure(case, f"metamorphic run raised {type(e).__name__}: {e}")
        return
    for nm, got in outs.items():
        if got != expected:
            run.oracle_failure(case, f"metamorphic {nm}: ids {[r[0] for r in got]} expected {[r[0] for r in expected]}")
    run.case(dict(kind="metamorphic"), None)


def _replay_load(run, case):
    import csep
    rows = [tuple(r) for r in case["events"]]
    evs = [(r[0], r[1], float.fromhex(r[2]), float.fromhex(r[3]), float.fromhex(r[4]), float.fromhex(r[5])) for r in rows]
    sts, reg = case["stmts"], case["region"]
    kw = {}
    if sts:
        kw["filters"] = [s["text"] for s in sts]
    if reg is not None:
        kw["region"] = build_region(reg)
    try:
        got = snapshot(csep.load_catalog("not-read.csv", loader=lambda f: list(evs), apply_filters=True, **kw))
    except Exception as e:
        got = None
        if sts:
            run.oracle_failure(case, f"load_catalog raised {type(e).__name__}: {e} with {len(sts)} filters")
            return
    if got is not None:
        expected = [r for r in rows if all(holds(r, s) for s in sts)]
        band = set()
        if reg is not None:
            band = {r[0] for r in expected if in_band(reg, float.fromhex(r[3]), float.fromhex(r[2]))}
            expected = [r for r in expected if inside_exact(reg, float.fromhex(r[3]), float.fromhex(r[2]))]
        if [r for r in got if r[0] not in band] != [r for r in expected if r[0] not in band]:
            run.oracle_failure(case, f"load_catalog(apply_filters=True): ids {[r[0] for r in got]} expected "
                                     f"{[r[0] for r in expected]}")
    run.case(dict(kind="load"), None)


def replay(run, payload):
    if payload["case"].get("kind") == "text":
        from . import c04_text
        c04_text.replay(run, payload["case"], Driver)
        return
    if payload["case"].get("kind") in ("mct", "next", "extra", "nan", "session", "bigfilter", "sized"):
        from . import c04_mct
        c04_mct.replay(run, payload["case"], Driver)
        return
    drv, pending = Driver(), []
    replay_case(run, drv, pending, payload["case"])
    flush(run, drv, pending)
