"""C02 — the magnitude call sites of bin1d_vec (Model/Bin1dCalls.lean): CSEPCatalog.get_mag_idx, CSEPCatalog.magnitude_counts
(mag_bins=, tol=, retbins=), GriddedForecast.get_magnitude_index (tol=; float64, float32, integer and list inputs),
regions.magnitude_bins and regions.create_space_magnitude_region. Each result is judged by the exact oracle of the property
(`allowed_exact` of harness/c02.py — NOT by comparing with bin1d_vec) and compared with the Lean op `c02_calls`."""
from fractions import Fraction

import numpy

from .core import frac

TOLS = [None, None, 1e-5, 1e-9, 0.0]


def _mags_for(c02, g, rng, tol):
    """magnitudes around a sample of edges (on the edge, +-1..4096 ulps, mid-bin), a few below the first edge, far above the last"""
    idx = numpy.arange(g.n) if g.n <= 12 else numpy.unique(numpy.array([0, 1, g.n - 2, g.n - 1] + rng.sample(range(g.n), 8)))
    v = c02.values_around(g, rng, idx, "f64", dense=False)
    v = v[numpy.isfinite(v)]
    v = v[numpy.abs(v) < 1e15]
    if tol:
        # values just inside and just outside the overridden tolerance below each sampled edge
        e = g.e64[idx]
        v = numpy.concatenate([v, e - 0.5 * tol, e - 2.5 * tol, e - 1.01 * tol * 3, e + 0.5 * tol])
    rs = numpy.random.default_rng(rng.randrange(2 ** 32))
    v = rs.permutation(v)
    return v[:rng.choice([40, 120, 300])]


def _allowed_sets(c02, g, pd, tol, vals):
    return [c02.allowed_val(g, pd, tol, True, x) for x in vals]


def check_calls_on_grid(ctx, c02, g, tag):
    """one grid (float64 edges): all call sites, several tolerances"""
    run, rng = ctx.run, ctx.rng
    from csep.core.catalogs import CSEPCatalog
    from csep.core.forecasts import GriddedForecast
    from csep.core import regions
    if g.n == 0 or g.bd != "f64":
        return
    base_reg = regions.CartesianGrid2D.from_origins(numpy.array([[0., 0.], [0.1, 0.]]), dh=0.1)
    for tol in rng.sample(TOLS, 3):
        if not g.premise("f64", tol):
            run.count("calls_premise_not_met_skipped")
            continue
        mags = _mags_for(c02, g, rng, tol)
        case0 = dict(kind="calls", grid=g.spec, tol=tol, tag=tag, p=[repr(float(x)) for x in mags[:6]], n_values=len(mags))
        al = _allowed_sets(c02, g, "f64", tol, mags)
        run.case(case0, None)
        run.evaluations += len(mags) - 1
        run.count("call_sites_grid_tol")
        # ---- create_space_magnitude_region + catalog.get_mag_idx (default tolerance only: it takes no tol)
        try:
            reg = regions.create_space_magnitude_region(
                regions.CartesianGrid2D.from_origins(numpy.array([[0., 0.], [0.1, 0.]]), dh=0.1), g.bins)
        except Exception as e:
            run.oracle_failure(dict(case0, what="create_space_magnitude_region"), f"raised {type(e).__name__}: {e}")
            return
        if reg.magnitudes is not g.bins and not numpy.array_equal(numpy.asarray(reg.magnitudes), g.bins) or \
                getattr(reg, "num_mag_bins", None) != g.n:
            run.oracle_failure(dict(case0, what="create_space_magnitude_region"),
                               f"region.magnitudes / num_mag_bins = {getattr(reg, 'num_mag_bins', None)} are not the {g.n} edges given")
            return
        cat = CSEPCatalog(data=[(str(i), 1000 * i, 0.05, 0.05, 0.0, float(m)) for i, m in enumerate(mags)], region=reg)
        al0 = al if tol is None else _allowed_sets(c02, g, "f64", None, mags)
        try:
            gi = [int(v) for v in numpy.asarray(cat.get_mag_idx())]
        except Exception as e:
            run.oracle_failure(dict(case0, what="get_mag_idx"), f"get_mag_idx raised {type(e).__name__}: {e}")
            return
        for x, i, a in zip(mags, gi, al0):
            if i not in a:
                run.oracle_failure(dict(case0, what="get_mag_idx", p=[repr(float(x))], tol=None),
                                   f"CSEPCatalog.get_mag_idx gave {i} for magnitude {float(x)!r}; the property allows {sorted(a)} (open-ended last bin)")
                break
        # ---- catalog.magnitude_counts(mag_bins, tol, retbins)
        try:
            rb, cnt = cat.magnitude_counts(mag_bins=g.bins, tol=tol, retbins=True)
            cnt2 = cat.magnitude_counts(mag_bins=g.bins, tol=tol)
            cnt3 = cat.magnitude_counts(tol=tol)            # edges taken from the region
            empty = CSEPCatalog(data=[], region=reg).magnitude_counts(mag_bins=g.bins, tol=tol)
        except Exception as e:
            run.oracle_failure(dict(case0, what="magnitude_counts"), f"magnitude_counts raised {type(e).__name__}: {e}")
            return
        cnt = numpy.asarray(cnt, dtype=float)
        lo = numpy.zeros(g.n)
        hi = numpy.zeros(g.n)
        for a in al:
            for k in a:
                if k >= 0:
                    hi[k] += 1
            if len(a) == 1 and min(a) >= 0:
                lo[min(a)] += 1
        nmin = sum(1 for a in al if -1 not in a)
        nmax = sum(1 for a in al if a != {-1})
        bad = None
        if cnt.shape != (g.n,) or not numpy.array_equal(numpy.asarray(rb), g.bins):
            bad = f"shape {cnt.shape} / returned bins differ from the {g.n} edges given"
        elif numpy.any(cnt != numpy.round(cnt)) or numpy.any(cnt < lo) or numpy.any(cnt > hi):
            k = int(numpy.argmax((cnt < lo) | (cnt > hi) | (cnt != numpy.round(cnt))))
            bad = f"bin {k} holds {cnt[k]!r} events; between {int(lo[k])} and {int(hi[k])} magnitudes belong to it"
        elif not (nmin <= cnt.sum() <= nmax):
            bad = f"{cnt.sum()!r} events counted in total; between {nmin} and {nmax} magnitudes are at or above the first edge"
        elif not numpy.array_equal(cnt, numpy.asarray(cnt2)) or not numpy.array_equal(cnt, numpy.asarray(cnt3)):
            bad = "counts differ between retbins=True / retbins=False / edges taken from the region"
        elif numpy.asarray(empty).shape != (g.n,) or numpy.any(numpy.asarray(empty) != 0):
            bad = f"empty catalog: counts {numpy.asarray(empty).tolist()[:8]!r}"
        if bad:
            run.oracle_failure(dict(case0, what="magnitude_counts"), f"CSEPCatalog.magnitude_counts(tol={tol!r}): {bad}")
        # ---- forecast.get_magnitude_index(mags, tol) : float64 array, list, float32, integers
        fore = GriddedForecast(data=numpy.ones((2, g.n)), region=base_reg, magnitudes=g.bins)
        must = [x for x, a in zip(mags, al) if a == {-1}]
        can = [x for x, a in zip(mags, al) if -1 not in a]
        forms = [("f64", numpy.array(can, dtype=float)), ("list", [float(x) for x in can])]
        f32 = numpy.array(can, dtype=numpy.float32)
        if g.premise("f32", tol) and len(can):
            forms.append(("f32", f32))
        ints = numpy.unique(numpy.round(numpy.array(can, dtype=float))).astype(numpy.int64) if len(can) else numpy.array([], dtype=numpy.int64)
        if len(ints):
            forms.append(("i64", ints))
        model_gmi = None
        for fname, arr in forms:
            pd = {"f64": "f64", "list": "f64", "f32": "f32", "i64": "i64"}[fname]
            vals = list(arr)
            als = _allowed_sets(c02, g, pd, tol, vals)
            try:
                out = [int(v) for v in numpy.asarray(fore.get_magnitude_index(arr, tol=tol))]
                res = "ok"
            except ValueError:
                out, res = None, "ValueError"
            except Exception as e:
                out, res = None, "EXC:" + type(e).__name__
            run.count("get_magnitude_index_" + fname)
            if res == "ok":
                for x, i, a in zip(vals, out, als):
                    if i not in a or i < 0:
                        run.oracle_failure(dict(case0, what="get_magnitude_index", form=fname, p=[c02.val_repr(pd, x)]),
                                           f"get_magnitude_index(tol={tol!r}) gave {i} for {c02.val_repr(pd, x)} ({fname}); the property allows {sorted(a)}")
                        break
            elif res == "ValueError":
                if all(-1 not in a for a in als):
                    run.oracle_failure(dict(case0, what="get_magnitude_index", form=fname, p=[c02.val_repr(pd, x) for x in vals[:6]]),
                                       f"get_magnitude_index(tol={tol!r}) raised ValueError although every magnitude ({fname}) is at or above the first edge")
            else:
                run.oracle_failure(dict(case0, what="get_magnitude_index", form=fname), f"get_magnitude_index raised {res}")
            if fname == "f64":
                model_gmi = (vals, out if res == "ok" else "E")
        for x in must[:3]:
            try:
                fore.get_magnitude_index(numpy.array(list(can[:3]) + [x]), tol=tol)
                run.oracle_failure(dict(case0, what="get_magnitude_index", p=[repr(float(x))]),
                                   f"get_magnitude_index(tol={tol!r}) accepted the magnitude {float(x)!r} below the first edge {float(g.e64[0])!r}")
            except ValueError:
                pass
            except Exception as e:
                run.oracle_failure(dict(case0, what="get_magnitude_index", p=[repr(float(x))]), f"raised {type(e).__name__} instead of ValueError")
        # ---- the Lean model of the call sites (values inside the Soft64 domain only)
        ok_dom = [bool(c02.in_model_domain(g, "f64", x)) for x in mags]
        mm = [x for x, o in zip(mags, ok_dom) if o]
        if not mm or len(mm) != len(mags):
            continue
        bins_s = ",".join(frac(float(x)) for x in g.bins)
        tol_s = "none" if tol is None else frac(tol)
        q = ctx.drv.ask(f"c02_calls f64 {tol_s} {bins_s} {','.join(frac(float(x)) for x in mm)}")
        # get_magnitude_index of ALL magnitudes (raises when one is below the first edge)
        try:
            gall = [int(v) for v in numpy.asarray(fore.get_magnitude_index(numpy.array(mm), tol=tol))]
        except ValueError:
            gall = "E"
        except Exception as e:
            gall = "EXC:" + type(e).__name__
        ctx.pending.append(("calls", q, case0, dict(gmi=gall, mc=[int(v) for v in cnt], gi=gi if tol is None else None,
                                                     band=any(len(a) > 1 for a in al))))
        if len(ctx.pending) >= 40:
            c02.flush(ctx)


def flush_calls(ctx, item, res):
    run = ctx.run
    _, qi, case, impl = item
    try:
        f = dict(t.split(":", 1) for t in res.split("!"))
        L = lambda s: [] if s == "-" else [int(v) for v in s.split(",")]
        mod = dict(gmi="E" if f["gmi"] == "E" else L(f["gmi"]), mc=L(f["mc"]), gi=L(f["gi"]))
    except Exception:
        run.mismatch(case, "c02_calls", res[:200])
        return
    keys = ["gmi", "mc"] + (["gi"] if impl["gi"] is not None else [])
    ctx.bit_total += 1
    if all(mod[k] == impl[k] for k in keys):
        ctx.bitexact += 1
    elif impl["band"]:
        # some magnitude lies in a round-off band: both answers are allowed by the property, the oracle has judged the implementation
        if len(ctx.bit_diff) < 5:
            ctx.bit_diff.append(dict(case, impl=str({k: impl[k] for k in keys})[:200], model=str({k: mod[k] for k in keys})[:200]))
    else:
        run.mismatch(case, str({k: impl[k] for k in keys})[:400], str({k: mod[k] for k in keys})[:400])


def run_calls(ctx, c02, tier):
    rng = ctx.rng
    specs = [dict(kind="mw"), dict(kind="magbins", start="3.95", end="8.95", h="0.1"), dict(kind="decimal", S=59, D=273, nd=1, n=12)]
    for _ in range(6 if tier == "quick" else 40):
        s = c02.rand_decimal_spec(rng, 200)
        if s["n"] >= 2:
            specs.append(s)
    for _ in range(3 if tier == "quick" else 20):
        st = rng.randint(-30, 80)
        h = rng.choice([1, 2, 5, 10, 25])
        n = rng.randint(2, 60)
        specs.append(dict(kind="magbins", start=str(st / 10.0), end=str((st + h * n) / 10.0), h=str(h / 10.0)))
    for spec in specs:
        try:
            g = c02.build_grid(spec)
            check_calls_on_grid(ctx, c02, g, "calls")
        except Exception as e:
            if type(e).__name__ in ("RuntimeError",):
                raise
            ctx.run.oracle_failure(dict(kind="calls", grid=spec, what="exception"),
                                   f"exception {type(e).__name__}: {e} in the magnitude call sites")
    # argument checks of create_space_magnitude_region
    from csep.core import regions
    reg = regions.CartesianGrid2D.from_origins(numpy.array([[0., 0.], [0.1, 0.]]), dh=0.1)
    for arg, mags, exc in ((object(), [1.0, 2.0], TypeError), (reg, None, ValueError)):
        try:
            regions.create_space_magnitude_region(arg, mags)
            ctx.run.oracle_failure(dict(kind="calls", what="create_space_magnitude_region"),
                                   f"create_space_magnitude_region accepted region={type(arg).__name__}, magnitudes={mags!r}")
        except exc:
            pass
        except Exception as e:
            ctx.run.count("create_space_magnitude_region_other_exception:" + type(e).__name__)
