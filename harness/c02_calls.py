"""C02 — the magnitude call sites of bin1d_vec (Model/Bin1dCalls.lean): CSEPCatalog.get_mag_idx, CSEPCatalog.magnitude_counts
(mag_bins=, tol=, retbins=), GriddedForecast.get_magnitude_index (tol=; float64, float32, integer and list inputs),
regions.magnitude_bins and regions.create_space_magnitude_region. Each result is judged by the exact oracle of the property
(`allowed_exact` of harness/c02.py — NOT by comparing with bin1d_vec) and compared with the Lean op `c02_calls`."""
from fractions import Fraction

import numpy

from .core import frac

TOLS = [None, None, 1e-5, 1e-9, 0.0]

# Input classes on which unchanged pyCSEP contradicts the property as read by this check (observed and counted, not enforced)
AWAITING_DECISION = [
    "a NaN or -inf value: bin1d_vec returns the minimum int64 (p - a0 + |p|*eps is nan, cast to int64) instead of -1, so "
    "get_magnitude_index does not raise for it and get_mag_idx returns that number; +inf is handled and enforced",
]


def _mags_for(c02, g, rng, tol):
    """magnitudes around a sample of edges (on the edge, +-1..4096 ulps, mid-bin), a few below the first edge, far above the last"""
    idx = numpy.arange(g.n) if g.n <= 12 else numpy.unique(numpy.array([0, 1, g.n - 2, g.n - 1] + rng.sample(range(g.n), 8)))
    v = c02.values_around(g, rng, idx, "f64", dense=False)
    v = v[numpy.isfinite(v)]
    v = v[numpy.abs(v) < 1e15]
    if tol:
        # values just inside and just outside the overridden tolerance below each sampled edge
        e = g.e64[idx]
        v = numpy.concatenate([v, e - 0.5 * tol, e - 2.5 * tol, e - 1.01 * tol * 3, e + 0.5 * tol])
    rs = numpy.random.default_rng(rng.randrange(2 ** 32))
    v = rs.permutation(v)
    return v[:rng.choice([40, 120, 300])]


def _allowed_sets(c02, g, pd, tol, vals):
    return [c02.allowed_val(g, pd, tol, True, x) for x in vals]


def round7_classes(ctx, c02, g, tag):
    """Input classes of round 7 on the magnitude call sites of one grid (float64 edges), every index judged by the exact oracle:
    (j) a USER CATALOG SUBCLASS that overrides the documented accessor get_magnitudes() (it stores magnitude - 1 and converts back): the
        accessor is the source of truth for get_mag_idx / magnitude_counts (region edges and explicit edges) / spatial_magnitude_counts;
    (h) COPIES BEFORE USE: deepcopy / pickle image of the catalog, of the forecast and of the region carrying the edges;
    (i) STATE AFTER A CAUGHT EXCEPTION: a rejected call first (magnitude below the first edge, decreasing edges), then the legal one on
        the same objects;
    (k) GLOBAL NUMERIC STATE: numpy.errstate(divide='raise', invalid='raise') and decimal.localcontext(prec 2..6) around the calls;
    (m) DEGENERATE COUNTS: catalogs of 0, 1 and 2 events; a ONE-edge grid with one event below and one above the edge."""
    import copy, pickle, decimal
    run, rng = ctx.run, ctx.rng
    from csep.core.catalogs import CSEPCatalog
    from csep.core.forecasts import GriddedForecast
    from csep.core import regions
    from csep.utils.calc import bin1d_vec, discretize
    if g.n < 2 or g.bd != "f64" or not g.premise("f64", None):
        return
    mags = _mags_for(c02, g, rng, None)
    mags = numpy.array([float(x) for x in mags if numpy.isfinite(x) and abs(float(x)) < 1e12])[:80]
    # the user class converts: stored = m - 1, accessor returns stored + 1 (kept where that is exact)
    mags = numpy.array([m for m in mags if (m - 1.0) + 1.0 == m])
    if len(mags) == 0:
        return
    al = _allowed_sets(c02, g, "f64", None, mags)
    case0 = dict(kind="calls", grid=g.spec, tol=None, tag=tag + "-round7", what="round7", p=[repr(float(x)) for x in mags[:6]])
    run.count("round7_call_site_grids")

    class ConvertedCatalog(CSEPCatalog):
        """keeps another magnitude in its `magnitude` column and returns the converted one from the documented accessor"""
        def get_magnitudes(self):
            return self.catalog["magnitude"] + 1.0

    def judge(what, idx, vals=mags, sets=al):
        idx = numpy.asarray(idx)
        if idx.shape != (len(vals),):
            run.oracle_failure(dict(case0, what=what), f"{what}: shape {idx.shape} for {len(vals)} magnitudes")
            return False
        for x, i, a in zip(vals, idx, sets):
            if int(i) not in a:
                run.oracle_failure(dict(case0, what=what, p=[repr(float(x))]), f"{what}: index {int(i)} for magnitude {float(x)!r}; the property allows {sorted(a)}")
                return False
        return True

    def judge_counts(what, cnt, vals=mags, sets=al, n=g.n):
        cnt = numpy.asarray(cnt, dtype=float)
        lo, hi = numpy.zeros(n), numpy.zeros(n)
        for a in sets:
            for k in a:
                if k >= 0:
                    hi[k] += 1
            if len(a) == 1 and min(a) >= 0:
                lo[min(a)] += 1
        if cnt.shape != (n,) or numpy.any(cnt < lo) or numpy.any(cnt > hi):
            run.oracle_failure(dict(case0, what=what), f"{what} = {cnt.tolist()[:12]}…; per bin between {lo.tolist()[:12]} and {hi.tolist()[:12]}")
            return False
        return True
    try:
        reg = regions.create_space_magnitude_region(regions.CartesianGrid2D.from_origins(numpy.array([[0., 0.], [0.1, 0.]]), dh=0.1), g.bins)
        rows = lambda vals: [(str(i), 1000 * i, 0.05, 0.05, 0.0, float(m)) for i, m in enumerate(vals)]
        # ---- (j)
        uc = ConvertedCatalog(data=rows(mags - 1.0), region=reg)
        if not numpy.array_equal(numpy.asarray(uc.get_magnitudes()), mags):
            raise RuntimeError("harness: the subclass accessor does not return the intended magnitudes")
        ok = judge("user subclass (get_magnitudes overridden): get_mag_idx", uc.get_mag_idx()) and \
            judge_counts("user subclass: magnitude_counts() with the region's edges", uc.magnitude_counts()) and \
            judge_counts("user subclass: magnitude_counts(mag_bins=edges)", uc.magnitude_counts(mag_bins=g.bins))
        inr0 = [k for k, a in enumerate(al) if -1 not in a]       # spatial_magnitude_counts rejects a magnitude below the first edge
        if ok and inr0:
            ucin = ConvertedCatalog(data=rows(mags[inr0] - 1.0), region=reg)
            smc = numpy.asarray(ucin.spatial_magnitude_counts(mag_bins=g.bins), dtype=float)
            ok = smc.ndim == 2 and judge_counts("user subclass: spatial_magnitude_counts (cell 0)", smc[0], mags[inr0], [al[k] for k in inr0])
        if not ok:
            return
        # ---- (h)
        cat = CSEPCatalog(data=rows(mags), region=reg)
        fore = GriddedForecast(data=numpy.ones((2, g.n)), region=reg, magnitudes=g.bins)
        inr = [k for k, a in enumerate(al) if -1 not in a]
        for fname, f in (("copy.deepcopy", copy.deepcopy), ("pickle round trip", lambda x: pickle.loads(pickle.dumps(x))), ("copy.copy", copy.copy)):
            c2, f2 = f(cat), f(fore)
            c3 = CSEPCatalog(data=rows(mags), region=f(reg))
            if not (judge(f"{fname} of the catalog: get_mag_idx", c2.get_mag_idx()) and
                    judge_counts(f"{fname} of the catalog: magnitude_counts()", c2.magnitude_counts()) and
                    judge(f"catalog bound to the {fname} of the region: get_mag_idx", c3.get_mag_idx())):
                return
            if inr and not judge(f"{fname} of the forecast: get_magnitude_index", f2.get_magnitude_index(mags[inr]), mags[inr], [al[k] for k in inr]):
                return
        # ---- (i)
        below = float(g.e64[0]) - 0.5 * float(g.hF)
        for bad in (lambda: fore.get_magnitude_index([below]), lambda: discretize(numpy.array([below]), g.bins),
                    lambda: bin1d_vec([1.0], [3.0, 2.0, 1.0]), lambda: cat.magnitude_counts(mag_bins=[])):
            try:
                bad()
            except Exception:
                pass
        if inr and not judge("get_magnitude_index after a rejected call on the same forecast", fore.get_magnitude_index(mags[inr]), mags[inr], [al[k] for k in inr]):
            return
        if not (judge("get_mag_idx after rejected calls", cat.get_mag_idx()) and
                judge("bin1d_vec after a rejected (decreasing) grid", bin1d_vec(mags, g.bins, right_continuous=True))):
            return
        # ---- (k)
        with decimal.localcontext() as dctx:
            dctx.prec = rng.choice([2, 3, 4, 5, 6])
            with numpy.errstate(divide="raise", invalid="raise"):
                a1, a2, a3 = cat.get_mag_idx(), cat.magnitude_counts(), (fore.get_magnitude_index(mags[inr]) if inr else [])
                a4 = bin1d_vec(mags, g.bins, right_continuous=False)
        if not (judge("get_mag_idx under numpy.errstate(raise) / a lowered decimal context", a1) and
                judge_counts("magnitude_counts under numpy.errstate(raise) / a lowered decimal context", a2)):
            return
        if inr and not judge("get_magnitude_index under numpy.errstate(raise) / a lowered decimal context", a3, mags[inr], [al[k] for k in inr]):
            return
        if not judge("bin1d_vec (closed) under numpy.errstate(raise)", a4, mags, [c02.allowed_val(g, "f64", None, False, x) for x in mags]):
            return
        # ---- (m)
        for cnt_ev in (0, 1, 2):
            ce = CSEPCatalog(data=rows(mags[:cnt_ev]), region=reg)
            if not (judge(f"get_mag_idx of a catalog of {cnt_ev} events", ce.get_mag_idx(), mags[:cnt_ev], al[:cnt_ev]) and
                    judge_counts(f"magnitude_counts of a catalog of {cnt_ev} events", ce.magnitude_counts(), mags[:cnt_ev], al[:cnt_ev])):
                return
        e0 = float(g.e64[1])
        one = numpy.array([e0])
        two = CSEPCatalog(data=rows([e0 - 0.5 * float(g.hF), e0 + 0.5 * float(g.hF)]), region=reg)
        c1 = numpy.asarray(two.magnitude_counts(mag_bins=one), dtype=float)
        if c1.shape != (1,) or float(c1[0]) != 1.0:
            run.oracle_failure(dict(case0, what="one-edge grid"), f"magnitude_counts(mag_bins=[{e0!r}]) of one event below and one above the edge is {c1.tolist()} (expected [1.0])")
            return
        run.evaluations += 20
    except RuntimeError:
        raise
    except Exception as e:
        import traceback
        run.oracle_failure(dict(case0, what="round7"), f"{type(e).__name__}: {str(e)[:160]} | {traceback.format_exc().splitlines()[-3].strip()[:140]}")


def check_calls_on_grid(ctx, c02, g, tag):
    """one grid (float64 edges): all call sites, several tolerances"""
    run, rng = ctx.run, ctx.rng
    from csep.core.catalogs import CSEPCatalog
    from csep.core.forecasts import GriddedForecast
    from csep.core import regions
    if g.n == 0 or g.bd != "f64":
        return
    base_reg = regions.CartesianGrid2D.from_origins(numpy.array([[0., 0.], [0.1, 0.]]), dh=0.1)
    round7_classes(ctx, c02, g, tag)
    for tol in rng.sample(TOLS, 3):
        if not g.premise("f64", tol):
            run.count("calls_premise_not_met_skipped")
            continue
        mags = _mags_for(c02, g, rng, tol)
        case0 = dict(kind="calls", grid=g.spec, tol=tol, tag=tag, p=[repr(float(x)) for x in mags[:6]], n_values=len(mags))
        al = _allowed_sets(c02, g, "f64", tol, mags)
        run.case(case0, None)
        run.evaluations += len(mags) - 1
        run.count("call_sites_grid_tol")
        # ---- create_space_magnitude_region + catalog.get_mag_idx (default tolerance only: it takes no tol)
        try:
            reg = regions.create_space_magnitude_region(
                regions.CartesianGrid2D.from_origins(numpy.array([[0., 0.], [0.1, 0.]]), dh=0.1), g.bins)
        except Exception as e:
            run.oracle_failure(dict(case0, what="create_space_magnitude_region"), f"raised {type(e).__name__}: {e}")
            return
        if reg.magnitudes is not g.bins and not numpy.array_equal(numpy.asarray(reg.magnitudes), g.bins) or \
                getattr(reg, "num_mag_bins", None) != g.n:
            run.oracle_failure(dict(case0, what="create_space_magnitude_region"),
                               f"region.magnitudes / num_mag_bins = {getattr(reg, 'num_mag_bins', None)} are not the {g.n} edges given")
            return
        cat = CSEPCatalog(data=[(str(i), 1000 * i, 0.05, 0.05, 0.0, float(m)) for i, m in enumerate(mags)], region=reg)
        al0 = al if tol is None else _allowed_sets(c02, g, "f64", None, mags)
        try:
            gi = [int(v) for v in numpy.asarray(cat.get_mag_idx())]
        except Exception as e:
            run.oracle_failure(dict(case0, what="get_mag_idx"), f"get_mag_idx raised {type(e).__name__}: {e}")
            return
        for x, i, a in zip(mags, gi, al0):
            if i not in a:
                run.oracle_failure(dict(case0, what="get_mag_idx", p=[repr(float(x))], tol=None),
                                   f"CSEPCatalog.get_mag_idx gave {i} for magnitude {float(x)!r}; the property allows {sorted(a)} (open-ended last bin)")
                break
        # ---- catalog.magnitude_counts(mag_bins, tol, retbins)
        try:
            rb, cnt = cat.magnitude_counts(mag_bins=g.bins, tol=tol, retbins=True)
            cnt2 = cat.magnitude_counts(mag_bins=g.bins, tol=tol)
            cnt3 = cat.magnitude_counts(tol=tol)            # edges taken from the region
            empty = CSEPCatalog(data=[], region=reg).magnitude_counts(mag_bins=g.bins, tol=tol)
        except Exception as e:
            run.oracle_failure(dict(case0, what="magnitude_counts"), f"magnitude_counts raised {type(e).__name__}: {e}")
            return
        cnt = numpy.asarray(cnt, dtype=float)
        lo = numpy.zeros(g.n)
        hi = numpy.zeros(g.n)
        for a in al:
            for k in a:
                if k >= 0:
                    hi[k] += 1
            if len(a) == 1 and min(a) >= 0:
                lo[min(a)] += 1
        nmin = sum(1 for a in al if -1 not in a)
        nmax = sum(1 for a in al if a != {-1})
        bad = None
        if cnt.shape != (g.n,) or not numpy.array_equal(numpy.asarray(rb), g.bins):
            bad = f"shape {cnt.shape} / returned bins differ from the {g.n} edges given"
        elif numpy.any(cnt != numpy.round(cnt)) or numpy.any(cnt < lo) or numpy.any(cnt > hi):
            k = int(numpy.argmax((cnt < lo) | (cnt > hi) | (cnt != numpy.round(cnt))))
            bad = f"bin {k} holds {cnt[k]!r} events; between {int(lo[k])} and {int(hi[k])} magnitudes belong to it"
        elif not (nmin <= cnt.sum() <= nmax):
            bad = f"{cnt.sum()!r} events counted in total; between {nmin} and {nmax} magnitudes are at or above the first edge"
        elif not numpy.array_equal(cnt, numpy.asarray(cnt2)) or not numpy.array_equal(cnt, numpy.asarray(cnt3)):
            bad = "counts differ between retbins=True / retbins=False / edges taken from the region"
        elif numpy.asarray(empty).shape != (g.n,) or numpy.any(numpy.asarray(empty) != 0):
            bad = f"empty catalog: counts {numpy.asarray(empty).tolist()[:8]!r}"
        if bad:
            run.oracle_failure(dict(case0, what="magnitude_counts"), f"CSEPCatalog.magnitude_counts(tol={tol!r}): {bad}")
        # ---- forecast.get_magnitude_index(mags, tol) : float64 array, list, float32, integers
        fore = GriddedForecast(data=numpy.ones((2, g.n)), region=base_reg, magnitudes=g.bins)
        must = [x for x, a in zip(mags, al) if a == {-1}]
        can = [x for x, a in zip(mags, al) if -1 not in a]
        forms = [("f64", numpy.array(can, dtype=float)), ("list", [float(x) for x in can])]
        f32 = numpy.array(can, dtype=numpy.float32)
        if g.premise("f32", tol) and len(can):
            forms.append(("f32", f32))
        ints = numpy.unique(numpy.round(numpy.array(can, dtype=float))).astype(numpy.int64) if len(can) else numpy.array([], dtype=numpy.int64)
        if len(ints):
            forms.append(("i64", ints))
        model_gmi = None
        for fname, arr in forms:
            pd = {"f64": "f64", "list": "f64", "f32": "f32", "i64": "i64"}[fname]
            vals = list(arr)
            als = _allowed_sets(c02, g, pd, tol, vals)
            try:
                out = [int(v) for v in numpy.asarray(fore.get_magnitude_index(arr, tol=tol))]
                res = "ok"
            except Exception:
                # HOW a magnitude below the first edge is reported (ValueError today) is not the property's business: any rejection counts
                out, res = None, "ValueError"
            run.count("get_magnitude_index_" + fname)
            if res == "ok":
                for x, i, a in zip(vals, out, als):
                    if i not in a or i < 0:
                        run.oracle_failure(dict(case0, what="get_magnitude_index", form=fname, p=[c02.val_repr(pd, x)]),
                                           f"get_magnitude_index(tol={tol!r}) gave {i} for {c02.val_repr(pd, x)} ({fname}); the property allows {sorted(a)}")
                        break
            elif res == "ValueError":
                if all(-1 not in a for a in als):
                    run.oracle_failure(dict(case0, what="get_magnitude_index", form=fname, p=[c02.val_repr(pd, x) for x in vals[:6]]),
                                       f"get_magnitude_index(tol={tol!r}) raised ValueError although every magnitude ({fname}) is at or above the first edge")
            else:
                run.oracle_failure(dict(case0, what="get_magnitude_index", form=fname), f"get_magnitude_index raised {res}")
            if fname == "f64":
                model_gmi = (vals, out if res == "ok" else "E")
        for x in must[:3]:
            try:
                fore.get_magnitude_index(numpy.array(list(can[:3]) + [x]), tol=tol)
                run.oracle_failure(dict(case0, what="get_magnitude_index", p=[repr(float(x))]),
                                   f"get_magnitude_index(tol={tol!r}) accepted the magnitude {float(x)!r} below the first edge {float(g.e64[0])!r}")
            except Exception:
                pass          # rejected (ValueError today; the exception class is not part of the property)
        # ---- the Lean model of the call sites (values inside the Soft64 domain only)
        ok_dom = [bool(c02.in_model_domain(g, "f64", x)) for x in mags]
        mm = [x for x, o in zip(mags, ok_dom) if o]
        if not mm or len(mm) != len(mags):
            continue
        bins_s = ",".join(frac(float(x)) for x in g.bins)
        tol_s = "none" if tol is None else frac(tol)
        q = ctx.drv.ask(f"c02_calls f64 {tol_s} {bins_s} {','.join(frac(float(x)) for x in mm)}")
        # get_magnitude_index of ALL magnitudes (raises when one is below the first edge)
        try:
            gall = [int(v) for v in numpy.asarray(fore.get_magnitude_index(numpy.array(mm), tol=tol))]
        except Exception:
            gall = "E"
        ctx.pending.append(("calls", q, case0, dict(gmi=gall, mc=[int(v) for v in cnt], gi=gi if tol is None else None,
                                                     band=any(len(a) > 1 for a in al))))
        if len(ctx.pending) >= 40:
            c02.flush(ctx)


def flush_calls(ctx, item, res):
    run = ctx.run
    _, qi, case, impl = item
    try:
        f = dict(t.split(":", 1) for t in res.split("!"))
        L = lambda s: [] if s == "-" else [int(v) for v in s.split(",")]
        mod = dict(gmi="E" if f["gmi"] == "E" else L(f["gmi"]), mc=L(f["mc"]), gi=L(f["gi"]))
    except Exception:
        run.mismatch(case, "c02_calls", res[:200])
        return
    keys = ["gmi", "mc"] + (["gi"] if impl["gi"] is not None else [])
    ctx.bit_total += 1
    if all(mod[k] == impl[k] for k in keys):
        ctx.bitexact += 1
    elif impl["band"]:
        # some magnitude lies in a round-off band: both answers are allowed by the property, the oracle has judged the implementation
        if len(ctx.bit_diff) < 5:
            ctx.bit_diff.append(dict(case, impl=str({k: impl[k] for k in keys})[:200], model=str({k: mod[k] for k in keys})[:200]))
    else:
        run.mismatch(case, str({k: impl[k] for k in keys})[:400], str({k: mod[k] for k in keys})[:400])


def run_calls(ctx, c02, tier):
    rng = ctx.rng
    specs = [dict(kind="mw"), dict(kind="magbins", start="3.95", end="8.95", h="0.1"), dict(kind="decimal", S=59, D=273, nd=1, n=12)]
    for _ in range(6 if tier == "quick" else 40):
        s = c02.rand_decimal_spec(rng, 200)
        if s["n"] >= 2:
            specs.append(s)
    for _ in range(3 if tier == "quick" else 20):
        st = rng.randint(-30, 80)
        h = rng.choice([1, 2, 5, 10, 25])
        n = rng.randint(2, 60)
        specs.append(dict(kind="magbins", start=str(st / 10.0), end=str((st + h * n) / 10.0), h=str(h / 10.0)))
    for spec in specs:
        try:
            g = c02.build_grid(spec)
            check_calls_on_grid(ctx, c02, g, "calls")
        except Exception as e:
            if type(e).__name__ in ("RuntimeError",):
                raise
            ctx.run.oracle_failure(dict(kind="calls", grid=spec, what="exception"),
                                   f"exception {type(e).__name__}: {e} in the magnitude call sites")
    for spec in specs[:3] + rng.sample(specs[3:], min(len(specs) - 3, 9 if tier == "quick" else 40)):
        try:
            session(ctx, c02, spec, tier)
        except RuntimeError:
            raise
    nonfinite_and_sizes(ctx, c02, tier)
    # argument checks of create_space_magnitude_region
    from csep.core import regions
    reg = regions.CartesianGrid2D.from_origins(numpy.array([[0., 0.], [0.1, 0.]]), dh=0.1)
    for arg, mags, exc in ((object(), [1.0, 2.0], TypeError), (reg, None, ValueError)):
        try:       # misconfiguration (no region / no magnitudes) is outside the property: observed, not judged
            regions.create_space_magnitude_region(arg, mags)
            ctx.run.count("create_space_magnitude_region: misconfiguration accepted (not judged)")
        except exc:
            ctx.run.count("create_space_magnitude_region: misconfiguration rejected as documented")
        except Exception as e:
            ctx.run.count("create_space_magnitude_region_other_exception:" + type(e).__name__)


# ------------------------------------------------------------------------------------------------- sessions on shared objects
def _judge(c02, run, case, what, g, pd, tol, vals, out):
    """every index must be in the property's allowed set for the CURRENT edges"""
    for x, i in zip(vals, out):
        a = c02.allowed_val(g, pd, tol, True, x)
        if int(i) not in a:
            run.oracle_failure(dict(case, what=what, p=[c02.val_repr(pd, x)]),
                               f"{what}: index {int(i)} for {c02.val_repr(pd, x)}; with the edges as they are NOW the property allows {sorted(a)}")
            return False
    return True


def session(ctx, c02, spec0, tier):
    """ONE edge array object shared by a region, two catalogs and forecasts; ONE value array; a random sequence of calls
    (bin1d_vec in both modes / with tol, discretize, get_mag_idx, magnitude_counts with and without explicit edges,
    get_magnitude_index, magnitude_bins / cleaner_range), in-place edits of the shared edge array by the caller, re-binding of
    the region's edges (create_space_magnitude_region, a second forecast on the same region). After every step the result is
    judged against the edges as they are at that moment (recomputed from scratch), and the arrays handed in must be unchanged."""
    run, rng = ctx.run, ctx.rng
    from csep.core.catalogs import CSEPCatalog
    from csep.core.forecasts import GriddedForecast
    from csep.core import regions
    from csep.utils.calc import bin1d_vec, discretize, cleaner_range
    from csep.utils.constants import CSEP_MW_BINS
    g0 = c02.build_grid(spec0)
    if g0.n < 3 or g0.bd != "f64" or not g0.premise("f64", None):
        return
    B = numpy.array(g0.bins, dtype=float)            # THE shared edge array
    h = float(g0.hF)

    def grid_now(arr):
        return c02.Grid(arr, dict(kind="explicit", edges=[repr(float(x)) for x in arr]))
    g = grid_now(B)
    idx = numpy.arange(g.n) if g.n <= 10 else numpy.unique(numpy.array([0, 1, g.n - 1] + rng.sample(range(g.n), 6)))
    P = c02.values_around(g, rng, idx, "f64", dense=False)
    P = P[numpy.isfinite(P) & (numpy.abs(P) < 1e12)]
    P = numpy.random.default_rng(rng.randrange(2 ** 32)).permutation(P)[:150]
    Psnap = P.copy()
    steps = []
    case0 = dict(kind="calls", grid=spec0, tag="session", what="session")
    run.case(case0, ("c02-session", ctx.gid, len(P)))
    run.count("shared_object_sessions")
    try:
        R = regions.create_space_magnitude_region(regions.CartesianGrid2D.from_origins(numpy.array([[0., 0.], [0.1, 0.]]), dh=0.1), B)
        R0 = regions.CartesianGrid2D.from_origins(numpy.array([[0., 0.], [0.1, 0.]]), dh=0.1)      # a region without magnitudes
        mk = lambda reg: CSEPCatalog(data=[(str(i), 1000 * i, 0.05, 0.05, 0.0, float(m)) for i, m in enumerate(P)], region=reg)
        cats = [mk(R), mk(R), mk(None), mk(R0)]
        fore = GriddedForecast(data=numpy.ones((2, g.n)), region=R, magnitudes=B)
    except Exception as e:
        run.oracle_failure(case0, f"building the session objects raised {type(e).__name__}: {e}")
        return
    cur = B               # the array object the shared region's magnitudes are expected to BE
    # the current code binds the caller's array ITSELF (no copy): the session then also lets the caller edit it in place. A tree that
    # takes a defensive copy is accepted: identity is not demanded and the in-place edits of the caller are left out (the property is
    # about the edges in force, not about aliasing)
    alias = R.magnitudes is B
    if not alias:
        run.count("session: the region keeps a COPY of the edge array (aliasing steps skipped)")

    def same_edges(a, b):
        return (a is b) if alias else (a is not None and numpy.array_equal(numpy.asarray(a, dtype=float), numpy.asarray(b, dtype=float)))
    for stepno in range(rng.randint(5, 10)):
        kind = rng.choice(["bin1d", "bin1d", "disc", "magidx", "counts", "counts_explicit", "gmi", "edit", "rebind", "forecast2",
                           "generator", "default_bins"])
        tol = rng.choice(TOLS)
        case = dict(case0, steps=steps + [kind], tol=tol)
        gcur = grid_now(numpy.asarray(cur, dtype=float))
        if not gcur.premise("f64", tol):
            tol = None
            if not gcur.premise("f64", None):
                break
        Bsnap = numpy.array(cur, dtype=float).copy()
        try:
            if kind == "bin1d":
                rc = rng.random() < 0.5
                out = numpy.asarray(bin1d_vec(P, cur, tol=tol, right_continuous=rc))
                for x, i in zip(P, out):
                    a = c02.allowed_val(gcur, "f64", tol, rc, x)
                    if int(i) not in a:
                        run.oracle_failure(dict(case, kind="bin1d", grid=gcur.spec, pd="f64", rc=rc, p=[repr(float(x))]),
                                           f"bin1d_vec (step {stepno + 1} of a session on shared arrays) returned {int(i)} for {float(x)!r}; allowed {sorted(a)}")
                        return
            elif kind == "disc":
                inr = P[(P >= cur[0] + 1e-6 * h) & (P < cur[-1])]
                if len(inr):
                    d = numpy.asarray(discretize(inr, cur, right_continuous=True))
                    for x, v in zip(inr, d):
                        a = c02.allowed_val(gcur, "f64", None, True, x)
                        if not any(k >= 0 and float(gcur.e64[k]) == float(v) for k in a):
                            run.oracle_failure(dict(case, p=[repr(float(x))]), f"discretize gave {float(v)!r} for {float(x)!r}; allowed bins {sorted(a)} of the current edges")
                            return
            elif kind == "magidx":
                c = rng.choice(cats[:2])
                if not _judge(c02, run, case, "get_mag_idx", gcur, "f64", None, P, numpy.asarray(c.get_mag_idx())):
                    return
            elif kind in ("counts", "counts_explicit"):
                c = rng.choice(cats[:2])
                if kind == "counts":
                    cnt = numpy.asarray(c.magnitude_counts(tol=tol), dtype=float)
                    gg = gcur
                else:
                    other = numpy.array(cur, dtype=float) + 3 * h          # explicit edges: the region's own edges must stay bound
                    gg = grid_now(other)
                    if not gg.premise("f64", tol):
                        continue
                    cnt = numpy.asarray(c.magnitude_counts(mag_bins=other, tol=tol), dtype=float)
                al = [c02.allowed_val(gg, "f64", tol, True, x) for x in P]
                lo, hi = numpy.zeros(gg.n), numpy.zeros(gg.n)
                for a in al:
                    for k in a:
                        if k >= 0:
                            hi[k] += 1
                    if len(a) == 1 and min(a) >= 0:
                        lo[min(a)] += 1
                if cnt.shape != (gg.n,) or numpy.any(cnt < lo) or numpy.any(cnt > hi):
                    run.oracle_failure(case, f"magnitude_counts ({kind}, tol={tol!r}) = {cnt.tolist()[:12]}…; per bin between {lo.tolist()[:12]} and {hi.tolist()[:12]} for the edges in force")
                    return
            elif kind == "gmi":
                ok = [x for x in P if -1 not in c02.allowed_val(gcur, "f64", tol, True, x)]
                if ok and same_edges(fore.region.magnitudes, cur):
                    if not _judge(c02, run, case, "get_magnitude_index", gcur, "f64", tol, ok, numpy.asarray(fore.get_magnitude_index(numpy.array(ok), tol=tol))):
                        return
            elif kind == "edit":
                # the CALLER moves the shared edges in place: every consumer must follow (no result may be cached per array object)
                if not alias:
                    continue
                cur += rng.choice([0.5 * h, h, -2 * h, 3 * h])
                steps.append(kind)
                continue
            elif kind == "rebind":
                new = numpy.array(cur, dtype=float) + rng.choice([h, -h, 5 * h])
                regions.create_space_magnitude_region(R, new)
                cur = new
            elif kind == "forecast2":
                new = numpy.array(cur, dtype=float)[: max(3, gcur.n - 1)].copy()
                f2 = GriddedForecast(data=numpy.ones((2, len(new))), region=R, magnitudes=new)     # binds ITS edges to the shared region
                # (the current constructor re-binds the SHARED region's magnitudes; a tree that leaves the region it is handed
                # alone is accepted: the session goes on with whatever edges the region really carries)
                rm = R.magnitudes
                if rm is not None and len(rm) == len(new) and numpy.array_equal(numpy.asarray(rm, dtype=float), new):
                    cur = rm if isinstance(rm, numpy.ndarray) else new
                else:
                    run.count("session: a second forecast left the shared region's magnitudes alone (accepted)")
                g2 = grid_now(new)
                ok = [x for x in P if -1 not in c02.allowed_val(g2, "f64", None, True, x)]
                if ok and g2.premise("f64", None):
                    if not _judge(c02, run, case, "get_magnitude_index of the second forecast", g2, "f64", None, ok,
                                  numpy.asarray(f2.get_magnitude_index(numpy.array(ok)))):
                        return
            elif kind == "generator":
                m = rng.randint(1, 3)
                D = rng.randint(1, 50)
                S = rng.randint(-200, 900)
                cnt = rng.randint(2, 40)
                fn = rng.choice([cleaner_range, regions.magnitude_bins])
                args = (float(Fraction(S, 10 ** m)), float(Fraction(S + cnt * D, 10 ** m)), float(Fraction(D, 10 ** m)))
                exp = [float(Fraction(S + k * D, 10 ** m)) for k in range(cnt + 1)]
                a1 = fn(*args)
                got1 = [float(v) for v in a1]
                a1 += 1.0                                    # the caller edits the returned array
                got2 = [float(v) for v in fn(*args)]
                if got1 != exp or got2 != exp:
                    run.oracle_failure(dict(case, kind="cleaner", S=S, D=D, m=m, cnt=cnt), f"{fn.__name__}{args} = {got1[:5]}… then {got2[:5]}… (expected {exp[:5]}…, {len(exp)} edges) inside a session")
                    return
            else:   # default_bins (D41): no edges given — catalog without region / region without magnitudes → CSEP_MW_BINS
                c = rng.choice(cats[2:])
                had_region = c.region is not None
                cnt = numpy.asarray(c.magnitude_counts(), dtype=float)
                gmw = grid_now(numpy.array(CSEP_MW_BINS, dtype=float))
                al = [c02.allowed_val(gmw, "f64", None, True, x) for x in P]
                hi = numpy.zeros(gmw.n); lo = numpy.zeros(gmw.n)
                for a in al:
                    for k in a:
                        if k >= 0:
                            hi[k] += 1
                    if len(a) == 1 and min(a) >= 0:
                        lo[min(a)] += 1
                if cnt.shape != (gmw.n,) or numpy.any(cnt < lo) or numpy.any(cnt > hi):
                    run.oracle_failure(case, f"magnitude_counts() without edges (region {'without magnitudes' if had_region else 'None'}) is not the histogram on CSEP_MW_BINS: {cnt.tolist()[:10]}…")
                    return
                if (c.region is None) == had_region:
                    run.oracle_failure(case, "magnitude_counts() without edges bound / unbound a region object")
                    return
        except Exception as e:
            run.oracle_failure(case, f"step {stepno + 1} ({kind}) of a session on shared arrays raised {type(e).__name__}: {str(e)[:150]}")
            return
        steps.append(kind)
        # after every step: the inputs are untouched, the shared region carries the edges last bound, other regions nothing new
        if not numpy.array_equal(P, Psnap):
            run.oracle_failure(case, f"the value array handed to the library was modified by step {kind}")
            return
        if kind not in ("rebind", "forecast2") and not numpy.array_equal(numpy.asarray(cur, dtype=float), Bsnap):
            run.oracle_failure(case, f"the edge array handed to the library was modified by step {kind}")
            return
        if not same_edges(R.magnitudes, cur) or getattr(R, "num_mag_bins", None) != len(cur):
            run.oracle_failure(case, f"after step {kind} the shared region's magnitudes are not the edges last bound to it (num_mag_bins={getattr(R, 'num_mag_bins', None)}, expected {len(cur)})")
            return
    run.evaluations += len(steps) * len(P)
    # SYSTEMATIC tail (every session, not left to the draw): each API that reads the region's edges is called on ONE catalog object
    # before and after the edges of the SAME region object are re-bound in each of the three ways pyCSEP and users do it —
    # create_space_magnitude_region, a new GriddedForecast(region=R, magnitudes=…), plain `R.magnitudes = …` — and judged by the
    # oracle on the edges in force. (The seeded change C02_9 — get_mag_idx memoised per region OBJECT — depended on the drawn order.)
    c = cats[0]
    for way in ("create_space_magnitude_region", "GriddedForecast", "assignment"):
        base = numpy.array(R.magnitudes, dtype=float)
        new = base + rng.choice([h, -h, 2 * h]) if way != "GriddedForecast" else base[: max(3, len(base) - 1)].copy() + h
        case = dict(case0, steps=steps + ["systematic:" + way])
        try:
            g_old = grid_now(base)
            before = {"get_mag_idx": numpy.asarray(c.get_mag_idx()), "to_dataframe.mag_id": numpy.asarray(c.to_dataframe()["mag_id"]),
                      "magnitude_counts": numpy.asarray(c.magnitude_counts(), dtype=float)}
            if g_old.premise("f64", None) and not _judge(c02, run, case, "get_mag_idx (before re-binding)", g_old, "f64", None, P, before["get_mag_idx"]):
                return
            if way == "create_space_magnitude_region":
                regions.create_space_magnitude_region(R, new)
            elif way == "GriddedForecast":
                GriddedForecast(data=numpy.ones((2, len(new))), region=R, magnitudes=new)
            else:
                R.magnitudes = new
                R.num_mag_bins = len(new)
            g_new = grid_now(numpy.array(R.magnitudes, dtype=float))          # whatever the region really carries now
            if not g_new.premise("f64", None):
                break
            for api, fn in (("get_mag_idx", lambda: numpy.asarray(c.get_mag_idx())),
                            ("to_dataframe()['mag_id']", lambda: numpy.asarray(c.to_dataframe()["mag_id"]))):
                if not _judge(c02, run, case, f"{api} after the region's edges were re-bound by {way}", g_new, "f64", None, P, fn()):
                    return
            cnt = numpy.asarray(c.magnitude_counts(), dtype=float)
            al = [c02.allowed_val(g_new, "f64", None, True, x) for x in P]
            lo, hi = numpy.zeros(g_new.n), numpy.zeros(g_new.n)
            for a in al:
                for k in a:
                    if k >= 0:
                        hi[k] += 1
                if len(a) == 1 and min(a) >= 0:
                    lo[min(a)] += 1
            if cnt.shape != (g_new.n,) or numpy.any(cnt < lo) or numpy.any(cnt > hi):
                run.oracle_failure(case, f"magnitude_counts() after the region's edges were re-bound by {way}: {cnt.tolist()[:10]}…; per bin between {lo.tolist()[:10]} and {hi.tolist()[:10]}")
                return
            run.evaluations += 3
        except Exception as e:
            run.oracle_failure(case, f"{type(e).__name__}: {str(e)[:160]} in the systematic re-binding tail ({way})")
            return
    run.count("session_systematic_rebinding")


def nonfinite_and_sizes(ctx, c02, tier):
    """NaN / -inf values (AWAITING_DECISION[0]: observed), +inf (enforced elsewhere); more than 2^16 events in one magnitude bin;
    an edge array with more than 2^16 (not a multiple of 2^16) edges"""
    run, rng = ctx.run, ctx.rng
    from csep.core.catalogs import CSEPCatalog
    from csep.core.forecasts import GriddedForecast
    from csep.core import regions
    from csep.utils.calc import bin1d_vec
    g = c02.build_grid(dict(kind="mw"))
    for v in (float("nan"), float("-inf")):
        for rc in (False, True):
            try:
                out = [int(i) for i in numpy.asarray(bin1d_vec(numpy.array([5.0, v, 6.0]), g.bins, right_continuous=rc))]
            except Exception as e:
                out = "EXC:" + type(e).__name__
            if isinstance(out, str):
                # NaN / -inf are awaiting a decision (see AWAITING_DECISION): a tree that REJECTS such an array is not judged
                run.count("awaiting-decision: NaN / -inf value rejected with an exception")
                continue
            if not isinstance(out, list) or len(out) != 3 or out[0] != 25 or out[2] != 35:
                run.oracle_failure(dict(kind="calls", what="nonfinite", p=[repr(v)], rc=rc), f"bin1d_vec([5.0, {v!r}, 6.0]) = {out!r}: the finite neighbours must get bins 25 and 35")
            elif out[1] >= 0:
                run.oracle_failure(dict(kind="calls", what="nonfinite", p=[repr(v)], rc=rc), f"bin1d_vec placed {v!r} in bin {out[1]}")
            elif out[1] != -1:
                run.count("awaiting-decision: NaN / -inf value gets the minimum int64 instead of -1")
    # > 2^16 events in ONE bin, > 2^16 events in total (not a multiple of 2^16)
    n1 = 65536 + rng.randint(1, 3000)
    mags = numpy.concatenate([numpy.full(n1, 5.95), numpy.full(rng.randint(3, 400), 4.449999999999999), numpy.full(7, 12.5), numpy.full(5, 1.0)])
    data = numpy.zeros(len(mags), dtype=[("id", "S256"), ("origin_time", "<i8"), ("latitude", "<f8"), ("longitude", "<f8"), ("depth", "<f8"), ("magnitude", "<f8")])
    data["id"] = numpy.arange(len(mags)).astype("S256")
    data["origin_time"] = numpy.arange(len(mags)) * 1000
    data["latitude"], data["longitude"], data["magnitude"] = 0.05, 0.05, mags
    case = dict(kind="calls", what="big", n=len(mags))
    run.case(case, ("c02-big", len(mags)))
    run.count("more_than_65536_events_in_one_bin")
    run.evaluations += len(mags)
    try:
        reg = regions.create_space_magnitude_region(regions.CartesianGrid2D.from_origins(numpy.array([[0., 0.], [0.1, 0.]]), dh=0.1), g.bins)
        cat = CSEPCatalog(data=data, region=reg)
        cnt = numpy.asarray(cat.magnitude_counts())
        exp = numpy.zeros(g.n)
        for val in numpy.unique(mags):
            a = c02.allowed_val(g, "f64", None, True, val)
            if len(a) == 1 and min(a) >= 0:
                exp[min(a)] += int((mags == val).sum())
        inband = [val for val in numpy.unique(mags) if len(c02.allowed_val(g, "f64", None, True, val)) > 1]
        if cnt.shape != exp.shape or (not inband and not numpy.array_equal(cnt, exp)) or cnt.sum() != len(mags) - 5:
            run.oracle_failure(case, f"magnitude_counts of {len(mags)} events: bin 34/35 hold {cnt[34:36].tolist()}, total {cnt.sum()!r}; expected {exp[34:36].tolist()}, total {len(mags) - 5}")
        gi = numpy.asarray(cat.get_mag_idx())
        if gi.shape != mags.shape or int((gi == 34).sum() + (gi == 35).sum()) < n1 or int((gi == -1).sum()) != 5 or int((gi == g.n - 1).sum()) != 7:
            run.oracle_failure(case, f"get_mag_idx of {len(mags)} events: {int((gi == -1).sum())} below range (5), {int((gi == g.n - 1).sum())} in the open last bin (7)")
    except Exception as e:
        run.oracle_failure(case, f"{type(e).__name__}: {str(e)[:150]}")
    # > 2^16 edges
    spec = dict(kind="decimal", S=rng.randint(-40000, 5000), D=rng.choice([1, 5, 25]), nd=rng.choice([1, 2]), n=65536 + rng.randint(1, 5000))
    gb = c02.build_grid(spec)
    run.count("grid_with_more_than_65536_edges")
    c02.run_grid(ctx, gb, modes=(False, True) if tier != "quick" else (rng.random() < 0.5,), n_model=40, tag="more-than-2^16-edges", disc=False)
