"""C05 — sessions: HISTORIES of public calls on objects that share sub-objects.

One spatial region object R is shared by two or three forecasts (different magnitude edges, same number of bins: constructing a
forecast re-binds R.magnitudes in place) and by a catalog; a second catalog starts without a region (the L / CL tests bind the
forecast's region to it, D40). A random sequence of steps — construction of a (further) forecast on R, the four Poisson tests
(injected numbers or a seed), evaluations of OTHER families that read the same objects (paired T-test with scale=True / False,
W-test, N-test, target_event_rates), scale(), reads of the marginals / count arrays (they may fill caches), in-place edits of a
catalog's event array and of R.magnitudes by the caller — is executed, and after EVERY step a Poisson test is evaluated and
compared with the value recomputed FROM SCRATCH from the harness's own record of the logical state (the arrays handed to the
constructors, the last scale factor, the magnitude edges bound last, each catalog's events): the statistic of a test may depend
on what its arguments ARE at call time, never on which calls were made before.
"""
import datetime
import math

import numpy

from . import c05 as base
from .core import frac

TESTS = ("L", "CL", "S", "M")


# ----------------------------------------------------------------------------- generation (everything from rng)
def gen_session(rng, tier):
    ns = rng.choice([2, 3, 4, 6])
    nm = rng.choice([2, 3, 4])
    nx = rng.randint(1, ns)
    dm = rng.choice([0.1, 0.5, 1.0, 0.125, 0.05, 0.025, 1.0 / 3.0, 0.0625, 0.3])
    m0 = rng.choice([2.5, 4.0, 5.0, 4.125, -1.0, 1.0 / 3.0, 5.005])
    nf = rng.choice([2, 2, 3])
    shifts = [0.0] + rng.sample([-0.5, -1.0, -1.5], nf - 1)      # in units of dm: other edges, same number of bins
    g = numpy.random.default_rng(rng.randrange(2 ** 32))
    arrays = []
    for _ in range(nf):
        a = 10.0 ** g.uniform(-2, 1.5, size=(ns, nm))
        if rng.random() < 0.3:
            a[rng.randrange(ns), rng.randrange(nm)] = 0.0
        arrays.append([[float(x).hex() for x in row] for row in a])
    nev = rng.choice([0, 1, 2, 3, 5, 8, 13])
    events = [[rng.randrange(ns), rng.randrange(nm), rng.uniform(0.55, 0.7), rng.uniform(0.2, 0.8), rng.uniform(0.2, 0.8)]
              for _ in range(nev)]
    steps = [["new", 0]]
    made = {0}
    nsteps = rng.randint(5, 9) if tier == "quick" else rng.randint(6, 14)
    for _ in range(nsteps):
        kind = rng.choice(["new", "new", "test", "test", "ttest", "ttest", "wtest", "ntest", "ter", "scale", "read",
                           "editmag", "setmags"])
        k = rng.choice(sorted(made))
        c = rng.randrange(2)
        if kind == "new":
            k = rng.randrange(nf)
            made.add(k)
            steps.append(["new", k])
        elif kind == "test":
            steps.append(["test", rng.choice(TESTS), k, c, rng.choice(["inject", "inject", "seed"]), rng.randint(1, 3),
                          rng.randrange(2 ** 31)])
        elif kind == "ttest":
            steps.append(["ttest", k, rng.choice(sorted(made)), c, rng.random() < 0.6])
        elif kind == "wtest":
            steps.append(["wtest", k, rng.choice(sorted(made)), c, rng.random() < 0.5])
        elif kind == "ntest":
            steps.append(["ntest", k, c])
        elif kind == "ter":
            steps.append(["ter", k, c, rng.random() < 0.7])
        elif kind == "scale":
            # round 4 (owners): half of the scale steps hand over a numpy scalar / 0-d / per-cell / per-magnitude / per-bin array
            steps.append(["scale", k, rng.choice([0.5, 2.0, 3.0, 1.0, 0.25]) if rng.random() < 0.5
                          else base._gen_factor(rng, allow_date=False)])
        elif kind == "read":
            steps.append(["read", k, c])
        elif kind == "editmag":
            if nev:
                steps.append(["editmag", c, rng.randrange(nev)])
        else:
            steps.append(["setmags", rng.choice(sorted(made))])
    return dict(ns=ns, nm=nm, nx=nx, dh=0.1, x0=float(rng.randint(-5, 5)), y0=float(rng.randint(-5, 5)), m0=m0, dm=dm,
                shifts=shifts, arrays=arrays, events=[[e[0], e[1], e[2].hex(), e[3].hex(), e[4].hex()] for e in events],
                steps=steps, probe_seed=rng.randrange(2 ** 31))


# ----------------------------------------------------------------------------- the session
class _State:
    pass


def _mags(spec, k):
    return [spec["m0"] + spec["dm"] * (spec["shifts"][k] + j) for j in range(spec["nm"])]


def _bin_of(spec, mag, edges):
    """exact magnitude bin: last edge <= mag, open top (the generated magnitudes are >= 0.05 bin widths away from every edge)"""
    j = sum(1 for e in edges if e <= mag) - 1
    return j


def _setup(spec):
    from csep.core.catalogs import CSEPCatalog
    from csep.core.regions import CartesianGrid2D
    st = _State()
    ns, nx, dh = spec["ns"], spec["nx"], spec["dh"]
    st.origins = numpy.array([[spec["x0"] + dh * (k % nx), spec["y0"] + dh * (k // nx)] for k in range(ns)])
    st.R = CartesianGrid2D.from_origins(st.origins, dh=dh)
    st.A = [numpy.array([[float.fromhex(x) for x in row] for row in a], dtype=float) for a in spec["arrays"]]
    st.given = [None] * len(st.A)        # the very arrays handed to the constructors (must never change)
    st.fores = [None] * len(st.A)
    st.scale = [1] * len(st.A)
    st.bound = None                      # index of the forecast whose magnitude edges are bound to R
    ev = []
    st.truth = [[], []]                  # per catalog: [cell, magnitude]
    for t, e in enumerate(spec["events"]):
        i, j = e[0], e[1]
        f, fx, fy = float.fromhex(e[2]), float.fromhex(e[3]), float.fromhex(e[4])
        mag = spec["m0"] + spec["dm"] * (j + f)
        lon, lat = st.origins[i, 0] + dh * fx, st.origins[i, 1] + dh * fy
        ev.append((str(t), 1000 * t, lat, lon, 10.0, mag))
        for c in (0, 1):
            st.truth[c].append([i, mag])
    st.truth0 = [(i, m) for i, m in st.truth[0]]
    st.cats = [CSEPCatalog(data=list(ev), region=st.R, name="shared-region"), CSEPCatalog(data=list(ev), name="no-region")]
    st.cat_has_region = [True, False]
    st.log, st.tests = [], []          # ops for the Lean session model; (observed value, tolerance scale) of every test
    return st


def _new_forecast(spec, st, k):
    from csep.core.forecasts import GriddedForecast
    st.given[k] = st.A[k].copy()
    st.fores[k] = GriddedForecast(data=st.given[k], region=st.R, magnitudes=_mags(spec, k), name=f"f{k}",
                                  start_time=datetime.datetime(2020, 1, 1), end_time=datetime.datetime(2021, 1, 1))
    st.scale[k] = 1
    st.bound = k
    st.log.append("N|" + base._rows(st.A[k], base._bits) + "|" + ",".join(frac(m) for m in _mags(spec, k)))
    st.index = getattr(st, "index", {})
    st.index[k] = sum(1 for t in st.log if t.startswith("N|")) - 1      # position of this forecast object in the model's list


def _expected(spec, st, k, c):
    """(rate array, count array) recomputed from the harness's record of the logical state"""
    data = st.A[k] * st.scale[k]
    edges = _mags(spec, st.bound)
    cnt = numpy.zeros((spec["ns"], spec["nm"]), dtype=int)
    evs = []
    for i, mag in st.truth[c]:
        j = _bin_of(spec, mag, edges)
        cnt[i, j] += 1
        evs.append((i, j))
    return data, cnt, evs


def _do_test(run, drv, pending, case, spec, st, mode, k, c, how, nsim, seed, tag):
    from csep.core import poisson_evaluations as pe
    tests = {"L": pe.likelihood_test, "CL": pe.conditional_likelihood_test, "S": pe.spatial_test, "M": pe.magnitude_test}
    fore, cat = st.fores[k], st.cats[c]
    if mode == "S" and not st.cat_has_region[c]:
        mode = "CL"                                   # the S-test needs a region; L / CL bind one (D40)
    data, cnt, evs = _expected(spec, st, k, c)
    rates1d, obs1d, norm = base._arrays(mode, data, cnt)
    n = int(cnt.sum())
    g = numpy.random.default_rng(seed)
    rn, draws_txt, nsim_call, sims = None, "-", nsim, []
    label = f"session step {tag}: {mode}-test({how}) of forecast {k} against catalog {c}"
    try:
        with base._capture(pe) as rec, base._capped_uniforms(20 * (nsim + 5) + 200):
            if how == "inject" and mode != "L":
                rn = g.random((nsim, n))
                res = tests[mode](fore, cat, num_simulations=nsim, random_numbers=rn)
                sims = [base._sim_counts(rates1d, rn[q, :]) for q in range(nsim)]
            elif how == "inject":
                numpy.random.seed(seed)
                n1 = int(numpy.random.poisson(numpy.sum(data)))
                rn = g.random((1, n1))
                res = tests[mode](fore, cat, num_simulations=1, seed=seed, random_numbers=rn)
                sims = [base._sim_counts(rates1d, rn[0, :])]
                draws_txt, nsim_call = str(n1), 1
            else:
                # default random path: no injected numbers, a seed, (mostly) several simulations; the stream is re-created
                res = tests[mode](fore, cat, num_simulations=nsim, seed=seed)
                numpy.random.seed(seed)
                for _ in range(nsim):
                    nk = int(numpy.random.poisson(numpy.sum(data))) if mode == "L" else n
                    sims.append(base._sim_counts(rates1d, numpy.random.rand(nk)))
    except Exception as e:
        run.oracle_failure(case, f"{label} raised {type(e).__name__}: {e}")
        return
    if mode in ("L", "CL"):
        if not st.cat_has_region[c] and getattr(cat, "region", None) is not fore.region:
            # the test bound an EQUAL region of its own to the catalog (a copy), not the shared object: legal, but from here on
            # re-binding the shared region's edges no longer reaches this catalog - the session's bookkeeping ("edges bound
            # last hold for everybody") describes the aliasing of the present code, an incidental behaviour. This test is still
            # judged (the copy's edges are the current ones); the rest of the session is not.
            st.stop = True
            run.count("session-region-bound-as-copy")
            reg = getattr(cat, "region", None)
            if not (reg is not None and getattr(reg, "magnitudes", None) is not None and base._same_cells(reg, fore.region) and
                    numpy.array_equal(numpy.asarray(reg.magnitudes, dtype=float), numpy.asarray(fore.magnitudes, dtype=float))):
                # a copy is fine only if it bins exactly like the forecast's region: same cells, same order, same edges
                run.oracle_failure(case, f"{label}: the catalog without space-magnitude region was bound to {reg!r}, which does not "
                                         f"bin like the forecast's region (same cells, same order, same magnitude edges)")
        st.cat_has_region[c] = True
    run.count(f"session-test-{mode}-{how}")
    try:
        obs = float(res.observed_statistic)
        td = [float(x) for x in res.test_distribution]
        q = float(res.quantile)
    except Exception as e:
        run.oracle_failure(case, f"{label}: result cannot be read ({type(e).__name__}: {e})")
        return
    if len(td) != len(sims):
        run.oracle_failure(case, f"{label}: {len(td)} simulated entries for {len(sims)} simulations")
        return
    if len(rec) == len(sims) and all(len(r) == len(rates1d) for r in rec):
        sims = rec
    orates = base._oracle_arrays(mode, data, None, True)
    impl_vals, scales = [], []
    for name, counts, val in [("observed", obs1d, obs)] + [(f"simulated[{i}]", sims[i], td[i]) for i in range(len(sims))]:
        ref, scale, zero_hit = base._oracle(orates, counts, norm)
        impl_vals.append(val)
        scales.append(scale)
        if (val == -math.inf) != zero_hit:
            run.oracle_failure(case, f"{label} {name}: value {val!r} but {'an' if zero_hit else 'no'} event lies in a zero-rate bin "
                                     f"of the forecast as it is at call time")
        elif not base._close(val, ref, scale):
            run.oracle_failure(case, f"{label} {name}: value {val!r} != sum of log pmf {ref!r} for the forecast and catalog as "
                                     f"they are at call time")
    if td and not (math.isnan(obs) or any(math.isnan(v) for v in td)):
        kq = sum(1 for v in td if v <= obs)
        if abs(q - kq / len(td)) > 1e-12:
            run.oracle_failure(case, f"{label}: quantile {q!r} is not {kq}/{len(td)}")
    st.log.append(f"T|{mode}|{st.index[k]}|{c}")
    st.tests.append((label, obs, scales[0]))
    # correspondence with the chained Lean model on the logical state
    if rn is not None:
        evtxt = ",".join(f"{i}:{j}" for i, j in evs) if evs else "-"
        rowtxt = ";".join(",".join(base._bits(x) for x in row) for row in rn) if rn.shape[1] else "-"
        i = drv.ask(f"c05_public {mode} {spec['nm']} {base._rows(data, base._bits)} {evtxt} {draws_txt} {nsim_call} {rowtxt}")
        gap = min([abs(v - obs) for v in td if not math.isinf(v - obs)] or [math.inf])
        pending.append((case, mode, f"session/{tag}", i, impl_vals, scales,
                        dict(sims=[[int(x) for x in s] for s in sims], quantile=q, nsim=len(td),
                             near_tie=gap <= 1e-7 * max(scales + [1.0]))))


def _aux(run, fn, *a, **k):
    """an evaluation of another family: its value is not C05's subject; what it leaves behind is"""
    import warnings
    try:
        with warnings.catch_warnings(), numpy.errstate(all="ignore"):
            warnings.simplefilter("ignore")
            fn(*a, **k)
        run.count("session-aux-ok")
    except Exception:
        run.count("session-aux-raised")


def eval_session(run, drv, pending, spec, tag="gen"):
    from csep.core import poisson_evaluations as pe
    case = dict(session=spec, tag=tag)
    run.case(dict(session=True, steps=[s[0] for s in spec["steps"]], tag=tag),
             ("session", str(spec["steps"]), spec["probe_seed"]))
    st = _setup(spec)
    prng = numpy.random.default_rng(spec["probe_seed"])
    for idx, step in enumerate(spec["steps"]):
        if getattr(st, "stop", False):
            break
        kind = step[0]
        run.count(f"session-step-{kind}")
        try:
            if kind == "new":
                _new_forecast(spec, st, step[1])
            elif kind == "test":
                _, mode, k, c, how, nsim, seed = step
                _do_test(run, drv, pending, case, spec, st, mode, k, c, how, nsim, seed, f"{idx}")
            elif kind == "ttest":
                _aux(run, pe.paired_t_test, st.fores[step[1]], st.fores[step[2]], st.cats[step[3]], scale=step[4])
                if not st.cat_has_region[step[3]]:
                    pass
            elif kind == "wtest":
                _aux(run, pe.w_test, st.fores[step[1]], st.fores[step[2]], st.cats[step[3]], scale=step[4])
            elif kind == "ntest":
                _aux(run, pe.number_test, st.fores[step[1]], st.cats[step[2]])
            elif kind == "ter":
                _aux(run, st.fores[step[1]].target_event_rates, st.cats[step[2]], scale=step[3])
            elif kind == "scale":
                val = step[2]
                if isinstance(val, (list, tuple)):
                    w = base._factor(val, spec["ns"], spec["nm"])
                    run.count(f"session-scale-{val[0]}")
                    if val[0] == "col":
                        st.log.append(f"A|{st.index[step[1]]}|C|" + ",".join(base._bits(x) for x in numpy.ravel(w)))
                    elif val[0] in ("row", "row2d"):
                        st.log.append(f"A|{st.index[step[1]]}|M|" + ",".join(base._bits(x) for x in numpy.ravel(w)))
                    elif val[0] == "full":
                        st.log.append(f"A|{st.index[step[1]]}|B|" + base._rows(w, base._bits))
                    else:
                        st.log.append(f"S|{st.index[step[1]]}|{base._bits(float(numpy.ravel(w)[0]))}")
                else:
                    w = val
                    st.log.append(f"S|{st.index[step[1]]}|{base._bits(val)}")
                st.fores[step[1]].scale(w)
                st.scale[step[1]] = w
            elif kind == "read":
                f, cat = st.fores[step[1]], st.cats[step[2]]
                _aux(run, f.spatial_counts)
                _aux(run, f.magnitude_counts)
                _aux(run, lambda: f.data)
                if st.cat_has_region[step[2]]:
                    _aux(run, cat.spatial_counts)
                    _aux(run, cat.spatial_magnitude_counts)
                _aux(run, cat.magnitude_counts, mag_bins=f.magnitudes)
            elif kind == "editmag":
                # the caller edits the catalog's event array in place: the event moves up by exactly one bin width
                c, e = step[1], step[2]
                top = _mags(spec, 0)[-1] + 3 * spec["dm"]
                if st.truth[c][e][1] + spec["dm"] < top:
                    st.cats[c].catalog["magnitude"][e] += spec["dm"]
                    st.truth[c][e][1] = float(st.cats[c].catalog["magnitude"][e])
                    st.log.append(f"M|{c}|{e}|{frac(st.truth[c][e][1])}")
            elif kind == "setmags":
                # the caller re-binds the magnitude edges of the shared region object
                st.R.magnitudes = numpy.array(_mags(spec, step[1]))
                st.bound = step[1]
                st.log.append("E|" + ",".join(frac(m) for m in _mags(spec, step[1])))
            if kind in ("ttest", "wtest", "ntest", "ter", "read"):
                st.log.append("O")
        except Exception as e:
            run.oracle_failure(case, f"session step {idx} {step!r} raised {type(e).__name__}: {e}")
            return
        if kind != "test" and not getattr(st, "stop", False):
            # after EVERY step: a Poisson test on objects of the session must be what a fresh evaluation would give
            made = [k for k, f in enumerate(st.fores) if f is not None]
            k = made[int(prng.integers(len(made)))]
            c = int(prng.integers(2))
            mode = ("L", "CL", "CL", "M", "S")[int(prng.integers(5))]
            _do_test(run, drv, pending, case, spec, st, mode, k, c, "inject", 1, int(prng.integers(2 ** 31)), f"{idx}+probe")
    # at the end: all four tests on every forecast of the session against the shared-region catalog
    for k, f in enumerate(st.fores):
        if f is None or getattr(st, "stop", False):
            continue
        for mode in TESTS:
            _do_test(run, drv, pending, case, spec, st, mode, k, 0, "inject", 1, int(prng.integers(2 ** 31)), f"end-{k}")
        # and the arrays handed to the constructors are still what the caller handed over
        if not numpy.array_equal(st.given[k], st.A[k]):
            run.oracle_failure(case, f"session: the rate array handed to the constructor of forecast {k} was changed in place by "
                                     f"the library (the caller's own array no longer holds the forecast)")
    # the whole history through the Lean session model: what every test step reported
    if st.tests:
        evtxt = ",".join(f"{i}:{frac(m)}" for i, m in st.truth0) if st.truth0 else "-"
        i = drv.ask(f"c05_session {spec['ns']} {evtxt} " + " ".join(st.log))
        pending.append((case, "session", "history", i, [t[1] for t in st.tests], [t[2] for t in st.tests],
                        dict(session_labels=[t[0] for t in st.tests])))
