"""C03, helper code paths (imported by harness/c03.py).

 (a) QuadtreeGrid2D._get_spatial_counts / _get_spatial_magnitude_counts  (filter in place, then count)
 (b) regions._bin_catalog_spatial_counts / _bin_catalog_probability / _bin_catalog_spatio_magnitude_counts
     (called by nothing in the package but the test-suite: driven directly with the region's own arrays)
 (c) CSEPCatalog.get_mag_idx / get_spatial_idx / to_dataframe columns region_id, mag_id
 (d) CartesianGrid2D.get_cartesian through GriddedDataSet / GriddedForecast.spatial_counts(cartesian=True)

Each against an exact recount in Python from the implementation's own bounds and against Model/GriddingExt.lean
(driver ops c03_qthelpers, c03_bincat, c03_idx_cart, c03_idx_quad, c03_cartesian)."""
import bisect
import contextlib
import io
import math

import numpy


def _qt_bounds(region):
    from .c17 import qt_bounds
    return qt_bounds(region)

from .core import Driver, frac
from .c03_seq import _guarded

# Input classes that are deliberately NOT generated (visible in the evidence as `excluded_input_classes`, in notes/C03.md).
# W1 (kept event in no cell miscounted by the space-magnitude helper) and W2 (strict south latitude bound) of the first
# version of this list were genuine and are FIXED in pyCSEP (D32 5ebf33b, D33 9ddd30e); their witnesses are corpus cases
# corpus/C03/d32_*.json, d33_*.json and their input classes are generated.
EXCLUDED_INPUT_CLASSES = [
    dict(id="W3", where="QuadtreeGrid2D._get_spatial_counts / _get_spatial_magnitude_counts (regions.py:1118, :1156)",
         why="private helper argument handling, outside the public-API properties (the helpers are called by nothing; "
             "decision of the coordinator: not fixed, kept excluded)",
         what="`mag_bins == []` raises ValueError for every numpy array of magnitude edges (numpy >= 1.25), and "
              "`mag_bins=None` reads the non-existent attribute `catalog.magnitudes` (AttributeError); only a Python "
              "list works",
         witness=dict(zoom=2, mag_bins="numpy.array([4.0, 5.0, 6.0])", events=[[10.0, 10.0, 4.5]],
                      got="ValueError: operands could not be broadcast together with shapes (3,) (0,)",
                      expected="counts"),
         avoided="mag_bins is always passed as a Python list"),
]


def excluded(wid):
    return any(w["id"] == wid for w in EXCLUDED_INPUT_CLASSES)


KINDS = ("qthelper", "cartview")


@contextlib.contextmanager
def quiet():
    with contextlib.redirect_stdout(io.StringIO()):
        yield


def _cat(region, evs):
    from csep.core.catalogs import CSEPCatalog
    data = [(str(k), 1000 * k, float(lat), float(lon), 10.0, float(m)) for k, (lon, lat, m) in enumerate(evs)]
    return CSEPCatalog(data=data, region=region)


def _ints(a):
    a = numpy.asarray(a)
    if a.size and not numpy.all(a == numpy.round(a)):
        return "non-integer"
    return a.astype(numpy.int64).tolist()


def _state(cat):
    c = cat.catalog
    return [(float(c['longitude'][k]), float(c['latitude'][k]), float(c['magnitude'][k])) for k in range(len(c))]


def rows_arg(evs):
    return [",".join(frac(ev[c]) for ev in evs) if evs else "-" for c in range(3)]


def bin_of(e, m):
    k = bisect.bisect_right(e, m) - 1   # float vs float comparisons are exact
    return k if k >= 0 else None


# =============================================================================================== private helpers of pyCSEP
def private(run, owner, name, *probe, **probe_kw):
    """a PRIVATE function / method of the tree under test that this harness drives directly, or None when it is not there
    (renamed, removed, other signature): then the direct cases are skipped — `helper-missing:<name>` in the histogram, a line
    in the assumptions — and detection rests on the public catalog methods, which reach the same mechanism."""
    import inspect
    f = getattr(owner, name, None)
    ok = callable(f)
    if ok:
        try:
            inspect.signature(f).bind(*probe, **probe_kw)
        except TypeError:
            ok = False
        except ValueError:      # no introspectable signature: try it
            pass
    if not ok:
        run.count(f"helper-missing:{name}")
        note = (f"private helper {name} is not available with the driven signature on the tree under test: its direct cases are "
                f"skipped; the public catalog methods cover the mechanism")
        if note not in run.assumptions:
            run.assumptions.append(note)
        return None
    return f


# =============================================================================================== (a) quadtree helpers
def call_qt(region, evs, which, mag_bins, f=None):
    """(result, state): result = ('ok', nested ints) | ('E', exception class name); state = catalog content afterwards"""
    cat = _cat(region, evs)
    if f is None:
        f = region._get_spatial_counts if which == "sc" else region._get_spatial_magnitude_counts
    try:
        with quiet():
            out = f(cat, mag_bins=mag_bins)
        res = ("ok", _ints(out))
    except Exception as ex:  # the class is compared with the model; the oracle decides whether raising is acceptable
        res = ("E", type(ex).__name__)
    return res, _state(cat)


def stated_filter(evs, min_edge, S, N):
    """the filter as the code states it (south inclusive, north exclusive; only when some latitude is strictly beyond)"""
    e1 = [e for e in evs if e[2] >= min_edge]
    if e1 and (min(e[1] for e in e1) < S or max(e[1] for e in e1) > N):
        return [e for e in e1 if S <= e[1] < N]
    return e1


@_guarded
def check_qthelper(run, drv, pending, case):
    """one (quadtree region, magnitude edges, catalog) through both helpers"""
    from csep.core.regions import QuadtreeGrid2D
    keys = list(case["quadkeys"])
    edges = [float(x) for x in case["edges"]]
    evs = [(float(a), float(b), float(c)) for a, b, c in case["events"]]
    mode = case.get("mag_bins", "list")
    region = QuadtreeGrid2D.from_quadkeys(keys, magnitudes=numpy.array(edges))
    b = _qt_bounds(region)
    bb = region.get_bbox()
    S, N = float(bb[2]), float(bb[3])
    if S != float(b[:, 1].min()) or N != float(b[:, 3].max()):
        run.oracle_failure(case, f"get_bbox latitude bounds {S!r},{N!r} are not the extreme cell bounds")
    min_edge = min(edges)
    bl = [tuple(float(v) for v in r) for r in b]

    def cell_of(lon, lat):
        for k, (x0, y0, x1, y1) in enumerate(bl):
            if x0 <= lon < x1 and y0 <= lat < y1:
                return k
        return None
    ncell, nbin = len(keys), len(edges)
    cells = [cell_of(lon, lat) for lon, lat, _ in evs]
    countable = [(c, bin_of(edges, m)) for c, (_, _, m) in zip(cells, evs) if m >= min_edge]
    # property-level expectation: every event at or above the minimum edge counted once in its own cell (and bin)
    e_sc = [0] * ncell
    e_smc = [[0] * nbin for _ in range(ncell)]
    for c, k in countable:
        if c is not None:
            e_sc[c] += 1
            e_smc[c][k] += 1
    nothing = not any(c is not None for c, _ in countable)
    kept = stated_filter(evs, min_edge, S, N)
    kept_unlocated = [e for e in kept if cell_of(e[0], e[1]) is None]
    # an event the helper does NOT announce to filter (latitude strictly inside the bounds) that lies in no cell
    must_reject = any(c is None and S < lat < N for c, (_, lat, m) in zip(cells, evs) if m >= min_edge)
    if mode == "list":
        mb = list(edges)
    elif mode == "ndarray":
        mb = numpy.array(edges)
    else:
        mb = None
    which = ["sc", "smc"]
    if kept_unlocated:
        run.count("qthelper:kept-event-in-no-cell")
    run.case(case if run.evaluations < 4 else None,
             ("qthelper", tuple(keys[:8]), len(keys), tuple(edges), tuple(evs)) if
             (len(kept) != len(evs) or any(e[1] in (S, N) for e in evs) or any(e[2] == min_edge for e in evs)) else None)
    run.count("qthelper:" + ("empty" if not evs else "nothing-filtered" if len(kept) == len(evs) else
                             "everything-filtered" if not kept else "some-filtered"))
    if any(e[1] == S for e in evs):
        run.count("qthelper:event-on-south-bound")
    if any(e[1] == N for e in evs):
        run.count("qthelper:event-on-north-bound")
    if any(e[2] == min_edge for e in evs):
        run.count("qthelper:magnitude-at-min-edge")
    got = {}
    fs = {w: private(run, region, "_get_spatial_counts" if w == "sc" else "_get_spatial_magnitude_counts", None, mag_bins=mb)
          for w in which}
    if any(f is None for f in fs.values()):
        return
    for w in which:
        try:
            res, state = call_qt(region, evs, w, mb, fs[w])
        except Exception as ex:
            run.oracle_failure(case, f"harness could not drive the helper: {type(ex).__name__}: {ex}")
            return
        got[w] = (res, state)
        run.count(f"qthelper:{w}:{'returns' if res[0] == 'ok' else 'raises-' + res[1]}")
        exp = e_sc if w == "sc" else e_smc
        name = "_get_spatial_counts" if w == "sc" else "_get_spatial_magnitude_counts"
        if res[0] == "ok":
            if res[1] != exp:
                run.oracle_failure(case, f"{name} = {str(res[1])[:160]}; exact recount of the events at or above the "
                                         f"minimum magnitude in their own cells{'/bins' if w == 'smc' else ''}: {str(exp)[:160]}")
            elif w == "smc" and must_reject:
                run.oracle_failure(case, f"{name} returned although an event inside the latitude bounds lies in no cell "
                                         f"(it is silently left out instead of being rejected)")
        else:
            ok = nothing or (w == "smc" and any(c is None for c, _ in countable))
            if not ok:
                run.oracle_failure(case, f"{name} raised {res[1]} although every event at or above the minimum magnitude "
                                         f"lies in a cell (expected {str(exp)[:120]})")
        # the catalog object afterwards: filtered in place (as the code is) or untouched (side-effect-free rewrite); after a
        # REJECTION the property says nothing about the object (a rewrite may raise before, between or after its filters)
        if res[0] == "E" and state != kept and state != evs:
            run.count("qthelper:state-after-rejection-other(not judged)")
        elif state == kept:
            run.count("qthelper:state-filtered-in-place")
        elif state == evs:
            run.count("qthelper:state-untouched")
        else:
            run.oracle_failure(case, f"{name} left the catalog with {len(state)} events that are neither the original "
                                     f"{len(evs)} nor the {len(kept)} events of the stated filter")
        # equal to the catalog-level method whenever nothing is filtered
        if res[0] == "ok" and len(kept) == len(evs) and evs:
            try:
                ref = _ints(_cat(region, evs).spatial_counts()) if w == "sc" else \
                    _ints(_cat(region, evs).spatial_magnitude_counts(mag_bins=numpy.array(edges)))
            except Exception:
                ref = None      # the catalog-level space-magnitude gridding rejects catalogs with unlocated events
            if ref is not None and ref != res[1]:
                run.oracle_failure(case, f"{name} differs from the catalog-level method although nothing is filtered")
    la, lo, ma = rows_arg(evs)
    q = drv.ask(" ".join(["c03_qthelpers"] + [",".join(frac(v) for v in b[:, c]) for c in range(4)] +
                         [la, lo, ma, ",".join(frac(x) for x in edges), frac(min_edge)]))
    pending.append(("qthelper", case, q, got, dict(kept_empty=not kept, evs=evs, ncell=ncell, nbin=nbin)))


def _parse_q(tok):
    """`sc:<E:kind|counts>!<state>`"""
    name, v = tok.split(":", 1)
    res, state = v.split("!", 1)
    if res.startswith("E:"):
        r = ("E", res)
    elif name == "smc":
        r = ("ok", [] if res == "-" else [[int(t) for t in row.split(",")] if row != "-" else [] for row in res.split(";")])
    else:
        r = ("ok", [] if res == "-" else [int(t) for t in res.split(",")])
    st = [] if state == "-" else [tuple(float(_f(t)) for t in row.split(":")) for row in state.split(";")]
    return r, st


def _f(t):
    from fractions import Fraction
    return Fraction(t)


# =============================================================================================== (b), (c): Cartesian
@_guarded
def check_cart_helpers(run, drv, pending, case, region, cells, cell_of, edges, evs, cart_args):
    """`_bin_catalog_*` with the region's own arrays, the index methods and the dataframe columns"""
    from csep.core import regions
    ncell = len(cells)
    e = [float(x) for x in edges]
    lons = numpy.array([v[0] for v in evs], dtype=float)
    lats = numpy.array([v[1] for v in evs], dtype=float)
    mags = numpy.array([v[2] for v in evs], dtype=float)
    cl = [cell_of(lon, lat) for lon, lat, _ in evs]
    bl = [bin_of(e, m) for _, _, m in evs]
    run.count("cart-helpers")
    internals = [getattr(region, a, None) for a in ("bbox_mask", "idx_map", "xs", "ys")]
    if any(a is None for a in internals):
        run.count("helper-missing:region.bbox_mask/idx_map")
        note = ("the internal arrays region.bbox_mask / idx_map are not available on the tree under test: the direct cases of the "
                "_bin_catalog_* helpers are skipped; the public catalog methods cover the mechanism")
        if note not in run.assumptions:
            run.assumptions.append(note)
        args = None
    else:
        args = tuple(internals)
    f_sc = args and private(run, regions, "_bin_catalog_spatial_counts", lons, lats, ncell, *args)
    f_pr = args and private(run, regions, "_bin_catalog_probability", lons, lats, ncell, *args)
    f_smc = args and private(run, regions, "_bin_catalog_spatio_magnitude_counts", lons, lats, mags, ncell, *args, numpy.asarray(e))
    if not (f_sc and f_pr and f_smc):
        # the private binning helpers are not there: only the public index methods / dataframe columns
        region.magnitudes = numpy.asarray(e)
        check_idx(run, drv, pending, case, region, "cart", cl, bl, e, evs, cart_args, True)
        region.magnitudes = None
        check_idx(run, drv, pending, case, region, "cart", cl, bl, e, evs, cart_args, False)
        region.magnitudes = numpy.asarray(e)
        return
    try:
        sc = _ints(f_sc(lons, lats, ncell, *args))
        pr = _ints(f_pr(lons, lats, ncell, *args))
        smc, skipped = f_smc(lons, lats, mags, ncell, *args, numpy.asarray(e))
        smc = _ints(smc)
        skipped = [tuple(float(v) for v in s) for s in skipped]
    except Exception as ex:
        run.oracle_failure(case, f"_bin_catalog_* raised {type(ex).__name__}: {ex}")
        return
    e_sc = [0] * ncell
    e_smc = [[0] * len(e) for _ in range(ncell)]
    e_sk = []
    for ev, c, k in zip(evs, cl, bl):
        if c is not None:
            e_sc[c] += 1
        if c is not None and k is not None:
            e_smc[c][k] += 1
        else:
            e_sk.append(tuple(ev))
    if sc != e_sc:
        run.oracle_failure(case, f"_bin_catalog_spatial_counts {str(sc)[:150]} != exact recount {str(e_sc)[:150]}")
    if pr != [1 if v > 0 else 0 for v in e_sc]:
        run.oracle_failure(case, "_bin_catalog_probability is not 1 exactly where the exact count is positive")
    if smc != e_smc:
        run.oracle_failure(case, f"_bin_catalog_spatio_magnitude_counts {str(smc)[:150]} != exact recount {str(e_smc)[:150]}")
    if skipped != e_sk:
        run.oracle_failure(case, f"_bin_catalog_spatio_magnitude_counts skipped {skipped[:4]} but the events outside the "
                                 f"region / below the first edge are {e_sk[:4]}")
    if sum(map(sum, smc)) + len(skipped) != len(evs):
        run.oracle_failure(case, "counted + skipped != number of events")
    # whenever the catalog-level methods return they agree
    region.magnitudes = numpy.asarray(e)
    try:
        ref = _ints(_cat(region, evs).spatial_counts())
        if ref != sc:
            run.oracle_failure(case, "_bin_catalog_spatial_counts differs from CSEPCatalog.spatial_counts")
    except Exception:
        pass
    try:
        ref = _ints(_cat(region, evs).spatial_magnitude_counts())
        if ref != smc or skipped:
            run.oracle_failure(case, "_bin_catalog_spatio_magnitude_counts differs from CSEPCatalog.spatial_magnitude_counts")
    except Exception:
        pass
    la, lo, ma = rows_arg(evs)
    ed = ",".join(frac(x) for x in e)
    q = drv.ask(" ".join(["c03_bincat"] + cart_args + [la, lo, ma, ed]))
    pending.append(("bincat", case, q, (sc, pr, smc, skipped), None))
    check_idx(run, drv, pending, case, region, "cart", cl, bl, e, evs, cart_args, True)
    # the same catalog on a region WITHOUT magnitude bins: no mag_id column, get_mag_idx raises
    region.magnitudes = None
    check_idx(run, drv, pending, case, region, "cart", cl, bl, e, evs, cart_args, False)
    region.magnitudes = numpy.asarray(e)


def check_idx(run, drv, pending, case, region, kind, cl, bl, e, evs, region_args, bound):
    """get_spatial_idx, get_mag_idx and the dataframe columns against the exact lookups and against the count arrays"""
    n = len(evs)
    anyout = any(c is None for c in cl)

    def call(f):
        try:
            with quiet():
                return ("ok", f())
        except Exception as ex:
            return ("E", type(ex).__name__)
    sidx = call(lambda: _ints(_cat(region, evs).get_spatial_idx()))
    midx = call(lambda: _ints(_cat(region, evs).get_mag_idx()))

    def cols():
        df = _cat(region, evs).to_dataframe()

        def ints(col):      # a missing value (NaN / None / <NA>) of a friendlier rewrite stays None
            return [None if (v is None or v != v) else int(v) for v in df[col].tolist()]
        rid = ints('region_id') if 'region_id' in df.columns else None
        mid = ints('mag_id') if 'mag_id' in df.columns else None
        if len(df) != n:
            raise RuntimeError("dataframe length")
        return rid, mid
    df = call(cols)
    ncell_now = int(region.num_nodes)

    def no_misplacement(rid):
        """every event in a cell carries that cell; an event in NO cell carries no cell index (missing / out of range)"""
        return isinstance(rid, list) and len(rid) == n and all(
            (a == c) if c is not None else (a is None or not 0 <= a < ncell_now) for a, c in zip(rid, cl))
    run.count(f"idx:{kind}:{'bound' if bound else 'unbound'}")
    e_mid = [-1 if k is None else k for k in bl]
    located = [c for c in cl if c is not None]
    # --- direct oracle
    # What the property demands: no event is given the cell of another one. With an event in no cell the Cartesian lookup rejects
    # the catalog; the quadtree lookup leaves such events out of the index array (so the dataframe column cannot be assigned).
    # Incidental and accepted, never demanded: the quadtree lookup of the current code RAISES on an empty catalog — the empty
    # index array / empty frame is what the property's statement gives.
    g_sidx = (sidx[0], sidx[1] if sidx[0] == "ok" else None)
    g_df = (df[0], df[1] if df[0] == "ok" else None)
    if kind == "cart":
        e_sidx = [("E", None)] if anyout else [("ok", list(cl))]
    else:
        e_sidx = [("E", None), ("ok", [])] if n == 0 else [("ok", located)]
    want_mid = e_mid if bound else None
    if anyout and n:
        df_ok = g_df[0] == "E" or (no_misplacement(g_df[1][0]) and g_df[1][1] == want_mid)
    elif n == 0 and kind != "cart":
        df_ok = g_df[0] == "E" or (g_df[1][0] in ([], None) and g_df[1][1] in ([], None))
    else:
        df_ok = g_df == ("ok", (list(cl), want_mid))
    e_df = "a rejection or no cell index for events in no cell" if (anyout and n) else ("ok", (list(cl), want_mid))
    if g_sidx not in e_sidx:
        run.oracle_failure(case, f"get_spatial_idx {str(sidx)[:120]} but the exact cells are {str(e_sidx)[:120]}")
    if bound:
        if midx != ("ok", e_mid):
            run.oracle_failure(case, f"get_mag_idx {str(midx)[:120]} but the exact bins are {str(e_mid)[:120]}")
    elif midx[0] != "E":
        run.oracle_failure(case, "get_mag_idx returned without magnitude bins bound to the region")
    if not df_ok:
        run.oracle_failure(case, f"dataframe columns {str(df)[:160]} but exact (region_id, mag_id) are {str(e_df)[:160]}")
    # the indices are the ones the count arrays use
    if sidx[0] == "ok":
        ncell = int(region.num_nodes)
        try:
            sc = _ints(_cat(region, evs).spatial_counts())
            if sc != numpy.bincount(numpy.asarray(sidx[1], dtype=int), minlength=ncell).tolist():
                run.oracle_failure(case, "spatial_counts is not the histogram of get_spatial_idx")
        except Exception:
            run.oracle_failure(case, "get_spatial_idx returned but spatial_counts raised")
    if bound and midx[0] == "ok":
        mc = _ints(_cat(region, evs).magnitude_counts())
        ge0 = [v for v in midx[1] if v >= 0]
        if mc != numpy.bincount(numpy.asarray(ge0, dtype=int), minlength=len(e)).tolist():
            run.oracle_failure(case, "magnitude_counts is not the histogram of the non-negative get_mag_idx")
    # the event count the index arrays are paired with; a catalog without region has no indices at all
    if not bound:
        c0 = _cat(region, evs)
        cum = [int(v) for v in numpy.asarray(c0.get_cumulative_number_of_events()).tolist()]
        if c0.get_number_of_events() != n or c0.event_count != n or cum != list(range(1, n + 1)):
            run.oracle_failure(case, f"get_number_of_events / event_count / cumulative counts are not {n} / 1..{n}")
        # a catalog without region has no cells to index: a misconfiguration outside the property's quantifier; the call is made
        # (it must not corrupt anything) but neither the exception class nor a friendlier answer is judged
        for f in (lambda: _cat(None, evs).get_spatial_idx(), lambda: _cat(None, evs).get_mag_idx()):
            try:
                f()
                run.count("idx:no-region:returned")
            except Exception as ex:
                run.count("idx:no-region:" + type(ex).__name__)
    la, lo, ma = rows_arg(evs)
    ed = ",".join(frac(x) for x in e) if bound else "none"
    q = drv.ask(" ".join(["c03_idx_" + kind] + region_args + [la, lo, ma, ed]))
    pending.append(("idx", dict(case, bound=bound), q, (sidx, midx, df), dict(kind=kind, bound=bound, n=n, anyout=anyout, df_ok=df_ok)))


@_guarded
def check_quad_idx(run, drv, pending, case, region, cell_of, edges, evs):
    e = [float(x) for x in edges]
    b = _qt_bounds(region)
    cl = [cell_of(lon, lat) for lon, lat, _ in evs]
    bl = [bin_of(e, m) for _, _, m in evs]
    args = [",".join(frac(v) for v in b[:, c]) for c in range(4)]
    old = region.magnitudes
    region.magnitudes = numpy.asarray(e)
    check_idx(run, drv, pending, case, region, "quad", cl, bl, e, evs, args, True)
    region.magnitudes = None
    check_idx(run, drv, pending, case, region, "quad", cl, bl, e, evs, args, False)
    region.magnitudes = old


# =============================================================================================== (d) bounding-box view
@_guarded
def check_cartview(run, drv, pending, case):
    """GriddedForecast / GriddedDataSet .spatial_counts(cartesian=True) on a Cartesian lattice"""
    from . import c01
    from csep.core.forecasts import GriddedForecast, GriddedDataSet
    spec = c01._spec_cells_tuple(case["region"])
    region, cells, flags = c01.build_region(spec)
    orc = c01.Oracle(region, cells, flags)
    data = numpy.array([[float(v) for v in r] for r in case["data"]], dtype=float)
    edges = numpy.array([4.0 + 0.5 * k for k in range(data.shape[1])])
    n = len(cells)
    run.case(case if run.evaluations < 4 else None, ("cartview", c01.region_key(spec), tuple(map(tuple, case["data"]))))
    run.count("cartview")
    try:
        f = GriddedForecast(data=data.copy(), region=region, magnitudes=edges)
        per_cell = numpy.asarray(f.spatial_counts())
        cart = numpy.asarray(f.spatial_counts(cartesian=True))
        g = GriddedDataSet(data=data[:, 0].copy(), region=region)
        cart1 = numpy.asarray(g.spatial_counts(cartesian=True))
        if not numpy.array_equal(numpy.asarray(g.spatial_counts()), data[:, 0]):
            run.oracle_failure(case, "GriddedDataSet.spatial_counts() is not the per-cell data")
        raw = numpy.asarray(region.get_cartesian(data[:, 0].copy()))
    except Exception as ex:
        run.oracle_failure(case, f"spatial_counts(cartesian=True) raised {type(ex).__name__}: {ex}")
        return
    ny, nx = len(region.ys), len(region.xs)
    if cart.shape != (ny, nx) or cart1.shape != (ny, nx):
        run.oracle_failure(case, f"bounding-box array has shape {cart.shape}, expected {(ny, nx)}")
        return
    seen = set()
    for r in range(ny):
        for c in range(nx):
            k = orc.at(c, r)
            for arr, vals, name in ((cart, per_cell, "MarkedGriddedDataSet"), (cart1, data[:, 0], "GriddedDataSet"),
                                    (raw, data[:, 0], "get_cartesian")):
                v = arr[r, c]
                if k == "o":
                    if not math.isnan(v):
                        run.oracle_failure(case, f"{name}: position ({r},{c}) holds {v!r} but no active cell is there (expected nan)")
                        return
                elif not (v == vals[k]):
                    run.oracle_failure(case, f"{name}: position ({r},{c}) holds {v!r}, the per-cell value of polygon {k} is {vals[k]!r}")
                    return
            if k != "o":
                seen.add(k)
    # every polygon that is the last active one at its position appears
    exp_seen = set(orc.last[c] for c in orc.active)
    if seen != exp_seen:
        run.oracle_failure(case, "some polygon's value appears nowhere in the bounding-box array")
    if not numpy.array_equal(per_cell, data.sum(axis=1)):
        run.oracle_failure(case, "spatial_counts() is not the sum over magnitude bins")
    from .c03 import cart_args_of
    rows = ";".join(",".join(frac(v) for v in r) for r in data.tolist())
    q = drv.ask(" ".join(["c03_cartesian"] + cart_args_of(region, cells, flags) + [rows]))
    pending.append(("cartview", case, q, cart, None))


# =============================================================================================== flush
def flush(run, drv, pending):
    out = drv.run()
    for what, case, q, got, aux in pending:
        o = out[q]
        if what == "qthelper":
            toks = o.split(" ")
            if len(toks) != 2:
                run.mismatch(dict(case, op="c03_qthelpers"), "impl", o[:200])
                continue
            model = dict(sc=_parse_q(toks[0]), smc=_parse_q(toks[1]))
            for w, (res, state) in got.items():
                mres, mstate = model[w]
                if aux["kept_empty"]:
                    # nothing to count: raising (as the code does) and all-zero counts are both what the property allows
                    z = [0] * aux["ncell"] if w == "sc" else [[0] * aux["nbin"] for _ in range(aux["ncell"])]
                    same = res[0] == "E" or res[1] == z
                elif mres[0] == "E":
                    same = res[0] == "E"       # exception classes are not part of the property
                else:
                    same = res == mres
                if not same:
                    run.mismatch(dict(case, op="c03_qthelpers", which=w), str(res)[:300], str(mres)[:300])
                if state != mstate and state != aux["evs"] and res[0] != "E":
                    run.mismatch(dict(case, op="c03_qthelpers", which=w, what="catalog afterwards"), str(state)[:300], str(mstate)[:300])
        elif what == "bincat":
            toks = dict(t.split(":", 1) for t in o.split(" "))
            sc, pr, smc, sk = got

            def nat(v):
                return [] if v == "-" else [int(t) for t in v.split(",")]
            msmc = [] if toks.get("smc", "-") == "-" else [nat(r) for r in toks["smc"].split(";")]
            msk = [] if toks.get("sk", "-") == "-" else [tuple(float(_f(t)) for t in row.split(":")) for row in toks["sk"].split(";")]
            if nat(toks.get("sc", "-")) != sc or nat(toks.get("p", "-")) != pr or (msmc != smc and not (msmc == [] and smc == [])) or msk != sk:
                run.mismatch(dict(case, op="c03_bincat"), [str(x)[:150] for x in got], o[:600])
        elif what == "idx":
            toks = dict(t.split(":", 1) for t in o.split(" "))
            sidx, midx, df = got

            def ints(v):
                return [] if v == "-" else [int(t) for t in v.split(",")]
            m_s = ("E",) if toks["sidx"] == "E" else ("ok", ints(toks["sidx"]))
            g_s = ("E",) if sidx[0] == "E" else ("ok", sidx[1])
            m_m = ("E",) if toks["midx"] == "none" else ("ok", ints(toks["midx"]))
            g_m = ("E",) if midx[0] == "E" else ("ok", midx[1])
            if toks["df"].startswith("E"):
                m_d = ("E",)
            else:
                a, c = toks["df"].split("!")
                m_d = ("ok", (ints(a), None if c == "none" else ints(c)))
            g_d = ("E",) if df[0] == "E" else ("ok", df[1])
            # the model reproduces the code AS IT IS, incl. the incidental AttributeError of the quadtree lookup on an empty catalog and
            # pandas' rejection of a shorter column; where the oracle accepted the property-correct alternative the model is not decisive
            if aux["kind"] == "quad" and aux["n"] == 0:
                if m_s == ("E",) and g_s == ("ok", []):
                    g_s = m_s
                if m_d == ("E",) and aux["df_ok"]:
                    g_d = m_d
            if aux["anyout"] and aux["n"] and m_d == ("E",) and aux["df_ok"]:
                g_d = m_d
            if m_s != g_s or m_m != g_m or m_d != g_d:
                run.mismatch(dict(case, op="c03_idx_" + aux["kind"]), str((g_s, g_m, g_d))[:400], o[:400])
        elif what == "cartview":
            rows = [] if o == "-" else [[None if t == "n" else float(_f(t)) for t in r.split(",")] for r in o.split(";")]
            impl = [[None if math.isnan(v) else float(v) for v in r] for r in numpy.asarray(got).tolist()]
            if rows != impl:
                run.mismatch(dict(case, op="c03_cartesian"), str(impl)[:300], o[:300])
    pending.clear()
    drv.lines = []


# =============================================================================================== generators
def gen_keys(rng):
    """(quadkeys, partition?) — single resolution, a complete multi-resolution refinement, or a key set with gaps"""
    k = rng.random()
    if k < 0.35:
        z = rng.choice([1, 1, 2, 2, 3])
        keys = [""]
        for _ in range(z):
            keys = [q + c for q in keys for c in "0123"]
        return keys, True
    keys = []
    gaps = k >= 0.75

    def split(q, depth):
        if depth >= 4 or rng.random() < 0.4:
            if not gaps or rng.random() < 0.8:
                keys.append(q)
            return
        for c in "0123":
            split(q + c, depth + 1)
    for q in "0123":
        split(q, 1)
    if not keys:
        keys = ["0", "3"]
    if rng.random() < 0.5:
        rng.shuffle(keys)
    return keys[:100], not gaps


def gen_qthelper(rng, tier):
    from csep.core.regions import QuadtreeGrid2D
    from . import c03
    keys, _ = gen_keys(rng)
    start, step, nb = c03.gen_edges(rng)
    edges = [float(x) for x in c03.edges_array(start, step, nb, rng.choice(["library", "explicit"]))]
    region = QuadtreeGrid2D.from_quadkeys(keys)
    b = _qt_bounds(region)
    S, N = float(b[:, 1].min()), float(b[:, 3].max())
    W, E = float(b[:, 0].min()), float(b[:, 2].max())
    h = (edges[1] - edges[0]) if len(edges) > 1 else 0.5
    m0 = edges[0]
    style = rng.choice(["nothing-filtered", "nothing-filtered", "mixed", "mixed", "mixed", "all-below", "all-beyond", "empty",
                        "bounds"])
    n = 0 if style == "empty" else rng.choice([1, 1, 2, 2, 3, 5, 10, 30, 100 if tier == "thorough" else 60])

    def mag(inside):
        k = rng.random()
        if not inside:
            return rng.choice([math.nextafter(m0, -math.inf), m0 - h / 2, m0 - 3 * h])
        if k < 0.3:
            return m0                                  # exactly the minimum edge: kept, bin 0
        if k < 0.55:
            return rng.choice(edges)
        if k < 0.65:
            return edges[-1] + rng.choice([h / 2, 7.5 * h, 100.0])
        return edges[rng.randrange(len(edges))] + h * rng.choice([0.25, 0.5, 0.625])

    def loc(cls):
        t = b[rng.randrange(len(b))]
        if cls == "in":
            fx, fy = rng.choice([0.0, 0.0, 0.25, 0.5]), rng.choice([0.0, 0.25, 0.5, 0.5])
            return (t[0] + fx * (t[2] - t[0]), t[1] + fy * (t[3] - t[1]))
        if cls == "south":      # exactly on the south bound of the grid, inside the southernmost row's longitude span
            return (t[0] + 0.25 * (t[2] - t[0]), S)
        if cls == "north":
            return (t[0] + 0.25 * (t[2] - t[0]), N)
        if cls == "west":
            return (W, t[1] + 0.5 * (t[3] - t[1]))
        if cls == "east":
            return (E, t[1] + 0.5 * (t[3] - t[1]))
        if cls == "near":       # one ulp inside / outside the latitude bounds
            return (t[0] + 0.5 * (t[2] - t[0]), rng.choice([math.nextafter(S, math.inf), math.nextafter(N, -math.inf),
                                                            math.nextafter(S, -math.inf), math.nextafter(N, math.inf)]))
        if cls == "beyond":
            return (t[0] + 0.5 * (t[2] - t[0]), rng.choice([N + 1.0, S - 1.0, 89.5, -89.5, 86.0, -86.5]))
        return (rng.choice([180.0, 181.0, -181.0, math.nextafter(-180.0, -math.inf)]), t[1] + 0.5 * (t[3] - t[1]))  # lon-out
    evs = []
    pool = []
    for _ in range(max(1, n // 2)):
        if style == "nothing-filtered":
            cls = rng.choice(["in", "in", "in", "south", "north", "west", "east"])
            pool.append((*loc(cls), mag(True)))
        elif style == "all-below":
            pool.append((*loc(rng.choice(["in", "south", "beyond"])), mag(False)))
        elif style == "all-beyond":
            pool.append((*loc("beyond"), mag(rng.random() < 0.8)))
        elif style == "bounds":
            pool.append((*loc(rng.choice(["south", "north", "near", "west", "east", "beyond"])), mag(rng.random() < 0.85)))
        else:
            cls = rng.choice(["in", "in", "in", "in", "south", "north", "near", "beyond", "west", "east", "lon-out"])
            pool.append((*loc(cls), mag(rng.random() < 0.8)))
    evs = [rng.choice(pool) for _ in range(n)]
    evs = [(float(a), float(c), float(m)) for a, c, m in evs]
    # ---- excluded input class W3: the private helpers only accept a Python list of edges
    mode = "list" if excluded("W3") else rng.choice(["list", "list", "ndarray", "none"])
    return dict(kind="qthelper", quadkeys=keys, edges=[repr(x) for x in edges], mag_bins=mode,
                events=[[repr(a), repr(c), repr(m)] for a, c, m in evs])


def gen_cartview(rng, tier):
    from . import c01
    spec = c01._spec_cells_tuple(c01.gen_lattice(rng, "quick"))
    n = len(spec["cells"])
    nb = rng.choice([1, 2, 3, 5])
    data = [[float(rng.choice([0, 0, 1, 2, 3, 7, 1000, 0.5, 0.25, 12345.0])) for _ in range(nb)] for _ in range(n)]
    if rng.random() < 0.5:
        data = [[float(i * nb + k + 1) for k in range(nb)] for i in range(n)]     # all different: a misplaced value shows
    return dict(kind="cartview", region=spec, data=[[repr(v) for v in r] for r in data])


def replay(run, case):
    drv, pending = Driver(), []
    if case["kind"] == "qthelper":
        check_qthelper(run, drv, pending, case)
    elif case["kind"] == "cartview":
        check_cartview(run, drv, pending, case)
    flush(run, drv, pending)
